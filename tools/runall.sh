#!/bin/bash
# runs every registered quick check once; prints one summary line per property
cd /verif
rc=0
for p in $(jq -r '.checks[].property_id' MANIFEST.json); do
  out=$(./check.sh $p ${1:-quick} 2>&1); e=$?
  echo "$out" | grep -E "^(VIOLATED|UNDECIDED)" | cut -c1-240
  echo "$out" | tail -1 | grep -q "^VIOLATION" && echo "$out" | tail -2 | head -1 || echo "$out" | tail -1
  [ $e -ne 0 ] && rc=1
done
exit $rc
