#!/bin/bash
# usage: poscontrols.sh <property id> <repo dir>
# Positive controls of the thorough tier: a rule that matches nothing passes for ever, so after the property was
# decided on the tree the stored seeded changes that this property's rules are known to report
# (seeded/<name>/expected.json, frozen by tools/seeds_expect.py) are applied one at a time to a scratch copy of the
# CURRENT tree (outside /repo and /verif, removed afterwards) and the same static analysis must report each of them
# through one of the expected rules. A patch that no longer applies to the current tree is skipped and counted.
# Prints one JSON object on the last line: {"controls": n, "reported": k, "skipped": s, "failed": [...], "samples": [...]}.
set -u
PROP="$1"; REPO="${2:-/repo}"; V="$(cd "$(dirname "$0")/.." && pwd)"
export GOFLAGS=-mod=mod GOPROXY=off GOSUMDB=off GOTOOLCHAIN=local; unset GOWORK
S=$(mktemp -d /tmp/bxh_controls.XXXXXX) || exit 2
trap 'rm -rf "$S"' EXIT
mkdir -p "$S/tree" "$S/vf/evidence"
rsync -a --exclude .git "$REPO"/ "$S/tree"/ || exit 2
cp "$V/KNOWN_FINDINGS.txt" "$V/properties.jsonl" "$S/vf/"
n=0; k=0; s=0; failed=""; samples=""
for d in "$V"/seeded/*/; do
  [ -f "$d/expected.json" ] || continue
  rules=$(jq -r --arg p "$PROP" '(.[$p] // []) | join(" ")' "$d/expected.json")
  [ -n "$rules" ] || continue
  name=$(basename "$d")
  if ! (cd "$S/tree" && patch -p1 --dry-run -s -f < "$d/patch.diff" >/dev/null 2>&1); then s=$((s+1)); continue; fi
  n=$((n+1))
  (cd "$S/tree" && patch -p1 -s -f < "$d/patch.diff" >/dev/null 2>&1)
  out=$("$V/bin/bxhlint" -repo "$S/tree" -verif "$S/vf" -prop "$PROP" -tier quick 2>&1); rc=$?
  (cd "$S/tree" && patch -p1 -R -s -f < "$d/patch.diff" >/dev/null 2>&1)
  hit=""
  for r in $rules; do
    if echo "$out" | grep -q "^VIOLATED: $PROP $r "; then hit="$r"; break; fi
  done
  if [ $rc -ne 0 ] && [ -n "$hit" ]; then
    k=$((k+1)); samples="$samples\"$name reported by $hit\","
  else
    failed="$failed\"$name (expected one of: $rules)\","
  fi
done
echo "{\"controls\": $n, \"reported\": $k, \"skipped_patch_does_not_apply\": $s, \"failed\": [${failed%,}], \"samples\": [${samples%,}]}"
[ -z "$failed" ]
