#!/usr/bin/env python3
"""usage: trypatch.py <patch.diff> [-v]  - applies the patch to a scratch copy of /repo's current tree and prints what
all 20 rule sets report (one bxhlint process, -prop all). /repo is not touched. Maintenance tool, not a check."""
import sys, json
sys.path.insert(0, "/verif/tools")
import regress_all
res = regress_all.run_patch(sys.argv[1])
if res is None:
    print("patch does not apply"); sys.exit(2)
rep, out = res
for l in out.splitlines():
    if l.startswith(("VIOLATED", "UNDECIDED")) or "-v" in sys.argv:
        print(l[:500])
print("reported:", json.dumps(rep))
