#!/usr/bin/env python3
"""Generates /verif/DESIGN.md: the hand-written parts live in tools/design/*.md, the per-property
rule lists (section 5) are extracted from the checker's own rule table (r.Rule(...) calls), so the
document cannot drift from what the checker decides."""
import glob, json, os, re, subprocess

HERE = os.path.dirname(os.path.dirname(os.path.abspath(__file__)))


def rules():
    out = {}
    pat = re.compile(r'r\.Rule\("(R(\d\d)\.[0-9a-z]+)",\s*"((?:[^"\\]|\\.)*)"\)')
    for f in sorted(glob.glob(os.path.join(HERE, "checker/rules/*.go"))):
        for m in pat.finditer(open(f).read()):
            rid, pid, text = m.group(1), "C" + m.group(2), m.group(3)
            text = text.replace('\\"', '"').replace("\\\\", "\\")
            out.setdefault(pid, []).append((rid, text))
    for k in out:
        out[k].sort(key=lambda x: [int(p) if p.isdigit() else p for p in re.split(r"(\d+)", x[0])])
    return out


def notdecided():
    out = {}
    pat = re.compile(r'r\.NotDecided = append\(r\.NotDecided, "((?:[^"\\]|\\.)*)"\)')
    for f in sorted(glob.glob(os.path.join(HERE, "checker/rules/*.go"))):
        src = open(f).read()
        for m in pat.finditer(src):
            # attribute to the property whose rule precedes it in the file
            before = src[: m.start()]
            ids = re.findall(r'r\.Rule\("R(\d\d)\.', before)
            if ids:
                out.setdefault("C" + ids[-1], []).append(m.group(1).replace('\\"', '"'))
    return out


def main():
    props = [json.loads(l) for l in open(os.path.join(HERE, "properties.jsonl"))]
    R, ND = rules(), notdecided()
    notes = json.load(open(os.path.join(HERE, "tools/design/per_property.json")))
    parts = [open(os.path.join(HERE, "tools/design/00_head.md")).read()]
    sec5 = ["## 5. Per-property rules as built\n",
            "The rule texts below are extracted from the checker's rule table (`r.Rule(...)` in\n"
            "`checker/rules/*.go`) by `tools/gen_design.py`; the same texts are written into every\n"
            "evidence file. Every property is claimed at level **other**: the rules decide structural\n"
            "necessary conditions of the property, stated per rule, and *not* the behaviour as a whole.\n"]
    for p in props:
        pid = p["id"]
        n = notes.get(pid, {})
        sec5.append(f"\n### {pid} — {p['title']}\n")
        if n.get("clause"):
            sec5.append(n["clause"].strip() + "\n")
        for rid, text in R.get(pid, []):
            sec5.append(f"* **{rid}** {text}")
        nd = ND.get(pid, [])
        if nd:
            sec5.append("\nNot decided: " + "; ".join(nd) + ".")
        for key, title in (("built", "How it is decided"), ("findings", "Found on the pinned tree"), ("seeds", "Seeded changes"), ("falsealarms", "False alarms corrected")):
            if n.get(key):
                sec5.append(f"\n*{title}.* " + n[key].strip())
        sec5.append("")
    parts.append("\n".join(sec5))
    tail = open(os.path.join(HERE, "tools/design/90_tail.md")).read()
    fixes = subprocess.run(["git", "-C", "/repo", "log", "--format=%h %s"], capture_output=True, text=True).stdout.splitlines()
    fixes = [f for f in fixes if f.split(" ", 1)[1].startswith("fix:")]
    kf = [l.strip() for l in open(os.path.join(HERE, "KNOWN_FINDINGS.txt")) if l.startswith("finding:")]
    # which properties each fix commit is recorded under
    fixed_props = {}
    for l in open(os.path.join(HERE, "KNOWN_FINDINGS.txt")):
        m = re.match(r"fixed: property=(C\d\d) ([0-9a-f]{7,})", l)
        if m:
            fixed_props.setdefault(m.group(2)[:8], set()).add(m.group(1))
    fl = []
    for f in fixes:
        h, msg = f.split(" ", 1)
        ps = ",".join(sorted(fixed_props.get(h[:8], [])))
        fl.append(f"* `{h}` [{ps}] {msg[5:]}")
    fnd = []
    for l in kf:
        m = re.match(r"finding: property=(C\d\d) rule=(\S+) construct=(.*?) :: (.*)", l)
        if m:
            fnd.append(f"* {m.group(1)} {m.group(2)} `{m.group(3)}` — {m.group(4)[:400]}")
    rows = []
    for d in sorted(glob.glob(os.path.join(HERE, "seeded/*/meta.json"))):
        name = os.path.basename(os.path.dirname(d))
        md = json.load(open(d))
        det = md.get("detected_by", "")
        rep, _, rem = det.partition(" - ")
        rows.append(f"| `{name}` | {md.get('property','')} | {rep.strip()} | {rem.strip()} |")
    tail = tail.replace("{{FIXLIST}}", "\n".join(fl)).replace("{{FINDLIST}}", "\n".join(fnd)).replace("{{SEEDTABLE}}", "\n".join(rows))
    tail = tail.replace("{{NFIX}}", str(len(fl))).replace("{{NFIND}}", str(len(fnd)))
    parts.append(tail)
    doc = "\n".join(parts).replace("**39 `fix:` commits**", f"**{len(fl)} `fix:` commits**").replace("10 more are recorded as known\nfindings", f"{len(fnd)} more are recorded as known\nfindings")
    open(os.path.join(HERE, "DESIGN.md"), "w").write(doc)
    print("DESIGN.md written:", sum(len(x.splitlines()) for x in parts), "lines;", sum(len(v) for v in R.values()), "rules")


if __name__ == "__main__":
    main()
