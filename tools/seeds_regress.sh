#!/bin/bash
# Re-runs every stored seeded change against the current checkers: applies the patch to /repo,
# runs the check of the seed's property, undoes the patch. Prints one line per seed.
cd /repo && git diff --quiet || { echo "/repo dirty"; exit 2; }
for d in /verif/seeded/*/; do
  name=$(basename $d); prop=$(jq -r .property $d/meta.json)
  if ! git apply --check $d/patch.diff 2>/dev/null; then echo "$name: patch does not apply to HEAD"; continue; fi
  git apply $d/patch.diff
  e=0; rules=""
  for cp in $(jq -r '(.check_props // [.property])[]' $d/meta.json); do
    out=$(cd /verif && ./check.sh $cp quick 2>&1); [ $? -ne 0 ] && e=1
    rules="$rules$(echo "$out" | grep "^VIOLATED" | sed -E 's/^VIOLATED: [A-Z0-9]+ (R[0-9.a-z]+) .*/\1/' | sort -u | tr '\n' ' ')"
  done
  git checkout -- . ; git clean -fdq -- . 2>/dev/null
  echo "$name: prop=$prop exit=$e rules=[$rules]"
done
