#!/bin/bash
# usage: benigncheck.sh <name> [<worktree>]
# Stores a behaviour-preserving refactoring (patch.diff + meta.json from <worktree>/seed) under
# /verif/benign/<name>/ and runs EVERY registered check against /repo with the patch applied.
# Any VIOLATED / UNDECIDED line is a false alarm of the checker (the code still satisfies the property).
set -u
NAME="$1"; OUT=/verif/benign/$NAME
if [ $# -ge 2 ]; then
  mkdir -p "$OUT"; cp "$2/seed/patch.diff" "$OUT/patch.diff" || exit 2; cp "$2/seed/meta.json" "$OUT/agent_meta.json" 2>/dev/null
fi
cd /repo && git diff --quiet || { echo "/repo dirty"; exit 3; }
git apply --check "$OUT/patch.diff" 2>/dev/null || { echo "$NAME: patch does not apply to HEAD"; exit 4; }
git apply "$OUT/patch.diff"
alarms=0
for P in $(jq -r '.checks[].property_id' /verif/MANIFEST.json); do
  out=$(cd /verif && ./check.sh $P quick 2>&1); e=$?
  if [ $e -ne 0 ]; then
    alarms=$((alarms+1))
    echo "$out" | grep -E "^(VIOLATED|UNDECIDED)" | cut -c1-400
  fi
done
git checkout -- . ; git clean -fdq -- . 2>/dev/null
echo "$NAME: checks with alarm = $alarms"
