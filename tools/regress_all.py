#!/usr/bin/env python3
"""Parallel regression of the checker against every stored patch, on scratch copies of /repo's current tree.

  tools/regress_all.py seeds   [name-glob]   every seeded/<name>/patch.diff must still be reported by the rules frozen
                                             in expected.json (all 20 rule sets run; extra reports are listed)
  tools/regress_all.py benign  [name-glob]   every benign/<name>/patch.diff (behaviour-preserving) must be silent on
                                             all 20 checks
  tools/regress_all.py freeze  [name-glob]   rewrites seeded/<name>/expected.json from what ALL rule sets report now

Each patch is applied to its own rsync copy of /repo under /tmp (removed afterwards) and decided by one bxhlint process
(-prop all: one load, all 20 rule sets). /repo itself is never touched. Not a check: a maintenance tool run by hand.
"""
import concurrent.futures as cf, fnmatch, glob, json, os, re, shutil, subprocess, sys, tempfile

V = "/verif"
ENV = dict(os.environ, GOFLAGS="-mod=mod", GOPROXY="off", GOSUMDB="off", GOTOOLCHAIN="local")
ENV.pop("GOWORK", None)
REPO = os.environ.get("BXH_REPO", "/repo")


def run_patch(patch):
    patch = os.path.abspath(patch) if patch else patch
    s = tempfile.mkdtemp(prefix="bxh_regress.", dir="/tmp")
    try:
        tree, vf = s + "/tree", s + "/vf"
        os.makedirs(vf + "/evidence")
        subprocess.run(["rsync", "-a", "--exclude", ".git", REPO + "/", tree + "/"], check=True)
        for f in ("KNOWN_FINDINGS.txt", "properties.jsonl"):
            shutil.copy(V + "/" + f, vf)
        if patch:
            if subprocess.run(["patch", "-p1", "-s", "-f", "--dry-run", "-i", patch], cwd=tree, capture_output=True).returncode != 0:
                return None
            subprocess.run(["patch", "-p1", "-s", "-f", "-i", patch], cwd=tree, check=True, capture_output=True)
        out = subprocess.run([os.environ.get("BXHLINT", V + "/bin/bxhlint"), "-repo", tree, "-verif", vf, "-prop", "all"], capture_output=True, text=True, env=ENV).stdout
        rep = {}
        for m in re.finditer(r"^(VIOLATED|UNDECIDED): (C\d+) (\S+) \[(.*?)\] ", out, re.M):
            rep.setdefault(m.group(2), set()).add(m.group(3) + ("?" if m.group(1) == "UNDECIDED" else ""))
        return {k: sorted(v) for k, v in sorted(rep.items())}, out
    finally:
        shutil.rmtree(s, ignore_errors=True)


def main():
    mode = sys.argv[1]
    pat = sys.argv[2] if len(sys.argv) > 2 else "*"
    kind = "benign" if mode == "benign" else "seeded"
    dirs = [d for d in sorted(glob.glob("%s/%s/*/" % (V, kind))) if fnmatch.fnmatch(os.path.basename(d.rstrip("/")), pat)]
    bad = 0
    with cf.ThreadPoolExecutor(max_workers=int(os.environ.get("JOBS", "6"))) as ex:
        futs = {d: ex.submit(run_patch, d + "patch.diff") for d in dirs}
        for d in dirs:
            name = os.path.basename(d.rstrip("/"))
            res = futs[d].result()
            if res is None:
                print("%s: patch does not apply to the current tree" % name)
                continue
            rep, out = res
            if mode == "benign":
                known = json.load(open(d + "expected_alarms.json")) if os.path.exists(d + "expected_alarms.json") else None
                if rep and known is not None and all(set(v) <= set(known.get(k, [])) for k, v in rep.items()):
                    # a refactoring shape the analyser is known not to follow yet (recorded, see DESIGN section 8)
                    print("%s: known imprecision %s" % (name, json.dumps(rep)))
                elif rep:
                    bad += 1
                    print("%s: FALSE ALARM %s" % (name, json.dumps(rep)))
                    for l in out.splitlines():
                        if l.startswith(("VIOLATED", "UNDECIDED")):
                            print("    " + l[:400])
                else:
                    print("%s: silent" % name)
            elif mode == "freeze":
                exp = {k: [r for r in v if not r.endswith("?")] for k, v in rep.items()}
                exp = {k: v for k, v in exp.items() if v}
                json.dump(exp, open(d + "expected.json", "w"), indent=1, sort_keys=True)
                print("%s: %s" % (name, json.dumps(exp)))
            else:
                exp = json.load(open(d + "expected.json")) if os.path.exists(d + "expected.json") else {}
                missing = {p: rs for p, rs in exp.items() if not (set(rs) & set(rep.get(p, [])))}
                status = "ok" if not missing else "LOST " + json.dumps(missing)
                if not exp and not rep:
                    status = "not reported (as recorded)"
                if missing:
                    bad += 1
                print("%s: %s reported=%s" % (name, status, json.dumps(rep)))
    print("== %s: %d patches, %d need attention" % (mode, len(dirs), bad))
    sys.exit(1 if bad else 0)


if __name__ == "__main__":
    main()
