#!/usr/bin/env python3
"""Reads the output of tools/seeds_regress.sh (-v form: one line per seed with 'rules=[..]') together with a
per-seed, per-property run and freezes, for every stored seed, which rules of which property report it:
/verif/seeded/<name>/expected.json = {"C06": ["R06.9"], ...}. Used by the positive controls of the thorough
tier (tools/poscontrols.sh). Run by hand after the rules changed; never run by a check."""
import json, os, re, subprocess, sys, glob

ENV = dict(os.environ, GOFLAGS="-mod=mod", GOPROXY="off", GOSUMDB="off", GOTOOLCHAIN="local")
ENV.pop("GOWORK", None)

def main():
    if subprocess.run(["git", "-C", "/repo", "diff", "--quiet"]).returncode != 0:
        sys.exit("/repo dirty")
    for d in sorted(glob.glob("/verif/seeded/*/")):
        name = os.path.basename(d.rstrip("/"))
        meta = json.load(open(d + "meta.json"))
        props = meta.get("check_props") or [meta["property"]]
        if subprocess.run(["git", "-C", "/repo", "apply", "--check", d + "patch.diff"], capture_output=True).returncode != 0:
            print(name, "patch does not apply"); continue
        subprocess.run(["git", "-C", "/repo", "apply", d + "patch.diff"], check=True)
        exp = {}
        try:
            for p in props:
                out = subprocess.run(["/verif/check.sh", p, "quick"], capture_output=True, text=True, env=ENV).stdout
                rules = sorted(set(re.findall(r"^VIOLATED: \S+ (R[0-9.a-z]+) ", out, re.M)))
                if rules:
                    exp[p] = rules
        finally:
            subprocess.run(["git", "-C", "/repo", "checkout", "--", "."], check=True)
            subprocess.run(["git", "-C", "/repo", "clean", "-fdq", "--", "."])
        json.dump(exp, open(d + "expected.json", "w"), indent=1, sort_keys=True)
        print(name, exp)

if __name__ == "__main__":
    main()
