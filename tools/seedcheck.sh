#!/bin/bash
# usage: seedcheck.sh <seed-name> <worktree>
# Confirms a seeded change in its scratch worktree (builds, baseline suite passes,
# demo fails with / passes without), stores it under /verif/seeded/<seed-name>/ and runs the
# all 20 rule sets against a scratch copy of /repo with the patch applied (tools/trypatch.py).
set -u
export GOFLAGS=-mod=mod GOPROXY=off GOSUMDB=off GOTOOLCHAIN=local; unset GOWORK
NAME="$1"; WT="$2"; shift 2
export TMPDIR=$(mktemp -d /tmp/seedcheck_tmp.XXXXXX); trap 'rm -rf "$TMPDIR"' EXIT  # pkg/vm/wasm tests use a fixed directory under TMPDIR
OUT=/verif/seeded/$NAME; mkdir -p "$OUT"
cp "$WT/seed/patch.diff" "$OUT/patch.diff" || exit 2
rm -rf "$OUT/demo"; cp -r "$WT/seed/demo" "$OUT/demo" 2>/dev/null
cp "$WT/seed/meta.json" "$OUT/agent_meta.json" 2>/dev/null
DEMO_CMD=$(python3 -c "
import json,re
c=json.load(open('$WT/seed/meta.json')).get('demo_cmd','')
c=re.split(r'\s{2,}\(|\s+\(demo file|\s+#', c)[0]
print(c)")
echo "== demo cmd: $DEMO_CMD"
cd "$WT" || exit 2
echo "== build with change"; go build -ldflags=-checklinkname=0 ./... 2>&1 | grep -v "^/usr/bin/ld\|^#" | tail -3; echo "build_rc=${PIPESTATUS[0]}"
echo "== baseline suite with change"
go test -vet=off -count=1 ./internal/ledger/... ./internal/model/... ./internal/repo/... ./pkg/order/ ./pkg/order/mempool/... ./pkg/ratelimiter/... ./pkg/vm/wasm/... 2>&1 | grep -E "^(FAIL|ok|---)" | tr '\n' ';'; echo
echo "== demo WITH change (must fail)"
(cd "$WT" && timeout 600 bash -c "$DEMO_CMD" 2>&1 | grep -v "^/usr/bin/ld\|^#" | grep -E "^(---|FAIL|ok|PASS|panic)" | head -8); 
echo "== demo WITHOUT change (must pass)"
git apply -R seed/patch.diff && (timeout 600 bash -c "$DEMO_CMD" 2>&1 | grep -v "^/usr/bin/ld\|^#" | grep -E "^(---|FAIL|ok|PASS|panic)" | head -8); git apply seed/patch.diff
echo "== all 20 rule sets on a scratch copy of /repo with the patch"
/verif/tools/trypatch.py "$OUT/patch.diff"
