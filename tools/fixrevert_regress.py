#!/usr/bin/env python3
"""For every `fixed:` record of KNOWN_FINDINGS.txt: take a scratch copy of /repo's current tree, revert that fix commit
there (patch -R of the commit's diff; skipped when later changes make it inapplicable) and run all 20 rule sets: the
check of each property named for that commit must report a violation again. Maintenance tool, not a registered check."""
import re, subprocess, sys, os, tempfile, shutil, json, concurrent.futures as cf
V="/verif"; REPO="/repo"
ENV=dict(os.environ, GOFLAGS="-mod=mod", GOPROXY="off", GOSUMDB="off", GOTOOLCHAIN="local"); ENV.pop("GOWORK", None)
recs={}
for l in open(V+"/KNOWN_FINDINGS.txt"):
    m=re.match(r"fixed: property=(C\d+) ([0-9a-f]{7,10}) ", l)
    if m: recs.setdefault(m.group(2), set()).add(m.group(1))
def run(commit):
    props=recs[commit]
    s=tempfile.mkdtemp(prefix="bxh_fixrev.", dir="/tmp")
    try:
        tree=s+"/tree"; vf=s+"/vf"; os.makedirs(vf+"/evidence")
        subprocess.run(["rsync","-a","--exclude",".git",REPO+"/",tree+"/"],check=True)
        for f in ("KNOWN_FINDINGS.txt","properties.jsonl"): shutil.copy(V+"/"+f, vf)
        d=subprocess.run(["git","-C",REPO,"diff",commit+"~1",commit],capture_output=True,text=True).stdout
        open(s+"/fix.diff","w").write(d)
        if subprocess.run(["patch","-p1","-R","-s","-f","--dry-run","-i",s+"/fix.diff"],cwd=tree,capture_output=True).returncode!=0:
            return commit, None, props
        subprocess.run(["patch","-p1","-R","-s","-f","-i",s+"/fix.diff"],cwd=tree,check=True,capture_output=True)
        out=subprocess.run([os.environ.get("BXHLINT",V+"/bin/bxhlint"),"-repo",tree,"-verif",vf,"-prop","all"],capture_output=True,text=True,env=ENV).stdout
        rep={}
        for m in re.finditer(r"^(VIOLATED|UNDECIDED): (C\d+) (\S+) ", out, re.M):
            rep.setdefault(m.group(2), set()).add(m.group(3)+("?" if m.group(1)=="UNDECIDED" else ""))
        return commit, rep, props
    finally:
        shutil.rmtree(s, ignore_errors=True)
only=set(sys.argv[1:])
if only: recs={k:v for k,v in recs.items() if k in only}
bad=0
with cf.ThreadPoolExecutor(max_workers=int(os.environ.get("JOBS","6"))) as ex:
    for commit, rep, props in ex.map(run, sorted(recs)):
        if rep is None:
            print("%s: revert does not apply to the current tree (later changes) - skipped" % commit); continue
        missing=[p for p in sorted(props) if not [r for r in rep.get(p,[]) if not r.endswith("?")]]
        # one defect recorded under several properties ("same defect" lines) is reported by the rule of one of them
        allmiss=len(missing)==len(props)
        print("%s: %s reported=%s" % (commit, "ok" if not missing else ("NOT REPORTED for "+",".join(missing) if allmiss else "ok (same-defect records without an own rule: "+",".join(missing)+")"), json.dumps({k:sorted(v) for k,v in sorted(rep.items())})))
        bad+= 1 if allmiss else 0
print("== fix-revert: %d commits, %d need attention" % (len(recs), bad))
