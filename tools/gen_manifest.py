#!/usr/bin/env python3
"""Generates /verif/MANIFEST.json from the table below (single source of truth)."""
import json, os, sys
HERE = os.path.dirname(os.path.dirname(os.path.abspath(__file__)))
BASELINE = "for m in $(cat /w/out/gomods.txt); do MF=$(cd /repo/$m && . /w/out/goenv.sh && gomodflag); (cd /repo/$m && go test $MF -json -vet=off -count=1 -timeout 25m ./...); done"

# property -> (technique, level text, level note, design ref)
CLAIMED = {
 "C17": ("dispatch-surface enumeration + SSA guard-before-effect reachability (who-may-call) over the BVM model",
         "Decides clauses R17.1-R17.5: every reflectively dispatchable entry of every registered contract is enumerated from go/types; every entry that can reach a ledger write / event / balance change / EVM call / effectful cross-invoke must have all such effects behind a caller guard on every CFG path (or be listed public-by-design with a reason); promoted plumbing must be excluded by a dispatcher filter that dominates reflect Call; permission helpers are verified as predicates on the checked identity; audit-only branches contain only event posts. This is a structural necessary condition (breaking it exposes an entry), not the runtime behaviour.",
         "go/types+go/ssa model; reflection modelled by the BVM dispatch model whose premises (MethodByName+Call in InvokeBVM, nested context in CrossInvoke) are re-checked each run; guard idiom table in rules/contracts.go; role data and sender signatures trusted",
         "DESIGN.md section 5 C17, section 3.1"),
 "C15": ("enum-field refinement dataflow (finality guards) + SSA guard/ordering reachability in the governance contract",
         "Decides clauses R15.1-R15.5: every proposal status change executes only where p.Status cannot be APPROVED/REJECTED (forward dataflow refined by the code's own comparisons, lifted through helper pre/post-conditions to all call sites); vote admission (role answer before setVote; tally and ballot writes behind electorate membership and ballot-absent edges; persistence only on approve/reject); special proposals reach the decision only after the super-admin vote; handleResult is preceded by a concluding call and follows every direct concluding change; the decision function is fed the proposal's own tally fields. Structural necessary conditions; not the tally arithmetic.",
         "go/ssa model; govaluate semantics and role data trusted; helper postconditions computed from the helpers' own bodies",
         "DESIGN.md section 5 C15"),
 "C01": ("per-loop order-effect classification of every map range / sync.Map.Range in the block-execution packages (SSA: accumulations, keyed vs. unkeyed writes, early exits carrying entry data, call write-summaries), sort-before-use path rule, forward slice of clock values, goroutine write-shape rule, cache guard-edge rules",
         "Decides clauses R01.1-R01.5: no map-iteration order reaches a later use (every loop body is order-insensitive, or what it accumulates is sorted before any other use, or it is a frozen argued exception); wall-clock / random values flow only into durations, logging and metrics (one frozen exception: genesis Timestamp, not hashed); goroutines of block execution write only map[ownIndex] under the mutex; the service cache is filled only for successful transactions and reset after a ledger rollback; the region executed only when EnableAudit() is true posts AUDIT_* events only. That execution is otherwise a function of (genesis, blocks) - dependencies, restart placement - is not decided.",
         "go/ssa model; sort, encoding/json (sorted map keys) semantics trusted",
         "DESIGN.md section 5 C01"),
 "C02": ("SSA must-pass-through of the index gate, finite-ordering evaluation of checkIndex, who-may-write analysis of the counter maps, argument-coherence rule",
         "Decides clauses R02.1-R02.4: every accepting path of checkIBTP crosses checkIndex(counter[dst]+1, ibtp.Index) (or the explicit unordered-destination edge); checkIndex returns nil exactly for cur==exp (all three orderings evaluated); the four counter maps are written only in functions reachable solely through HandleIBTP, behind the no-error edges of checkIBTP and begin/report; the request counter advances by exactly one; one interchain event per accepted IBTP; (from,to,index) triples are coherent. Structural necessary conditions; counter values over histories are not decided.",
         "go/ssa model; TransactionManager/Service contracts behave as their own checks say; unordered (batch) services are outside the property's 'ordered pair'",
         "DESIGN.md section 5 C02"),
 "C03": ("SSA dominance/must-pass-through rules on the proof pipeline, contradiction rule on the CheckProof result contract, BVM entry reachability",
         "Decides clauses R03.1-R03.7: proofs are verified before transactions are applied, the only ways out of verifyProofs before the join are the three enumerated ones, CheckProof runs for every loop element; a rejecting CheckProof return always carries a non-nil error (consumer dereferences it); an invalid reason short-circuits every VM entry; the rule engine / multi-sign check run only after sha256(proof)==ibtp.Proof with the address from getValidateAddress, which selects only an available rule; the validator counter is incremented only for set members that are removed, success only above (n-1)/3; no unguarded dispatchable entry reaches HandleIBTP; with a per-group length of len(txs)/groupNum some verification group's slice ends at the end of the block. Not the correctness of a rule's verdict.",
         "go/ssa model; validator engine, ecdsa recovery and pinned dependencies trusted; group partition arithmetic not covered",
         "DESIGN.md section 5 C03"),
 "C07": ("SSA must-follow (revert on every failing path, lifted to callers), journaling model of internal/ledger derived from its own code, CHA boundary-call analysis, receipt-success edge reachability",
         "Decides clauses R07.1-R07.5: after every VM entry of the executor each failing path reverts to a snapshot taken before the entry (or returns the error to a caller that does); the snapshot of applyTransaction precedes execution and the fee-failure branch reverts; no call from VM-side code reaches a ledger writer that stores dirty state without a journal entry; the ledger's changer object is never replaced while accounts point to it; interchain deliveries are fed only from successful receipts; read-only execution clears after each transaction and reaches no persistence. Not EVM/wasm internals.",
         "go/ssa model + CHA restricted to module types; revert functions restore what they journal (C13); EVM and wasmtime trusted",
         "DESIGN.md section 5 C07"),
 "C04": ("FSM table extraction from syntax compared with the protocol relation; SSA must-precede (record loaded before setFSM) and success-edge rules; shared timeout-list invariant",
         "Decides clauses R04.1-R04.4: the fsm.Events literal of the transaction manager contains only transitions of the protocol relation stated in the property, none leaving SUCCESS/FAILURE/ROLLBACK, every fireable event has a status write-back; every tx-record write stores a freshly created record or a status produced by setFSM from the record loaded from storage, and only across setFSM's no-error edge; the executor's timeout write is applied only to ids of the timeout list of that height, and the list invariant (removal on every accepted receipt, readable encoding, coherent accumulators) holds. Not the reachability of edges over histories.",
         "go/ast + go/types constant evaluation (protobuf names read from the generated _name table); looplab/fsm engine trusted",
         "DESIGN.md section 5 C04"),
 "C05": ("SSA success-edge and loop rules on the one-to-many bookkeeping; range-element vs fixed-index rule",
         "Decides clauses R05.1-R05.4: the global state reaches the FSM only across isMultiTxFinished()==true, which is true only as count == ChildTxCount with every child compared; no code stores SUCCESS into a GlobalState directly; every failure branch flips every child unconditionally in its loop, sets the global state and (contracts) removes the group from the timeout list; a joining child is BEGIN only while the group is BEGIN; each rolled-back child is filed under a chain derived from its own id; a group leaves the timeout list only after its global state changed. Not the destinations' behaviour.",
         "go/ssa model (range loops recognised by SSA block structure)",
         "DESIGN.md section 5 C05"),
 "C06": ("SSA dataflow/ordering rules on the executor's timeout bookkeeping",
         "Decides clauses R06.1-R06.8: register/expire/rollback use the same block height and register at height+TimeoutHeight; registration lies behind the request/group/invalid/begin-failed/positive/overflow guards; every decoded receipt record reaches the removal update; all ledger writes of post-processing precede FlushDirtyData; expiry reads the list of its own height and no in-memory executor state; separators are emitted only after a non-empty list; accumulators extend the element they looked up; removal only by a receipt that is neither invalid nor begin-failed, and timeout-list entries of the transaction manager are added / removed under the group record's id and height. Numeric adequacy of the overflow guard is not decided.",
         "go/ssa model; list encoding convention of getTimeoutList (first element empty = no list) read from the code",
         "DESIGN.md section 5 C06"),
 "C14": ("credit/debit pairing over SSA values (lifted through parameters to call sites), dominance of sufficiency comparisons, stale-read (alias) ordering rule",
         "Decides clauses R14.1-R14.6: every balance credit of native execution credits an amount debited earlier on every path (same value or its quotient), parameters lifted to all call sites, with named exceptions (admin grant, genesis); every debit lies behind a balance>=amount comparison; when debit and credit accounts may alias the credit's balance read follows the debit; the fee share is fees/len(admins) credited per element of that list; the admin grant is paid only behind event==register and result==approve; the balance writes of a transfer lie behind amount.Sign() >= 0. Not sums over histories; EVM transfers excluded.",
         "go/ssa model; math/big semantics trusted",
         "DESIGN.md section 5 C14"),
 "C16": ("SSA guard rules on the availability gates, FSM/pre-check table extraction (repository and pinned bitxhub-core), cascade must-pass-through, cache-coherence and stale-write-back rules",
         "Decides clauses R16.1-R16.6: a local-source request is accepted only after checkSourceAvailability, a local destination only across exists/IsAvailable/CheckPermission, the target error becomes the begin-failed flag; in all governance FSM tables an approved logout ends in forbidden and nothing leads from forbidden to a usable status; an approved freeze/activate/logout of an appchain passes the matching cross-invoke with its result tested and the per-service operations run inside the loop; the service cache is fed only from successful receipts, reset on rollback, and every status-changing service entry posts the SERVICE event; no record loaded before a status change is written back after it. Not composed behaviour over histories.",
         "go/ssa + go/ast; bitxhub-core tables are read from the pinned module source; looplab/fsm trusted",
         "DESIGN.md section 5 C16"),
 "C08": ("recover-dominance rule on the VM / validator entry points, bare-goroutine rule, who-may-call rule for contract dispatch, nil / sign guard-edge rules on the executor's unrecovered path, loop-shape and return-origin rules for receipts, producer/decoder type agreement for events, frozen classification of explicit panics, revert-once path rule",
         "Decides clauses R08.1-R08.8: BoltVM.Run / HandleIBTP, WasmVM.Run and VerifyPool.CheckProof install a recover before anything that may panic and turn the panic into their error; goroutines of verifySign / verifyProofs recover themselves or call only recovering entries; the executor reaches contracts only through those entries (one frozen, argued exception); a transaction without sender gets a FAILED receipt before any ledger call, transfer tests addresses and sign; exactly one non-nil receipt per transaction in block order, and those are persisted; every event type decoded with a panic is posted with the decoder's type; every explicit panic of the unrecovered region is classified; no snapshot id is reverted twice. Implicit panics in dependencies / ledger code on well-formed arguments, blocking, resource exhaustion and guest termination are not decided.",
         "go/ssa model; wasmtime fuel, EVM gas trusted",
         "DESIGN.md section 5 C08"),
 "C09": ("key-prefix table agreement (written / deleted / read) over CHA-reachable storage calls, hash-last and parent-link ordering rules, normalised height expressions",
         "Decides clauses R09.1-R09.6: every index key prefix written per block is deleted (or rewritten) on rollback and every prefix read is written; every header field covered by BlockHeader.Hash (field set read from the pinned model source) is assigned before BlockHash = Hash() of the same block; ParentHash comes from currentBlockHash, which is advanced only after persisting, at construction, and in rollbackBlocks from the block at the rollback target; roots are computed over the executed transaction slice and the stored receipt slice, receipts frozen afterwards; persist and rollback count interchain txs the same way; values copied from the old chain meta into the persisted one are read after their last update. Not blockfile internals.",
         "go/ssa + CHA restricted to module types; bitxhub-kit storage/blockfile trusted",
         "DESIGN.md section 5 C09"),
 "C10": ("append-chain/loop analysis of hash inputs (sorted-slice rule), predicate agreement, injectivity of the preimage encoding, aliasing rule for big.Int values",
         "Decides clauses R10.1-R10.5: each sha256 input is assembled by appends inside loops over slices sorted before the loop (never inside a map range or callback), leaves are element hashes in slice order; the state hash covers key and value, the account preimage covers address, account record and state hash, and hash/journal/commit select keys with the same changed-value predicate; the preimage encoding is checked for delimiters (known finding: key||value); no in-place arithmetic on balance objects obtained from getters; every batch write of Commit uses a constructed key and each data kind is both written and deleted under its constructor. Not collision resistance.",
         "go/ssa model; sha256/merkletree trusted",
         "DESIGN.md section 5 C10"),
 "C11": ("happens-before rule over the durable writes of one block commit (program order, go closures unordered, WaitGroup joins), single-atomic-batch rule for the state store, must-pass-through rules on the three constructors, error-discipline rule for persistence calls",
         "Decides clauses R11.1-R11.4 (write-ordering and reconciliation clause only): state commit precedes chain persist; blockfile append and all index writes precede the commit of the batch carrying the chain meta; SimpleLedger.Commit writes data + journal + max marker through one batch committed once, nothing directly, memory height / pruning after it; ledger.New returns only after Rollback(chain height) succeeded, NewChainLedgerImpl truncates blockfile surplus, NewSimpleLedger refuses a height without journal; no persistence error is dropped. The set of reachable on-disk states, leveldb / blockfile atomicity, crash during rollback and re-execution equivalence are not decided.",
         "go/ssa model; leveldb batch atomicity and blockfile repair() trusted",
         "DESIGN.md section 5 C11"),
 "C12": ("SSA ordering rules on the rollback functions, storage-kind table agreement between Commit and revertJournal, struct-field completeness of the cache purge",
         "Decides clauses R12.1-R12.5: refusal returns are not reachable after any mutation; the chain rollback runs only after a successful state rollback; caches are cleared before any journal revert and clear() purges every lru layer; the kinds Commit writes are the kinds revertJournal restores (put and delete), journal record/max marker/data share one batch, each reverted height deletes its record and lowers the marker in the batch carrying the reverted data, captured journal fields = restored fields; prevJnlHash (from the target height's journal) and maxJnlHeight are stored on every successful path; account / code records are restored only behind the entry's AccountChanged / CodeChanged flag. Not value-level equality.",
         "go/ssa model (defer-spilled results resolved); leveldb batch atomicity trusted",
         "DESIGN.md section 5 C12"),
 "C13": ("lookup-order must-pass-through, undo-log discipline derived from the ledger's own writers, key-space tagging of the Query merge map, cache fill/purge and snapshot structure rules",
         "Decides clauses R13.1-R13.5: GetState consults dirty/origin/cache/db in order, each on the miss edge of the previous, remembering db results; every dirty-state writer journals (or only applies undo records / is journaled by all callers), previous values are read before the store, the changer object is never replaced; the Query merge map uses one key space and skips nil values; flush adds every dirty key to the cache on every path, creation revert removes the cached account; RevertToSnapshot reverts to the recorded index and truncates later revisions. Not LRU eviction or reopen.",
         "go/ssa + CHA restricted to module types; golang-lru trusted",
         "DESIGN.md section 5 C13"),
 "C18": ("SSA guard-edge rules on admission / inclusion / promotion, append-vs-mark pairing, who-may-write rule for the batch sequence number",
         "Decides clauses R18.1-R18.5: a transaction enters the insertion set only across nonce>=pending, pointer-not-seen and hash-not-known edges; every inclusion into a batch lies behind predecessor-batched or nonce==commit-nonce, and every appended key is marked in batchedTxs on every path; each append is followed by the size test, the bound is min(configured, ready); batchSeqNo has three writers and the increment is never followed by an error return; filterReady promotes only on nonce==demand with demand+1. History-dependent index consistency is not decided.",
         "go/ssa model; google/btree iteration order trusted",
         "DESIGN.md section 5 C18"),
 "C19": ("SSA guard-edge rules on eviction, per-account scoping rule across goroutine closures, sibling agreement of removal sets, who-may-write rule for the ready counter",
         "Decides clauses R19.1-R19.4: eviction only across age/not-batched/not-ready/parked edges; a per-account structure inside the loop over accounts never receives the whole account map; commit and eviction paths remove from the same five indices and drop the hash; the ready counter is written only by promote (+len ready), batch (-len / reset) and commit (clamp to ready size) and HasPendingRequest reports counter>0. Liveness and counter drift over histories are not decided.",
         "go/ssa model",
         "DESIGN.md section 5 C19"),
 "C20": ("SSA guard-edge and must-follow rules on every commit-event send, who-may-write rule for the durable applied index, goroutine-root confinement of the unsynchronised pool, sibling agreement of the raft and solo state-report handlers",
         "Decides clauses R20.1-R20.3, R20.5, R20.6: every send on commitC (raft mint, raft snapshot recovery, solo loop) lies behind height==lastExec+1 and is followed by the lastExec update before the next send; a block is minted only above the recorded applied index, and the durable applied index is written only from the stateC receive of the main loop; on election the batch sequence number is reset to lastExec and every batch-generation site is behind isLeader(); the pool's unsynchronised methods are called from one goroutine root per node; every state report reaches mempool.CommitTransactions on every path. Raft safety, faults, crash points and replica agreement on content are not decided.",
         "go/ssa model; etcd raft trusted",
         "DESIGN.md section 5 C20"),
}
NOT_APPLICABLE = {}

# clauses added after the first claim text was written (rounds 2 and 3); appended to the level text
ADDENDA = {
 "C04": "R04.11: the destination hub's notice status is translated through txStatus2EventM only, table and code paired through helper parameters.",
 "C14": "R14.3 accepts only a comparison of the address values (not of *types.Address pointers) as inequality guard. R14.7 (shared with R10.4): no in-place arithmetic on stored balances - a reverted credit is taken back in full. R14.8: every success path of a ledger's Suiside has zeroed the account's balance (the EVM credited the beneficiary before).",
 "C01": "R01.5: the audit-only region posts AUDIT_* events only. R01.3 also forbids a goroutine to read a captured variable the spawner keeps writing (range variables are shared across iterations under the module's go directive). R01.6 (shared with R10.4): no in-place arithmetic on a stored balance, also through *big.Int parameters - the journal's previous balance is what a restarted node replays from. R01.7 (shared with R02.7): per-block accumulators of the transaction executor are re-created on every path through ApplyTransactions.",
 "C02": "R02.5: the read-modify-write windows of two interchain records never overlap (source == destination pairs). R02.6: on every path of ProcessIBTP's request branch the counter is advanced and the record written back (acceptance consumes the index). R02.5 also: a record loaded with getInterchain(k) is written back under the same key. R02.7: the per-block delivery map is re-created on every path through ApplyTransactions (a request is listed in the accepting block and in no other). R02.8 (shared with R05.8): in changeMultiTxStatus every write of the reporting child's entry is preceded by setFSM on its status. R02.1 is evaluated recursively through helpers that are themselves index guards. R02.9: the StatusChange a Begin* entry marshals has its PrevStatus assigned on every path (the zero value BEGIN raises no notify flag).",
 "C03": "R03.7: the verification groups cover the block; R03.8: no function reachable from CheckProof reads a VerifyPool container that is filled after construction (no memo of ledger data). R03.9: the digest signed by relay-chain validators covers source, destination, index, type, payload hash and status. R03.5 also: the delete that makes signers distinct is on the lookup's set under the lookup's key expression.",
 "C05": "R05.3 also decides bulk filing: all ids at once only behind the notify-source flag and under the shared source chain. R05.5: the timeout notification set is computed from the stored child statuses before setTimeoutRollback overwrites them. R05.6: the group id of a one-to-many transaction covers the source service and the declared children. R05.7: a test 'child status == SUCCESS' is never reachable after a bulk overwrite of the group's child statuses. R05.8 (shared with R02.8): a receipt reaches its child through the child's state machine.",
 "C06": "R06.9: a list rewritten element by element in a loop is carried from one iteration to the next (fold coherence). R06.10: expiry (getTimeoutIBTPsMap / setTimeoutRollback) runs after setTimeoutList, and additions are written back before removals. R06.11: when the contract overrides the timeout the registration consults the record (Height != MaxUint64); R06.12: the timeout is taken away on the source hub only. R06.13: T = 0 is recorded as MaxUint64 wherever the recorded height is what ids are listed under; registration under the recorded height is accepted as the second sound scheme (then R06.11 is mandatory). R06.14: setTimeoutList tests ibtp.Group only inside the request branch. R06.15: the batch answer files only requests as invalid.",
 "C07": "R07.6 (shared with R13.6): no dirty-set entry is removed and storageChange.revert stores the recorded previous value on every path.",
 "C08": "R08.4 also covers the optional callee: vm.Context.Callee / tx.GetTo() is dereferenced only behind its nil test in every function of the unrecovered path. R08.2 also requires a recovering goroutine to defer its WaitGroup.Done before anything that may panic. R08.9: the InterBroker entries, which run outside any recover when reached from evmInterchain, index split lists only behind a length test. R08.4 also: a number parsed from transaction data with big.Int.SetString is used only behind the parse's ok result or a nil test, followed into the callee.",
 "C09": "R09.7: on the chain-store persist path every write goes through the batch that carries the chain meta. R09.5 strengthened: every addition into the interchain count is executed for every index. R09.8: every key removeChainDataOnBlock deletes is built from the removed height / block, never from the chain meta. R09.9 (shared with R02.7): the per-block interchain accumulator is re-created on every path, so the cumulative count counts each request once. R09.3 also: no writer of currentBlockHash is called between the read that feeds ParentHash and the store into the header.",
 "C10": "R10.6 (shared with R13.6): no dirty-set entry is removed, so journal and state hash see every key the block touched. R10.7: the account-cache path and the database path of GetAccount initialise the same fields. R10.2 also: key and value are appended for every selected key of the state-hash loop. R10.4 follows *big.Int parameters to their call sites. R10.8 (shared with R13.4): every dirty key of an account enters that account's state cache at flush. R10.2 also: the callbacks of dirtyState.Range return the constant true on every path.",
 "C11": "R11.1 also forbids direct store writes on the persist path. R11.5: a persisted journal window marker and the in-memory field it mirrors receive the same height. R11.6 (shared with R12.6): every path through revertJournal reaches the PrevStates loop and the CodeChanged test.",
 "C12": "R12.4 also decides the refusal window (exactly minJnlHeight > height, any spelling) and that a root not read from the target journal is stored only for height 0. R12.6: one journal entry is undone as a whole. R12.7 (shared with R10.4): the journal records the real previous balance (no in-place arithmetic on stored balances).",
 "C13": "R13.6: tombstones survive the undo (no Delete on dirtyState; the storage undo stores the recorded value, nil included, on every path). R13.5 also pairs the reset of nextRevisionId with the truncation of validRevisions. R13.7: the undo path removes cache entries only from the account-record cache.",
 "C15": "R15.6: electorate snapshot; R15.7: the electorate update reaches every non-final status. R15.8: the availability sets of roles and dapps stay within the frozen reference.",
 "C16": "R16.7: every verdict of checkTargetAvailability is among the origins of the target error checkIBTP returns. R16.8: an AppchainManager entry that cascades PauseChainService does so on every successful path after the status change. R16.9: UnPauseChainService only on the approved branch of Manage or behind a comparison of the restored status with available / freezing. R16.5 also: the cached service record is allocated per event. R16.10: no pre-check table of the repository's governance objects admits an operation from logouting / forbidden.",
 "C17": "R17.6: index -> record key agreement; R17.7: every role predicate of RoleManager decides on each of its parameters. R17.8: no creating entry offers a direct self permission; R17.9: the permission kinds of every guarded entry stay within the frozen who-may-call table. R17.10: a Self / Admin permission on a loaded Service / Dapp is checked against the record's owner field. R17.11: replacing an id list deletes the reverse entries (admin -> chain) of the replaced ids.",
 "C18": "R18.2 pairs marking and appending both ways. R18.6: updateCommittedNonce stores the reported nonce unchanged. R18.7 (shared with R20.9): delete(batchedTxs, k) takes k from the pool entry of a committed hash. R18.8: the commit nonce is advanced from a committed pool entry only behind commit nonce < new nonce.",
 "C19": "R19.4 requires the commit clamp to be exactly priorityIndex.size(); R19.5: key agreement of the pool indexes. R19.2 generalised: the map handed to a per-account structure is made in the same loop iteration. R19.5 also: an index that records its key time deletes entries under the recorded time. R19.6: a raw insertion into a timed index with a side table is reached only after the slot's old entry was deleted or found absent. R19.5 also: a key taken from the iteration of another index has that index's key class.",
 "C20": "R20.4: the applied index persisted by reportState is the one recorded for the reported height. R20.7: the raft snapshot payload carries n.lastExec, the height paired with appliedIndex. R20.3 also: SetBatchSeqNo takes over its argument on every path. R20.8: a failed range fetch of SyncCFTBlocks is not skipped. R20.9 (shared with R18.7): a batched mark leaves only with its transaction.",
}


def rule_max():
    import glob, re
    mx = {}
    for f in glob.glob(os.path.join(HERE, "checker/rules/*.go")):
        for m in re.finditer(r'r\.Rule\("R(\d\d)\.(\d+)[a-z]?"', open(f).read()):
            mx[m.group(1)] = max(mx.get(m.group(1), 0), int(m.group(2)))
    return mx


def main():
    import re
    mx = rule_max()
    for pid in list(CLAIMED):
        tech, text, note, ref = CLAIMED[pid]
        text = re.sub(r"R(\d\d)\.1-R\d\d\.\d+", lambda m: f"R{m.group(1)}.1-R{m.group(1)}.{mx.get(m.group(1), 0)}", text)
        if pid in ADDENDA:
            text = text.rstrip() + " Added later: " + ADDENDA[pid]
        CLAIMED[pid] = (tech, text, note, ref)
    props = [json.loads(l)["id"] for l in open(os.path.join(HERE, "properties.jsonl"))]
    na_path = os.path.join(HERE, "tools", "not_applicable.json")
    na = json.load(open(na_path)) if os.path.exists(na_path) else {}
    checks = []
    for pid in props:
        if pid not in CLAIMED:
            continue
        tech, text, note, ref = CLAIMED[pid]
        checks.append({
            "property_id": pid,
            "quick_cmd": f"./check.sh {pid} quick",
            "thorough_cmd": f"./check.sh {pid} thorough",
            "evidence_file": f"/verif/evidence/{pid}.json",
            "replay_cmd_template": f"./check.sh {pid} quick  # re-evaluates the obligations listed in {{path}} on the current tree",
            "engine": "bxhlint",
            "level_claimed": {"category": "other", "text": text, "design_ref": ref},
            "level_note": note,
            "technique": "static analysis: " + tech,
        })
    man = {
        "version": 1,
        "setup_cmd": "cd /verif/checker && GOFLAGS=-mod=mod GOPROXY=off GOSUMDB=off GOTOOLCHAIN=local go build -o ../bin/bxhlint ./cmd/bxhlint",
        "hooks": {"guard": "verif", "enable": "no hooks: the checker only reads /repo's source (go/packages), nothing is built with a tag",
                  "baseline_off_cmd": BASELINE, "source_commits": [], "add_only": True},
        "engines": [{"name": "bxhlint", "path": "/verif/checker", "serves_properties": sorted(CLAIMED),
                     "kind_free_text": "repository-specific static checker (go/packages, go/types, go/ssa, CFG reachability, effect summaries, BVM dispatch model, table extraction)"}],
        "checks": checks,
        "not_applicable": [{"property_id": p, "reason": na.get(p, "no sound static rule built yet for this property in this session; see DESIGN.md section 6")} for p in props if p not in CLAIMED],
        "notes": "All checks are static analyses of /repo's current working tree (level 'other': structural necessary conditions, see DESIGN.md). fix: commits in /repo and recorded findings are listed in /verif/KNOWN_FINDINGS.txt.",
    }
    json.dump(man, open(os.path.join(HERE, "MANIFEST.json"), "w"), indent=1)
    print("claimed:", sorted(CLAIMED), "not_applicable:", len(man["not_applicable"]))

if __name__ == "__main__":
    main()
