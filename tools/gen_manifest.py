#!/usr/bin/env python3
"""Generates /verif/MANIFEST.json from the table below (single source of truth)."""
import json, os, sys
HERE = os.path.dirname(os.path.dirname(os.path.abspath(__file__)))
BASELINE = "for m in $(cat /w/out/gomods.txt); do MF=$(cd /repo/$m && . /w/out/goenv.sh && gomodflag); (cd /repo/$m && go test $MF -json -vet=off -count=1 -timeout 25m ./...); done"

# property -> (technique, level text, level note, design ref)
CLAIMED = {
 "C17": ("dispatch-surface enumeration + SSA guard-before-effect reachability (who-may-call) over the BVM model",
         "Decides clauses R17.1-R17.5: every reflectively dispatchable entry of every registered contract is enumerated from go/types; every entry that can reach a ledger write / event / balance change / EVM call / effectful cross-invoke must have all such effects behind a caller guard on every CFG path (or be listed public-by-design with a reason); promoted plumbing must be excluded by a dispatcher filter that dominates reflect Call; permission helpers are verified as predicates on the checked identity; audit-only branches contain only event posts. This is a structural necessary condition (breaking it exposes an entry), not the runtime behaviour.",
         "go/types+go/ssa model; reflection modelled by the BVM dispatch model whose premises (MethodByName+Call in InvokeBVM, nested context in CrossInvoke) are re-checked each run; guard idiom table in rules/contracts.go; role data and sender signatures trusted",
         "DESIGN.md section 5 C17, section 3.1"),
 "C15": ("enum-field refinement dataflow (finality guards) + SSA guard/ordering reachability in the governance contract",
         "Decides clauses R15.1-R15.5: every proposal status change executes only where p.Status cannot be APPROVED/REJECTED (forward dataflow refined by the code's own comparisons, lifted through helper pre/post-conditions to all call sites); vote admission (role answer before setVote; tally and ballot writes behind electorate membership and ballot-absent edges; persistence only on approve/reject); special proposals reach the decision only after the super-admin vote; handleResult is preceded by a concluding call and follows every direct concluding change; the decision function is fed the proposal's own tally fields. Structural necessary conditions; not the tally arithmetic.",
         "go/ssa model; govaluate semantics and role data trusted; helper postconditions computed from the helpers' own bodies",
         "DESIGN.md section 5 C15"),
 "C02": ("SSA must-pass-through of the index gate, finite-ordering evaluation of checkIndex, who-may-write analysis of the counter maps, argument-coherence rule",
         "Decides clauses R02.1-R02.4: every accepting path of checkIBTP crosses checkIndex(counter[dst]+1, ibtp.Index) (or the explicit unordered-destination edge); checkIndex returns nil exactly for cur==exp (all three orderings evaluated); the four counter maps are written only in functions reachable solely through HandleIBTP, behind the no-error edges of checkIBTP and begin/report; the request counter advances by exactly one; one interchain event per accepted IBTP; (from,to,index) triples are coherent. Structural necessary conditions; counter values over histories are not decided.",
         "go/ssa model; TransactionManager/Service contracts behave as their own checks say; unordered (batch) services are outside the property's 'ordered pair'",
         "DESIGN.md section 5 C02"),
 "C03": ("SSA dominance/must-pass-through rules on the proof pipeline, contradiction rule on the CheckProof result contract, BVM entry reachability",
         "Decides clauses R03.1-R03.6: proofs are verified before transactions are applied, the only ways out of verifyProofs before the join are the three enumerated ones, CheckProof runs for every loop element; a rejecting CheckProof return always carries a non-nil error (consumer dereferences it); an invalid reason short-circuits every VM entry; the rule engine / multi-sign check run only after sha256(proof)==ibtp.Proof with the address from getValidateAddress, which selects only an available rule; the validator counter is incremented only for set members that are removed, success only above (n-1)/3; no unguarded dispatchable entry reaches HandleIBTP. Not the correctness of a rule's verdict.",
         "go/ssa model; validator engine, ecdsa recovery and pinned dependencies trusted; group partition arithmetic not covered",
         "DESIGN.md section 5 C03"),
 "C07": ("SSA must-follow (revert on every failing path, lifted to callers), journaling model of internal/ledger derived from its own code, CHA boundary-call analysis, receipt-success edge reachability",
         "Decides clauses R07.1-R07.5: after every VM entry of the executor each failing path reverts to a snapshot taken before the entry (or returns the error to a caller that does); the snapshot of applyTransaction precedes execution and the fee-failure branch reverts; no call from VM-side code reaches a ledger writer that stores dirty state without a journal entry; the ledger's changer object is never replaced while accounts point to it; interchain deliveries are fed only from successful receipts; read-only execution clears after each transaction and reaches no persistence. Not EVM/wasm internals.",
         "go/ssa model + CHA restricted to module types; revert functions restore what they journal (C13); EVM and wasmtime trusted",
         "DESIGN.md section 5 C07"),
}
NOT_APPLICABLE = {}

def main():
    props = [json.loads(l)["id"] for l in open(os.path.join(HERE, "properties.jsonl"))]
    na_path = os.path.join(HERE, "tools", "not_applicable.json")
    na = json.load(open(na_path)) if os.path.exists(na_path) else {}
    checks = []
    for pid in props:
        if pid not in CLAIMED:
            continue
        tech, text, note, ref = CLAIMED[pid]
        checks.append({
            "property_id": pid,
            "quick_cmd": f"./check.sh {pid} quick",
            "thorough_cmd": f"./check.sh {pid} thorough",
            "evidence_file": f"/verif/evidence/{pid}.json",
            "replay_cmd_template": f"./check.sh {pid} quick  # re-evaluates the obligations listed in {{path}} on the current tree",
            "engine": "bxhlint",
            "level_claimed": {"category": "other", "text": text, "design_ref": ref},
            "level_note": note,
            "technique": "static analysis: " + tech,
        })
    man = {
        "version": 1,
        "setup_cmd": "cd /verif/checker && GOFLAGS=-mod=mod GOPROXY=off GOSUMDB=off GOTOOLCHAIN=local go build -o ../bin/bxhlint ./cmd/bxhlint",
        "hooks": {"guard": "verif", "enable": "no hooks: the checker only reads /repo's source (go/packages), nothing is built with a tag",
                  "baseline_off_cmd": BASELINE, "source_commits": [], "add_only": True},
        "engines": [{"name": "bxhlint", "path": "/verif/checker", "serves_properties": sorted(CLAIMED),
                     "kind_free_text": "repository-specific static checker (go/packages, go/types, go/ssa, CFG reachability, effect summaries, BVM dispatch model, table extraction)"}],
        "checks": checks,
        "not_applicable": [{"property_id": p, "reason": na.get(p, "no sound static rule built yet for this property in this session; see DESIGN.md section 6")} for p in props if p not in CLAIMED],
        "notes": "All checks are static analyses of /repo's current working tree (level 'other': structural necessary conditions, see DESIGN.md). fix: commits in /repo and recorded findings are listed in /verif/KNOWN_FINDINGS.txt.",
    }
    json.dump(man, open(os.path.join(HERE, "MANIFEST.json"), "w"), indent=1)
    print("claimed:", sorted(CLAIMED), "not_applicable:", len(man["not_applicable"]))

if __name__ == "__main__":
    main()
