package core

import (
	"sort"
	"strings"

	"golang.org/x/tools/go/ssa"
)

// ---------------------------------------------------------------- effect summaries (E4)

// Kind of a primitive effect.
type Kind string

const (
	KWrite    Kind = "write"           // journaled ledger write
	KWriteRaw Kind = "write-nojournal" // non-journaled ledger write (AddState family)
	KEvent    Kind = "event"           // event post
	KBalance  Kind = "balance"         // balance/nonce mutation on an account object
	KEVM      Kind = "evm"             // EVM invocation
	KXInvoke  Kind = "xinvoke-dynamic" // cross-invoke whose target is not constant
)

// ContractPrims are the effect primitives visible to built-in contracts.
var ContractPrims = map[string]Kind{
	"(github.com/meshplus/bitxhub-core/boltvm.Stub).Set":                 KWrite,
	"(github.com/meshplus/bitxhub-core/boltvm.Stub).SetObject":           KWrite,
	"(github.com/meshplus/bitxhub-core/boltvm.Stub).Delete":              KWrite,
	"(github.com/meshplus/bitxhub-core/boltvm.Stub).Add":                 KWriteRaw,
	"(github.com/meshplus/bitxhub-core/boltvm.Stub).AddObject":           KWriteRaw,
	"(github.com/meshplus/bitxhub-core/boltvm.Stub).PostEvent":           KEvent,
	"(github.com/meshplus/bitxhub-core/boltvm.Stub).PostInterchainEvent": KEvent,
	"(github.com/meshplus/bitxhub-core/boltvm.Stub).CrossInvokeEVM":      KEVM,
	"(github.com/meshplus/bitxhub-core/governance.Persister).Set":        KWrite,
	"(github.com/meshplus/bitxhub-core/governance.Persister).SetObject":  KWrite,
	"(github.com/meshplus/bitxhub-core/governance.Persister).Delete":     KWrite,
	"(github.com/meshplus/eth-kit/ledger.IAccount).SetBalance":           KBalance,
	"(github.com/meshplus/eth-kit/ledger.IAccount).AddBalance":           KBalance,
	"(github.com/meshplus/eth-kit/ledger.IAccount).SubBalance":           KBalance,
	"(github.com/meshplus/eth-kit/ledger.IAccount).SetNonce":             KBalance,
	"(github.com/meshplus/eth-kit/ledger.IAccount).SetState":             KWrite,
	"(github.com/meshplus/eth-kit/ledger.IAccount).AddState":             KWriteRaw,
	"(github.com/meshplus/eth-kit/ledger.IAccount).SetCodeAndHash":       KWrite,
}

// KindSet is a small set of kinds.
type KindSet map[Kind]bool

func (k KindSet) String() string {
	var s []string
	for x := range k {
		s = append(s, string(x))
	}
	sort.Strings(s)
	return strings.Join(s, ",")
}

// Effects holds per-function transitive effect summaries.
type Effects struct {
	prim  func(ssa.CallInstruction) (Kind, bool)
	bvm   *BVM
	sum   map[*ssa.Function]KindSet
	edges map[*ssa.Call]*Edge
}

// PrimOf builds a primitive predicate from a name table.
func PrimOf(tab map[string]Kind) func(ssa.CallInstruction) (Kind, bool) {
	return func(c ssa.CallInstruction) (Kind, bool) {
		o := CalleeObj(c)
		if o == nil {
			return "", false
		}
		k, ok := tab[o.FullName()]
		return k, ok
	}
}

// ComputeEffects computes the least fixpoint of "may perform effect kind K"
// over static calls, in-place closures and (when bvm != nil) cross-invoke
// edges. roots: the functions to start from (everything reachable from them
// through static calls is summarised).
func ComputeEffects(prim func(ssa.CallInstruction) (Kind, bool), bvm *BVM, roots []*ssa.Function) *Effects {
	e := &Effects{prim: prim, bvm: bvm, sum: map[*ssa.Function]KindSet{}, edges: map[*ssa.Call]*Edge{}}
	if bvm != nil {
		for _, ed := range bvm.Edges {
			e.edges[ed.Site] = ed
		}
	}
	// collect reachable functions
	var all []*ssa.Function
	seen := map[*ssa.Function]bool{}
	var visit func(f *ssa.Function)
	visit = func(f *ssa.Function) {
		if f == nil || seen[f] || f.Blocks == nil {
			return
		}
		seen[f] = true
		all = append(all, f)
		for _, g := range e.succ(f) {
			visit(g)
		}
	}
	for _, r := range roots {
		visit(r)
	}
	for _, f := range all {
		e.sum[f] = KindSet{}
	}
	changed := true
	for changed {
		changed = false
		for _, f := range all {
			s := e.sum[f]
			n := len(s)
			for _, b := range f.Blocks {
				for _, in := range b.Instrs {
					for k := range e.instrKinds(in) {
						s[k] = true
					}
				}
			}
			if len(s) != n {
				changed = true
			}
		}
	}
	return e
}

// succ: functions f may call for summary purposes.
func (e *Effects) succ(f *ssa.Function) []*ssa.Function {
	var out []*ssa.Function
	for _, b := range f.Blocks {
		for _, in := range b.Instrs {
			switch x := in.(type) {
			case ssa.CallInstruction:
				if g := StaticCallee(x); g != nil {
					out = append(out, unwrapSynthetic(g))
				}
				if c, ok := in.(*ssa.Call); ok {
					if ed := e.edges[c]; ed != nil {
						for _, t := range ed.Targets {
							if t.Fn != nil {
								out = append(out, t.Fn)
							}
						}
					}
				}
			case *ssa.MakeClosure:
				if g, ok := x.Fn.(*ssa.Function); ok {
					out = append(out, g)
				}
			}
			// function values passed around (method values, func refs)
			for _, op := range in.Operands(nil) {
				if op == nil || *op == nil {
					continue
				}
				if g, ok := (*op).(*ssa.Function); ok {
					out = append(out, unwrapSynthetic(g))
				}
			}
		}
	}
	return out
}

func unwrapSynthetic(g *ssa.Function) *ssa.Function {
	if g.Synthetic == "" || g.Blocks == nil {
		return g
	}
	// wrapper / bound thunk: find the single static callee
	for _, b := range g.Blocks {
		for _, in := range b.Instrs {
			if c, ok := in.(ssa.CallInstruction); ok {
				if h := c.Common().StaticCallee(); h != nil && h != g {
					return h
				}
			}
		}
	}
	return g
}

// instrKinds: effect kinds instruction in may cause (primitive or via callee summary).
func (e *Effects) instrKinds(in ssa.Instruction) KindSet {
	out := KindSet{}
	switch x := in.(type) {
	case ssa.CallInstruction:
		if k, ok := e.prim(x); ok {
			out[k] = true
		}
		if g := StaticCallee(x); g != nil {
			for k := range e.sum[unwrapSynthetic(g)] {
				out[k] = true
			}
		}
		if c, ok := in.(*ssa.Call); ok {
			if ed := e.edges[c]; ed != nil {
				if len(ed.Targets) == 0 && (ed.Method == "" || ed.AddrConst == "") {
					out[KXInvoke] = true
				}
				for _, t := range ed.Targets {
					if t.Fn != nil {
						for k := range e.sum[t.Fn] {
							out[k] = true
						}
					} else if t.ViaIface {
						// promoted Stub plumbing as a cross-invoke target: primitive by name
						if k, ok := ContractPrims["("+StubIface+")."+t.Name]; ok {
							out[k] = true
						}
					}
				}
			}
		}
	case *ssa.MakeClosure:
		if g, ok := x.Fn.(*ssa.Function); ok {
			for k := range e.sum[g] {
				out[k] = true
			}
		}
	}
	if _, isCall := in.(ssa.CallInstruction); !isCall {
		return out
	}
	// function values passed as arguments (callbacks) count at the call
	for _, op := range in.Operands(nil) {
		if op == nil || *op == nil {
			continue
		}
		if g, ok := (*op).(*ssa.Function); ok {
			for k := range e.sum[unwrapSynthetic(g)] {
				out[k] = true
			}
		}
	}
	return out
}

// Of returns the summary of fn (nil if not analysed).
func (e *Effects) Of(fn *ssa.Function) KindSet { return e.sum[fn] }

// InstrKinds is the exported per-instruction query.
func (e *Effects) InstrKinds(in ssa.Instruction) KindSet { return e.instrKinds(in) }

// Sinks returns the instructions of fn that may cause an effect.
func (e *Effects) Sinks(fn *ssa.Function) []ssa.Instruction {
	var out []ssa.Instruction
	for _, b := range fn.Blocks {
		for _, in := range b.Instrs {
			if len(e.instrKinds(in)) > 0 {
				out = append(out, in)
			}
		}
	}
	return out
}

// Analysed reports the number of functions summarised.
func (e *Effects) Analysed() int { return len(e.sum) }
