package core

import (
	"go/constant"
	"go/token"
	"go/types"

	"golang.org/x/tools/go/ssa"
)

// Finite evaluation of predicates over byte-slice values.
//
// A storage value is abstracted to one of four classes: absent (nil), present and
// empty, and two different non-empty contents. Over these classes the operations the
// ledger applies to such values are decidable: x == nil, len(x) compared with 0,
// bytes.Equal(x, y), boolean connectives, and calls of module functions that are
// themselves built from those. WalkBytes explores a function with the given values
// bound to classes, follows only the branch edges consistent with the binding
// (conditions it cannot decide keep both edges) and reports which blocks are
// reachable - the same scheme as OrderingReturns, over another finite domain.

type BytesClass int

const (
	BNil BytesClass = iota
	BEmpty
	BA
	BB
	bAny
)

var BytesClasses = []BytesClass{BNil, BEmpty, BA, BB}

func (c BytesClass) String() string {
	return [...]string{"nil (absent)", "empty", "content a", "content b", "any"}[c]
}

type tri int

const (
	triU tri = iota
	triT
	triF
)

func triOf(b bool) tri {
	if b {
		return triT
	}
	return triF
}

func (t tri) not() tri {
	switch t {
	case triT:
		return triF
	case triF:
		return triT
	}
	return triU
}

// BytesWalk is the result of one exploration.
type BytesWalk struct {
	Blocks  map[*ssa.BasicBlock]bool // reachable blocks
	Unknown bool                     // a condition that depends on the bound values could not be decided
	Returns []tri                    // for bool functions: values returned on the reachable returns
}

type bytesEnv struct {
	cls  map[ssa.Value]BytesClass
	bval map[ssa.Value]tri
}

func (e *bytesEnv) clone() *bytesEnv {
	n := &bytesEnv{cls: map[ssa.Value]BytesClass{}, bval: map[ssa.Value]tri{}}
	for k, v := range e.cls {
		n.cls[k] = v
	}
	for k, v := range e.bval {
		n.bval[k] = v
	}
	return n
}

func isByteSlice(t types.Type) bool {
	s, ok := t.Underlying().(*types.Slice)
	if !ok {
		return false
	}
	b, ok := s.Elem().Underlying().(*types.Basic)
	return ok && (b.Kind() == types.Byte || b.Kind() == types.Uint8)
}

func (e *bytesEnv) classOf(v ssa.Value) (BytesClass, bool) {
	if c, ok := e.cls[v]; ok {
		return c, c != bAny
	}
	s := Strip(v)
	if c, ok := e.cls[s]; ok {
		return c, c != bAny
	}
	if IsNilConst(s) {
		return BNil, true
	}
	if ta, ok := s.(*ssa.TypeAssert); ok {
		if c, ok := e.cls[Strip(ta.X)]; ok {
			return c, c != bAny
		}
	}
	return bAny, false
}

// dependsOnBound: v mentions one of the bound values.
func (e *bytesEnv) dependsOnBound(v ssa.Value) bool {
	return Mentions(v, func(x ssa.Value) bool {
		_, ok := e.cls[x]
		if ok {
			return true
		}
		_, ok = e.cls[Strip(x)]
		return ok
	})
}

func contentEqual(a, b BytesClass) bool {
	na := a == BNil || a == BEmpty
	nb := b == BNil || b == BEmpty
	if na || nb {
		return na && nb
	}
	return a == b
}

func (e *bytesEnv) evalBool(v ssa.Value, depth int) tri {
	if depth > 8 {
		return triU
	}
	if t, ok := e.bval[v]; ok {
		return t
	}
	switch x := v.(type) {
	case *ssa.Const:
		if x.Value != nil && x.Value.Kind() == constant.Bool {
			return triOf(constant.BoolVal(x.Value))
		}
		return triU
	case *ssa.UnOp:
		if x.Op == token.NOT {
			return e.evalBool(x.X, depth+1).not()
		}
		return triU
	case *ssa.BinOp:
		switch x.Op {
		case token.EQL, token.NEQ:
			r := e.evalEq(x.X, x.Y, depth)
			if x.Op == token.NEQ {
				r = r.not()
			}
			return r
		case token.GTR, token.LSS, token.GEQ, token.LEQ:
			return e.evalLenCmp(x)
		}
		return triU
	case *ssa.Call:
		return e.evalCall(x, depth)
	}
	return triU
}

func (e *bytesEnv) evalEq(l, r ssa.Value, depth int) tri {
	// slice == nil
	if IsNilConst(l) {
		l, r = r, l
	}
	if IsNilConst(r) && isByteSlice(l.Type()) {
		if c, ok := e.classOf(l); ok {
			return triOf(c == BNil)
		}
		return triU
	}
	// len(x) == 0
	if t := e.evalLenCmp(&ssa.BinOp{Op: token.EQL, X: l, Y: r}); t != triU {
		return t
	}
	// bool == bool
	if b, ok := l.Type().Underlying().(*types.Basic); ok && b.Kind() == types.Bool {
		a, c := e.evalBool(l, depth+1), e.evalBool(r, depth+1)
		if a == triU || c == triU {
			return triU
		}
		return triOf(a == c)
	}
	return triU
}

// evalLenCmp decides len(x) OP const for a bound x.
func (e *bytesEnv) evalLenCmp(x *ssa.BinOp) tri {
	l, r, op := x.X, x.Y, x.Op
	if _, ok := ConstInt(l); ok {
		l, r = r, l
		op = map[token.Token]token.Token{token.GTR: token.LSS, token.LSS: token.GTR, token.GEQ: token.LEQ, token.LEQ: token.GEQ, token.EQL: token.EQL, token.NEQ: token.NEQ}[op]
	}
	k, ok := ConstInt(r)
	if !ok {
		return triU
	}
	call, ok := l.(*ssa.Call)
	if !ok {
		return triU
	}
	b, ok := call.Call.Value.(*ssa.Builtin)
	if !ok || b.Name() != "len" || len(call.Call.Args) != 1 {
		return triU
	}
	c, ok := e.classOf(call.Call.Args[0])
	if !ok {
		return triU
	}
	zero := c == BNil || c == BEmpty
	// the length of a non-empty class is only known to be >= 1
	switch {
	case op == token.EQL && k == 0:
		return triOf(zero)
	case op == token.NEQ && k == 0, op == token.GTR && k == 0, op == token.GEQ && k == 1:
		return triOf(!zero)
	case op == token.LEQ && k == 0, op == token.LSS && k == 1:
		return triOf(zero)
	}
	return triU
}

func (e *bytesEnv) evalCall(call *ssa.Call, depth int) tri {
	name := CalleeName(call)
	args := call.Call.Args
	if name == "bytes.Equal" && len(args) == 2 {
		a, ok1 := e.classOf(args[0])
		b, ok2 := e.classOf(args[1])
		if !ok1 || !ok2 {
			return triU
		}
		return triOf(contentEqual(a, b))
	}
	fn := StaticCallee(call)
	if fn == nil || len(fn.Blocks) == 0 || fn.Signature.Results().Len() != 1 {
		return triU
	}
	if b, ok := fn.Signature.Results().At(0).Type().Underlying().(*types.Basic); !ok || b.Kind() != types.Bool {
		return triU
	}
	// bind the callee's byte-slice parameters to the classes of the arguments
	sub := &bytesEnv{cls: map[ssa.Value]BytesClass{}, bval: map[ssa.Value]tri{}}
	params := fn.Params
	if len(params) != len(args) {
		return triU
	}
	for i, p := range params {
		if isByteSlice(p.Type()) {
			c, ok := e.classOf(args[i])
			if !ok {
				c = bAny
			}
			sub.cls[p] = c
		}
	}
	w := walkBytes(fn, sub, depth+1)
	if w.Unknown || len(w.Returns) == 0 {
		return triU
	}
	r := w.Returns[0]
	for _, x := range w.Returns[1:] {
		if x != r {
			return triU
		}
	}
	return r
}

// WalkBytes explores fn with the given values bound to classes.
func WalkBytes(fn *ssa.Function, bind map[ssa.Value]BytesClass) *BytesWalk {
	e := &bytesEnv{cls: map[ssa.Value]BytesClass{}, bval: map[ssa.Value]tri{}}
	for k, v := range bind {
		e.cls[k] = v
		e.cls[Strip(k)] = v
	}
	return walkBytes(fn, e, 0)
}

func walkBytes(fn *ssa.Function, e *bytesEnv, depth int) *BytesWalk {
	w := &BytesWalk{Blocks: map[*ssa.BasicBlock]bool{}}
	if len(fn.Blocks) == 0 || depth > 4 {
		w.Unknown = true
		return w
	}
	type edge struct{ from, to *ssa.BasicBlock }
	var visit func(b, from *ssa.BasicBlock, env *bytesEnv, seen map[edge]int, steps *int)
	visit = func(b, from *ssa.BasicBlock, env *bytesEnv, seen map[edge]int, steps *int) {
		*steps++
		if *steps > 4000 {
			w.Unknown = true
			return
		}
		ed := edge{from, b}
		if seen[ed] >= 1 {
			return // loops: one traversal of every edge per path is enough for reachability
		}
		seen[ed]++
		defer func() { seen[ed]-- }()
		w.Blocks[b] = true
		// phis
		if from != nil {
			idx := -1
			for i, p := range b.Preds {
				if p == from {
					idx = i
				}
			}
			var phis []*ssa.Phi
			for _, in := range b.Instrs {
				if p, ok := in.(*ssa.Phi); ok {
					phis = append(phis, p)
				} else {
					break
				}
			}
			if len(phis) > 0 && idx >= 0 {
				env = env.clone()
				// all phis of a block read their operands simultaneously
				type upd struct {
					p *ssa.Phi
					c BytesClass
					t tri
				}
				var us []upd
				for _, p := range phis {
					in := p.Edges[idx]
					u := upd{p: p, c: bAny, t: triU}
					if isByteSlice(p.Type()) {
						if c, ok := env.classOf(in); ok {
							u.c = c
						}
					} else if bt, ok := p.Type().Underlying().(*types.Basic); ok && bt.Kind() == types.Bool {
						u.t = env.evalBool(in, depth+1)
					}
					us = append(us, u)
				}
				for _, u := range us {
					if isByteSlice(u.p.Type()) {
						// a phi that is itself bound keeps its binding
						if _, bound := env.cls[u.p]; !bound {
							env.cls[u.p] = u.c
						}
					} else if u.t != triU {
						env.bval[u.p] = u.t
					} else {
						delete(env.bval, u.p)
					}
				}
			}
		}
		if len(b.Instrs) == 0 {
			return
		}
		switch t := b.Instrs[len(b.Instrs)-1].(type) {
		case *ssa.If:
			r := env.evalBool(t.Cond, depth+1)
			if r == triU && env.dependsOnBound(t.Cond) {
				w.Unknown = true
			}
			if r != triF {
				visit(b.Succs[0], b, env, seen, steps)
			}
			if r != triT {
				visit(b.Succs[1], b, env, seen, steps)
			}
		case *ssa.Return:
			if len(t.Results) == 1 {
				if bt, ok := t.Results[0].Type().Underlying().(*types.Basic); ok && bt.Kind() == types.Bool {
					w.Returns = append(w.Returns, env.evalBool(t.Results[0], depth+1))
				}
			}
		default:
			for _, s := range b.Succs {
				visit(s, b, env, seen, steps)
			}
		}
	}
	steps := 0
	visit(fn.Blocks[0], nil, e, map[edge]int{}, &steps)
	return w
}
