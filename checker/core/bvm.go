package core

import (
	"fmt"
	"go/ast"
	"go/types"
	"sort"
	"strings"

	"golang.org/x/tools/go/ssa"
)

// ---------------------------------------------------------------- BVM model (E2)

const (
	StubIface   = "github.com/meshplus/bitxhub-core/boltvm.Stub"
	RespType    = "*github.com/meshplus/bitxhub-core/boltvm.Response"
	ContractPkg = "internal/executor/contracts"
)

// Contract is one registered built-in contract.
type Contract struct {
	AddrConst string       // constant name in bitxhub-model/constant, e.g. "InterchainContractAddr"
	Type      *types.Named // Go type T (registered as *T)
	Name      string       // T's name
	Pos       string
	Entries   []*Entry
	byName    map[string]*Entry
}

// Entry is one member of the reflective dispatch surface of a contract.
type Entry struct {
	Contract  *Contract
	Name      string
	Obj       *types.Func
	Fn        *ssa.Function // declared body (nil for interface-promoted methods)
	Own       bool          // declared on T itself
	Promoted  string        // embedded path when promoted, e.g. "Stub" / "ServiceManager"
	ViaIface  bool          // promoted from an embedded interface field
	Invocable bool          // every parameter producible by parseArgs
	WellTyped bool          // exactly one result of type *boltvm.Response
	Sig       *types.Signature
}

func (e *Entry) Key() string { return e.Contract.Name + "." + e.Name }

// Edge is one CrossInvoke call site.
type Edge struct {
	Site      *ssa.Call
	From      *ssa.Function
	AddrConst string // "" when the target is not a constant
	Method    string // "" when not constant
	Targets   []*Entry
}

// BVM is the dispatch model.
type BVM struct {
	P         *Prog
	Contracts []*Contract
	ByType    map[string]*Contract
	ByAddr    map[string]*Contract
	Edges     []*Edge
	Problems  []string // structural assumptions of the model that did not hold
	// dispatcher facts
	DispatcherFilter bool // a name/type filter dominates reflect Call in InvokeBVM
	FilterStubNames  bool // methods of the boltvm.Stub interface are rejected by name before Call
	FilterResultType bool // methods whose result is not exactly *boltvm.Response are rejected before Call
	stubMethods      map[string]bool
}

var parseArgsKinds = map[string]bool{"float64": true, "int32": true, "int64": true, "uint64": true, "string": true, "[]byte": true, "[]uint8": true, "bool": true}

// BuildBVM extracts registry, surface and cross-invoke graph.
func BuildBVM(p *Prog) (*BVM, error) {
	m := &BVM{P: p, ByType: map[string]*Contract{}, ByAddr: map[string]*Contract{}}
	reg := p.Fn("internal/executor.(*BlockExecutor).registerBoltContracts")
	if reg == nil {
		return nil, fmt.Errorf("anchor registerBoltContracts not found")
	}
	fd, pk := p.DeclOf(reg)
	if fd == nil {
		return nil, fmt.Errorf("no syntax for registerBoltContracts")
	}
	info := pk.TypesInfo
	ast.Inspect(fd.Body, func(n ast.Node) bool {
		cl, ok := n.(*ast.CompositeLit)
		if !ok {
			return true
		}
		var addrE, conE ast.Expr
		for _, el := range cl.Elts {
			kv, ok := el.(*ast.KeyValueExpr)
			if !ok {
				continue
			}
			if id, ok := kv.Key.(*ast.Ident); ok {
				switch id.Name {
				case "Address":
					addrE = kv.Value
				case "Contract":
					conE = kv.Value
				}
			}
		}
		if addrE == nil || conE == nil {
			return true
		}
		c := &Contract{Pos: p.Pos(cl.Pos()), byName: map[string]*Entry{}}
		c.AddrConst = addrConstOf(info, addrE)
		t := info.TypeOf(conE)
		if pt, ok := t.(*types.Pointer); ok {
			if nt, ok := pt.Elem().(*types.Named); ok {
				c.Type = nt
				c.Name = nt.Obj().Name()
			}
		}
		if c.Type == nil {
			// dynamic registration (agency.GetRegisteredContractInfo loop): constructor()
			if c.AddrConst == "" {
				return false
			}
			m.Problems = append(m.Problems, fmt.Sprintf("registry entry at %s: contract expression has no static *T type", c.Pos))
			return false
		}
		if c.AddrConst == "" {
			m.Problems = append(m.Problems, fmt.Sprintf("registry entry %s at %s: address is not constant.X.Address().String()", c.Name, c.Pos))
		}
		m.Contracts = append(m.Contracts, c)
		m.ByType[c.Name] = c
		m.ByAddr[c.AddrConst] = c
		return false
	})
	for _, c := range m.Contracts {
		m.buildSurface(c)
	}
	m.checkDispatcher()
	m.buildEdges()
	return m, nil
}

// addrConstOf recognises constant.X.Address().String(), constant.X.String(),
// string(constant.X) and returns "X".
func addrConstOf(info *types.Info, e ast.Expr) string {
	for i := 0; i < 6; i++ {
		switch x := e.(type) {
		case *ast.ParenExpr:
			e = x.X
		case *ast.CallExpr:
			if sel, ok := x.Fun.(*ast.SelectorExpr); ok && len(x.Args) == 0 && (sel.Sel.Name == "String" || sel.Sel.Name == "Address") {
				e = sel.X
				continue
			}
			// conversion string(constant.X)
			if len(x.Args) == 1 {
				if tv, ok := info.Types[x.Fun]; ok && tv.IsType() {
					e = x.Args[0]
					continue
				}
			}
			return ""
		case *ast.SelectorExpr:
			if obj, ok := info.Uses[x.Sel].(*types.Const); ok && obj.Pkg() != nil && strings.HasSuffix(obj.Pkg().Path(), "bitxhub-model/constant") {
				return obj.Name()
			}
			return ""
		case *ast.Ident:
			if obj, ok := info.Uses[x].(*types.Const); ok && obj.Pkg() != nil && strings.HasSuffix(obj.Pkg().Path(), "bitxhub-model/constant") {
				return obj.Name()
			}
			return ""
		default:
			return ""
		}
	}
	return ""
}

func (m *BVM) buildSurface(c *Contract) {
	ptr := types.NewPointer(c.Type)
	ms := m.P.SSA.MethodSets.MethodSet(ptr)
	for i := 0; i < ms.Len(); i++ {
		sel := ms.At(i)
		obj := sel.Obj().(*types.Func)
		if !obj.Exported() {
			continue
		}
		e := &Entry{Contract: c, Name: obj.Name(), Obj: obj, Sig: sel.Type().(*types.Signature)}
		idx := sel.Index()
		e.Own = len(idx) == 1
		if !e.Own {
			// walk the embedding path
			var path []string
			t := types.Type(c.Type)
			for _, k := range idx[:len(idx)-1] {
				if pt, ok := t.Underlying().(*types.Pointer); ok {
					t = pt.Elem()
				}
				st := t.Underlying().(*types.Struct)
				f := st.Field(k)
				path = append(path, f.Name())
				t = f.Type()
			}
			e.Promoted = strings.Join(path, ".")
			if _, ok := t.Underlying().(*types.Interface); ok {
				e.ViaIface = true
			}
		}
		if !e.ViaIface {
			// the declared function body
			recv := obj.Type().(*types.Signature).Recv()
			if recv != nil {
				e.Fn = m.P.SSA.FuncValue(obj)
			}
		}
		sig := obj.Type().(*types.Signature)
		e.Invocable = true
		ps := sig.Params()
		for k := 0; k < ps.Len(); k++ {
			pt := ps.At(k).Type()
			if sig.Variadic() && k == ps.Len()-1 {
				continue // may be called with an empty tail
			}
			if it, ok := pt.Underlying().(*types.Interface); ok && it.Empty() {
				continue
			}
			if !parseArgsKinds[pt.String()] {
				e.Invocable = false
			}
		}
		rs := sig.Results()
		e.WellTyped = rs.Len() == 1 && rs.At(0).Type().String() == RespType
		c.Entries = append(c.Entries, e)
		c.byName[e.Name] = e
	}
	sort.Slice(c.Entries, func(i, j int) bool { return c.Entries[i].Name < c.Entries[j].Name })
}

// FilterExcludes reports whether the dispatcher rejects entry e before its
// body can run.
func (m *BVM) FilterExcludes(e *Entry) bool {
	if m.FilterStubNames && m.stubMethods[e.Name] && e.ViaIface {
		return true
	}
	if m.FilterResultType && !e.WellTyped {
		return true
	}
	return false
}

// Entry lookup.
func (c *Contract) Entry(name string) *Entry { return c.byName[name] }

// checkDispatcher re-checks the structural premises of the model on
// BoltVM.InvokeBVM and BoltStubImpl.CrossInvoke.
func (m *BVM) checkDispatcher() {
	inv := m.P.Fn("pkg/vm/boltvm.(*BoltVM).InvokeBVM")
	if inv == nil {
		m.Problems = append(m.Problems, "anchor BoltVM.InvokeBVM not found")
		return
	}
	var mbn, call ssa.Instruction
	for _, c := range Calls(inv) {
		switch CalleeName(c) {
		case "(reflect.Value).MethodByName":
			mbn = c
		case "(reflect.Value).Call":
			call = c
		}
	}
	// the method lookup (and the filters on it) may live in a helper that returns (reflect.Value, error):
	// then the filters are judged inside the helper against its success returns, and the reflective
	// Call of InvokeBVM must lie behind the no-error edge of the helper call
	scanFn := inv
	var sinks []ssa.Instruction
	if mbn == nil && call != nil {
		for _, c := range Calls(inv) {
			hc, ok := c.(*ssa.Call)
			g := StaticCallee(c)
			if !ok || g == nil || len(g.Blocks) == 0 || !m.P.InModule(g) {
				continue
			}
			var hmbn ssa.Instruction
			for _, gc := range Calls(g) {
				if CalleeName(gc) == "(reflect.Value).MethodByName" {
					hmbn = gc
				}
			}
			if hmbn == nil {
				continue
			}
			res := g.Signature.Results()
			if res.Len() != 2 || res.At(1).Type().String() != "error" {
				continue
			}
			// Call only behind the helper's no-error edge
			se := SuccessEdges(inv, []GuardSite{{Call: hc, Conv: ConvErrNil, Idx: 1}})
			if len(se) == 0 {
				continue
			}
			rs := Reach([]Point{EntryOf(inv)}, nil, CutOf(se))
			if rs.Has(call) {
				continue
			}
			mbn, scanFn = hmbn, g
			for _, ret := range Returns(g) {
				if MayBeSuccess(g, ret, 1, ConvErrNil) {
					sinks = append(sinks, ret)
				}
			}
		}
	} else if call != nil {
		sinks = []ssa.Instruction{call}
	}
	if mbn == nil || call == nil || len(sinks) == 0 {
		m.Problems = append(m.Problems, "InvokeBVM no longer dispatches through reflect MethodByName + Call: the dispatch model must be revisited")
		return
	}
	reachesSink := func(rs *ReachSet) bool {
		for _, s := range sinks {
			if rs.Has(s) {
				return true
			}
		}
		return false
	}
	// Filters between MethodByName and Call: an If one of whose branches cannot
	// reach Call, and whose condition is computed from (a) a lookup of the
	// method name in the method set of the boltvm.Stub interface type, or (b)
	// the result types (NumOut/Out) of the method value compared with
	// *boltvm.Response.
	_ = mbn
	typeIs := func(want string) func(ssa.Value) bool {
		return func(v ssa.Value) bool { return v.Type() != nil && v.Type().String() == want }
	}
	callNamed := func(names ...string) func(ssa.Value) bool {
		return func(v ssa.Value) bool {
			c, ok := v.(*ssa.Call)
			if !ok {
				return false
			}
			n := CalleeName(c)
			for _, x := range names {
				if n == x {
					return true
				}
			}
			return false
		}
	}
	isSink := func(in ssa.Instruction) bool {
		for _, s := range sinks {
			if s == in {
				return true
			}
		}
		return false
	}
	for _, b := range scanFn.Blocks {
		ifi := IfOf(b)
		if ifi == nil {
			continue
		}
		// rejecting branch: some successor cannot reach the dispatch (the Call, or the helper's success return)
		rejects := false
		for si := range b.Succs {
			rs := Reach([]Point{{b.Succs[si], 0}}, nil, nil)
			if !reachesSink(rs) {
				rejects = true
			}
		}
		before := Reach([]Point{EntryOf(scanFn)}, isSink, nil)
		if !rejects || !before.Has(ifi) {
			continue
		}
		// must dominate the dispatch
		dom := Reach([]Point{EntryOf(scanFn)}, func(in ssa.Instruction) bool { return in == ssa.Instruction(ifi) }, nil)
		if reachesSink(dom) {
			continue
		}
		// markers may sit in the condition itself or in the body of a module
		// helper called by the condition (one level)
		has := func(pred func(ssa.Value) bool) bool {
			if Mentions(ifi.Cond, pred) {
				return true
			}
			found := false
			seenFn := map[*ssa.Function]bool{}
			var inBody func(g *ssa.Function, d int)
			inBody = func(g *ssa.Function, d int) {
				if g == nil || seenFn[g] || !m.P.InModule(g) || d > 3 {
					return
				}
				seenFn[g] = true
				for _, gb := range g.Blocks {
					for _, in := range gb.Instrs {
						if val, ok := in.(ssa.Value); ok && Mentions(val, pred) {
							found = true
						}
						// predicate helpers calling further predicate helpers (isEntryPoint -> isStubMethod)
						if cc, ok := in.(ssa.CallInstruction); ok {
							inBody(cc.Common().StaticCallee(), d+1)
						}
					}
				}
			}
			Mentions(ifi.Cond, func(v ssa.Value) bool {
				c, ok := v.(*ssa.Call)
				if !ok {
					return false
				}
				inBody(c.Call.StaticCallee(), 1)
				return false
			})
			return found
		}
		if has(callNamed("(reflect.Type).MethodByName")) && has(typeIs("*"+StubIface)) {
			m.FilterStubNames = true
		}
		if has(callNamed("(reflect.Type).NumOut", "(reflect.Type).Out")) && has(typeIs(RespType)) {
			m.FilterResultType = true
		}
	}
	m.DispatcherFilter = m.FilterStubNames || m.FilterResultType
	if pk := m.P.All["github.com/meshplus/bitxhub-core/boltvm"]; pk != nil {
		if tn, ok := pk.Types.Scope().Lookup("Stub").(*types.TypeName); ok {
			if it, ok := tn.Type().Underlying().(*types.Interface); ok {
				m.stubMethods = map[string]bool{}
				for i := 0; i < it.NumMethods(); i++ {
					m.stubMethods[it.Method(i).Name()] = true
				}
			}
		}
	}
	// CrossInvoke context: CurrentCaller := caller's Callee, Caller unchanged
	ci := m.P.Fn("pkg/vm/boltvm.(*BoltStubImpl).CrossInvoke")
	if ci == nil {
		m.Problems = append(m.Problems, "anchor BoltStubImpl.CrossInvoke not found")
		return
	}
	okCur, okCaller := false, false
	for _, b := range ci.Blocks {
		for _, in := range b.Instrs {
			st, ok := in.(*ssa.Store)
			if !ok {
				continue
			}
			owner, field, _, ok := FieldOf(st.Addr)
			if !ok || owner != "pkg/vm.Context" {
				continue
			}
			_, srcField, _, ok2 := FieldOf(st.Val)
			if !ok2 {
				continue
			}
			if field == "CurrentCaller" && srcField == "Callee" {
				okCur = true
			}
			if field == "Caller" && srcField == "Caller" {
				okCaller = true
			}
		}
	}
	if !okCur || !okCaller {
		m.Problems = append(m.Problems, "BoltStubImpl.CrossInvoke no longer builds the nested context with CurrentCaller=ctx.Callee and Caller=ctx.Caller: caller-context model invalid")
	}
}

func condMentionsMethodNameFilter(cond ssa.Value) bool {
	// e.g. if !allowed[method] / if isInternal(method): a Lookup or call whose
	// operand derives from the InvokePayload.Method field
	fromMethod := func(v ssa.Value) bool {
		return Mentions(v, func(x ssa.Value) bool {
			o, f, _, ok := FieldOf(x)
			return ok && f == "Method" && strings.HasSuffix(o, "pb.InvokePayload")
		})
	}
	return Mentions(cond, func(v ssa.Value) bool {
		switch x := v.(type) {
		case *ssa.Lookup:
			return fromMethod(x.Index)
		case *ssa.Call:
			n := CalleeName(x)
			if strings.HasPrefix(n, "(reflect.Value)") || n == "fmt.Errorf" {
				return false
			}
			for _, a := range x.Common().Args {
				if fromMethod(a) {
					return true
				}
			}
		}
		return false
	})
}

// IsCrossInvoke reports whether c calls Stub.CrossInvoke (interface or impl).
func IsCrossInvoke(c ssa.CallInstruction) bool {
	o := CalleeObj(c)
	if o == nil || o.Name() != "CrossInvoke" {
		return false
	}
	n := o.FullName()
	return n == "("+StubIface+").CrossInvoke" || strings.HasSuffix(n, "BoltStubImpl).CrossInvoke")
}

// AddrConstOfValue recognises the three address idioms on SSA values.
func AddrConstOfValue(v ssa.Value) string {
	for i := 0; i < 8; i++ {
		switch x := v.(type) {
		case *ssa.Call:
			o := CalleeObj(x)
			if o == nil || (o.Name() != "String" && o.Name() != "Address") {
				return ""
			}
			if len(x.Common().Args) == 0 {
				return ""
			}
			v = x.Common().Args[0]
		case *ssa.Convert:
			v = x.X
		case *ssa.ChangeType:
			v = x.X
		case *ssa.MakeInterface:
			v = x.X
		case *ssa.Const:
			// typed constant of constant.BoltContractAddress: match by value later
			if x.Value != nil {
				if n, ok := x.Type().(*types.Named); ok && n.Obj().Pkg() != nil && strings.HasSuffix(n.Obj().Pkg().Path(), "bitxhub-model/constant") {
					return "val:" + x.Value.ExactString()
				}
			}
			return ""
		default:
			return ""
		}
	}
	return ""
}

func (m *BVM) buildEdges() {
	// map constant value -> constant name
	valToName := map[string]string{}
	if pk := m.P.All["github.com/meshplus/bitxhub-model/constant"]; pk != nil {
		sc := pk.Types.Scope()
		for _, n := range sc.Names() {
			if c, ok := sc.Lookup(n).(*types.Const); ok {
				valToName["val:"+c.Val().ExactString()] = n
			}
		}
	} else {
		m.Problems = append(m.Problems, "package bitxhub-model/constant not loaded")
	}
	var wrappers []wrapperInfo
	for _, fn := range m.P.ModuleFuncs(true) {
		for _, c := range Calls(fn) {
			if !IsCrossInvoke(c) {
				continue
			}
			call, ok := c.(*ssa.Call)
			if !ok {
				continue
			}
			e := &Edge{Site: call, From: fn}
			if a := AddrConstOfValue(Arg(c, 0)); a != "" {
				e.AddrConst = valToName[a]
			}
			if s, ok := ConstString(Arg(c, 1)); ok {
				e.Method = s
			}
			if e.Method != "" {
				if e.AddrConst != "" {
					if t := m.ByAddr[e.AddrConst]; t != nil {
						if en := t.Entry(e.Method); en != nil {
							e.Targets = append(e.Targets, en)
						}
					}
				} else {
					for _, t := range m.Contracts {
						if en := t.Entry(e.Method); en != nil {
							e.Targets = append(e.Targets, en)
						}
					}
				}
			}
			m.Edges = append(m.Edges, e)
			// a wrapper that forwards its parameters to CrossInvoke (invokeChainService(method, id)): every call of
			// the wrapper is a cross-invoke edge with the constants given there
			mi, ai := paramIndex(fn, Arg(c, 1)), paramIndex(fn, Arg(c, 0))
			if e.Method == "" && mi >= 0 {
				wrappers = append(wrappers, wrapperInfo{fn: fn, methodIdx: mi, addrIdx: ai, addrConst: e.AddrConst})
			}
		}
	}
	for _, w := range wrappers {
		for _, fn := range m.P.ModuleFuncs(true) {
			for _, c := range Calls(fn) {
				call, ok := c.(*ssa.Call)
				if !ok || StaticCallee(c) != w.fn || w.methodIdx >= len(call.Call.Args) {
					continue
				}
				e := &Edge{Site: call, From: fn, AddrConst: w.addrConst}
				if s, ok := ConstString(call.Call.Args[w.methodIdx]); ok {
					e.Method = s
				}
				if w.addrIdx >= 0 && w.addrIdx < len(call.Call.Args) {
					if a := AddrConstOfValue(call.Call.Args[w.addrIdx]); a != "" {
						e.AddrConst = valToName[a]
					}
				}
				if e.Method != "" {
					if e.AddrConst != "" {
						if t := m.ByAddr[e.AddrConst]; t != nil {
							if en := t.Entry(e.Method); en != nil {
								e.Targets = append(e.Targets, en)
							}
						}
					} else {
						for _, t := range m.Contracts {
							if en := t.Entry(e.Method); en != nil {
								e.Targets = append(e.Targets, en)
							}
						}
					}
				}
				m.Edges = append(m.Edges, e)
			}
		}
	}
	sort.Slice(m.Edges, func(i, j int) bool { return m.Edges[i].Site.Pos() < m.Edges[j].Site.Pos() })
}

type wrapperInfo struct {
	fn                 *ssa.Function
	methodIdx, addrIdx int
	addrConst          string
}

// paramIndex: v is (a conversion of) a parameter of fn; returns its index in fn.Params, else -1.
func paramIndex(fn *ssa.Function, v ssa.Value) int {
	v = Strip(v)
	for i := 0; i < 3; i++ {
		if cv, ok := v.(*ssa.Convert); ok {
			v = Strip(cv.X)
		}
	}
	for i, p := range fn.Params {
		if ssa.Value(p) == v {
			return i
		}
	}
	return -1
}

// ContractOfFn returns the registered contract whose method (own or via an
// embedded in-repo struct) fn is, or nil.
func (m *BVM) ContractOfFn(fn *ssa.Function) *Contract {
	for fn.Parent() != nil {
		fn = fn.Parent()
	}
	contractOfType := func(t types.Type) *Contract {
		if pt, ok := t.(*types.Pointer); ok {
			t = pt.Elem()
		}
		if nt, ok := t.(*types.Named); ok && nt.Obj().Pkg() != nil && InModulePath(nt.Obj().Pkg().Path()) {
			return m.ByType[nt.Obj().Name()]
		}
		return nil
	}
	if fn.Signature.Recv() != nil {
		rt := fn.Signature.Recv().Type()
		if ct := contractOfType(rt); ct != nil {
			return ct
		}
		// a method of a context struct (parameter object of an extracted helper) that carries exactly one contract
		if pt, ok := rt.(*types.Pointer); ok {
			rt = pt.Elem()
		}
		if nt, ok := rt.(*types.Named); ok && nt.Obj().Pkg() != nil && InModulePath(nt.Obj().Pkg().Path()) && !nt.Obj().Exported() {
			if st, ok := nt.Underlying().(*types.Struct); ok {
				var found *Contract
				n := 0
				for i := 0; i < st.NumFields(); i++ {
					if ct := contractOfType(st.Field(i).Type()); ct != nil {
						found = ct
						n++
					}
				}
				if n == 1 {
					return found
				}
			}
		}
		return nil
	}
	return nil
}

// EdgesIn returns the cross-invoke edges targeting entry e.
func (m *BVM) EdgesIn(e *Entry) []*Edge {
	var out []*Edge
	for _, ed := range m.Edges {
		for _, t := range ed.Targets {
			if t == e {
				out = append(out, ed)
			}
		}
	}
	return out
}

// EntryOfFn: the dispatchable entry whose function is fn, or nil.
func (m *BVM) EntryOfFn(fn *ssa.Function) *Entry {
	for _, ct := range m.Contracts {
		for _, e := range ct.Entries {
			if e.Fn == fn && e.Fn != nil {
				return e
			}
		}
	}
	return nil
}
