package core

import (
	"bufio"
	"encoding/json"
	"fmt"
	"os"
	"path/filepath"
	"sort"
	"strings"
	"time"
)

type Status int

const (
	Discharged Status = iota
	Violated
	Undecided
	Info
)

func (s Status) String() string {
	return [...]string{"discharged", "violated", "undecided", "info"}[s]
}

// Obl is one obligation: (rule, construct key) with its verdict.
type Obl struct {
	Rule       string `json:"rule"`
	Key        string `json:"construct"`
	Pos        string `json:"pos,omitempty"`
	Status     string `json:"status"`
	Msg        string `json:"detail,omitempty"`
	Nontrivial bool   `json:"nontrivial,omitempty"`
	st         Status
}

// Report collects the obligations of one property run.
type Report struct {
	Prop        string
	Tier        string
	Seed        int
	VerifDir    string
	Obls        []*Obl
	RuleText    map[string]string
	ruleOrder   []string
	Counters    map[string]int
	Assumptions []string
	NotDecided  []string
	Verbose     bool
	start       time.Time
	seen        map[string]bool
	// Alias, when set, runs a borrowed rule set: obligations, rule texts and floors of the rules it maps are recorded
	// under the mapped id, everything else the borrowed rule set emits is dropped (see Borrow).
	alias map[string]string
}

// Borrow runs f - the rule set of another property - and keeps only the rules named in alias, recorded under this
// property's own rule ids (alias: foreign id -> own id). A clause that is a necessary condition of two properties is
// decided by one piece of analysis and reported by both checks.
func (r *Report) Borrow(alias map[string]string, f func()) {
	saveND := r.NotDecided
	saveAs := r.Assumptions
	outer := r.alias
	if outer != nil {
		// a borrowed rule set that borrows itself: keep what the outer borrower asked for
		composed := map[string]string{}
		for k, v := range alias {
			if w, ok := outer[v]; ok {
				composed[k] = w
			}
		}
		alias = composed
	}
	r.alias = alias
	defer func() { r.alias = outer; r.NotDecided = saveND; r.Assumptions = saveAs }()
	f()
}

// mapRule: the id a rule is recorded under; ok=false when it is dropped.
func (r *Report) mapRule(id string) (string, bool) {
	if r.alias == nil {
		return id, true
	}
	m, ok := r.alias[id]
	return m, ok
}

func NewReport(prop, tier, verifDir string, seed int) *Report {
	return &Report{Prop: prop, Tier: tier, Seed: seed, VerifDir: verifDir, RuleText: map[string]string{},
		Counters: map[string]int{}, start: time.Now(), seen: map[string]bool{}}
}

// Rule registers the text of a rule (goes into evidence.explanation).
func (r *Report) Rule(id, text string) {
	foreign := id
	id, keep := r.mapRule(id)
	if !keep {
		return
	}
	if foreign != id {
		text = "(shared with " + foreign + ") " + text
	}
	if _, ok := r.RuleText[id]; !ok {
		r.ruleOrder = append(r.ruleOrder, id)
	}
	r.RuleText[id] = text
}

func (r *Report) add(rule, key, pos string, st Status, nontrivial bool, msg string) *Obl {
	rule, keep := r.mapRule(rule)
	if !keep {
		return &Obl{}
	}
	k := rule + "\x00" + key
	if r.seen[k] {
		// keep keys unique: a second obligation on the same construct gets a suffix
		for i := 2; ; i++ {
			k2 := fmt.Sprintf("%s#%d", key, i)
			if !r.seen[rule+"\x00"+k2] {
				key = k2
				k = rule + "\x00" + k2
				break
			}
		}
	}
	r.seen[k] = true
	o := &Obl{Rule: rule, Key: key, Pos: pos, Status: st.String(), st: st, Msg: msg, Nontrivial: nontrivial}
	r.Obls = append(r.Obls, o)
	return o
}

// OK records a discharged obligation; witness says why (guard edge, table row ...).
func (r *Report) OK(rule, key, pos, witness string) { r.add(rule, key, pos, Discharged, true, witness) }

// OKTrivial records an obligation discharged by a plain lookup.
func (r *Report) OKTrivial(rule, key, pos, witness string) {
	r.add(rule, key, pos, Discharged, false, witness)
}

// Bad records a violated obligation.
func (r *Report) Bad(rule, key, pos, what string) { r.add(rule, key, pos, Violated, true, what) }

// Unknown records an undecided obligation (fails the check).
func (r *Report) Unknown(rule, key, pos, why string) { r.add(rule, key, pos, Undecided, true, why) }

// Note records information that is neither obligation nor verdict.
func (r *Report) Note(rule, key, pos, what string) { r.add(rule, key, pos, Info, false, what) }

// Check is a convenience: ok -> OK else Bad.
func (r *Report) Check(ok bool, rule, key, pos, witness, what string) {
	if ok {
		r.OK(rule, key, pos, witness)
	} else {
		r.Bad(rule, key, pos, what)
	}
}

// Floor fails the run when a rule saw fewer instances than confirmed by hand.
func (r *Report) Floor(rule, what string, got, min int) {
	if m, keep := r.mapRule(rule); !keep {
		return
	} else if m != rule {
		// recorded under the own id; add passes the already mapped id through the alias table only once
		r.Counters[m+" "+what] = got
		if got < min {
			save := r.alias
			r.alias = nil
			r.Unknown(m, "floor:"+what, "", fmt.Sprintf("rule instance count %d below the confirmed floor %d (%s): the rule may be passing vacuously or an anchor moved", got, min, what))
			r.alias = save
		}
		return
	}
	r.Counters[rule+" "+what] = got
	if got < min {
		r.Unknown(rule, "floor:"+what, "", fmt.Sprintf("rule instance count %d below the confirmed floor %d (%s): the rule may be passing vacuously or an anchor moved", got, min, what))
	}
}

// Anchor reports an unresolved anchor (fails the check).
func (r *Report) Anchor(rule, spec string) {
	r.Unknown(rule, "anchor:"+spec, "", "unresolved anchor: "+spec+" not found in the loaded program; the rule table must be updated deliberately")
}

func (r *Report) Count(name string, n int) {
	if r.alias != nil {
		return
	}
	r.Counters[name] += n
}

type knownFinding struct {
	prop, rule, key, text string
}

func loadKnown(path string) ([]knownFinding, error) {
	f, err := os.Open(path)
	if err != nil {
		if os.IsNotExist(err) {
			return nil, nil
		}
		return nil, err
	}
	defer f.Close()
	var out []knownFinding
	sc := bufio.NewScanner(f)
	sc.Buffer(make([]byte, 1<<20), 1<<20)
	for sc.Scan() {
		line := strings.TrimSpace(sc.Text())
		if !strings.HasPrefix(line, "finding:") {
			continue // comments, blank lines and "fixed:" lines suppress nothing
		}
		rest := strings.TrimSpace(strings.TrimPrefix(line, "finding:"))
		head, text := rest, ""
		if i := strings.Index(rest, " :: "); i >= 0 {
			head, text = rest[:i], rest[i+4:]
		}
		kf := knownFinding{text: text}
		// head: property=<id> rule=<rule> construct=<key (may contain spaces)>
		if i := strings.Index(head, " construct="); i >= 0 {
			kf.key = strings.TrimSpace(head[i+len(" construct="):])
			head = head[:i]
		}
		for _, f := range strings.Fields(head) {
			if strings.HasPrefix(f, "property=") {
				kf.prop = strings.TrimPrefix(f, "property=")
			} else if strings.HasPrefix(f, "rule=") {
				kf.rule = strings.TrimPrefix(f, "rule=")
			}
		}
		if kf.prop == "" || kf.rule == "" || kf.key == "" {
			return nil, fmt.Errorf("malformed known-finding line: %q", line)
		}
		out = append(out, kf)
	}
	return out, sc.Err()
}

// Finish prints the verdict lines, writes evidence and the replay file and
// returns the process exit code.
func (r *Report) Finish() int {
	known, kerr := loadKnown(filepath.Join(r.VerifDir, "KNOWN_FINDINGS.txt"))
	if kerr != nil {
		r.Unknown("KF", "known-findings-file", "", kerr.Error())
	}
	isKnown := func(o *Obl) *knownFinding {
		for i := range known {
			k := &known[i]
			if k.prop == r.Prop && k.rule == o.Rule && k.key == o.Key {
				return k
			}
		}
		return nil
	}
	sort.SliceStable(r.Obls, func(i, j int) bool {
		if r.Obls[i].Rule != r.Obls[j].Rule {
			return r.Obls[i].Rule < r.Obls[j].Rule
		}
		return r.Obls[i].Key < r.Obls[j].Key
	})
	if r.Verbose {
		for _, o := range r.Obls {
			fmt.Printf("  %-11s %s [%s] %s :: %s\n", o.Status, o.Rule, o.Key, o.Pos, o.Msg)
		}
	}
	var nObl, nDis, nKnown, nViol, nUndec, nNontriv int
	var bad []*Obl
	perRule := map[string]map[string]int{}
	bump := func(rule, k string) {
		if perRule[rule] == nil {
			perRule[rule] = map[string]int{}
		}
		perRule[rule][k]++
	}
	distinct := map[string]bool{}
	for _, o := range r.Obls {
		if o.st == Info {
			bump(o.Rule, "info")
			continue
		}
		nObl++
		bump(o.Rule, "obligations")
		if o.Nontrivial && !distinct[o.Rule+"|"+o.Key] {
			distinct[o.Rule+"|"+o.Key] = true
			nNontriv++
		}
		switch o.st {
		case Discharged:
			nDis++
			bump(o.Rule, "discharged")
		case Violated:
			if k := isKnown(o); k != nil {
				nKnown++
				bump(o.Rule, "known_findings")
				o.Status = "known-finding"
				what := k.text
				if what == "" {
					what = o.Msg
				}
				fmt.Printf("KNOWN-FINDING: property=%s rule=%s construct=%s at %s :: %s\n", r.Prop, o.Rule, o.Key, o.Pos, what)
			} else {
				nViol++
				bump(o.Rule, "violated")
				bad = append(bad, o)
			}
		case Undecided:
			nUndec++
			bump(o.Rule, "undecided")
			bad = append(bad, o)
		}
	}
	evDir := filepath.Join(r.VerifDir, "evidence")
	os.MkdirAll(evDir, 0o755)
	replay := filepath.Join(evDir, r.Prop+".violations.json")
	os.Remove(replay)
	if len(bad) > 0 {
		for _, o := range bad {
			fmt.Printf("%s: %s %s [%s] %s :: %s\n", strings.ToUpper(o.Status), r.Prop, o.Rule, o.Key, o.Pos, o.Msg)
		}
		data, _ := json.MarshalIndent(map[string]interface{}{"property": r.Prop, "violations": bad}, "", " ")
		os.WriteFile(replay, data, 0o644)
	}
	// samples: first discharged non-trivial obligation of each rule + every non-discharged one (capped)
	var samples []interface{}
	seenRule := map[string]int{}
	for _, o := range r.Obls {
		if o.st == Discharged && o.Nontrivial && seenRule[o.Rule] < 2 {
			seenRule[o.Rule]++
			samples = append(samples, o)
		}
	}
	extra := 0
	for _, o := range r.Obls {
		if o.st != Discharged && o.st != Info && extra < 40 {
			extra++
			samples = append(samples, o)
		}
	}
	if len(samples) == 0 {
		for _, o := range r.Obls {
			samples = append(samples, o)
			if len(samples) >= 3 {
				break
			}
		}
	}
	var expl strings.Builder
	expl.WriteString("Static analysis of /repo's type-checked program (go/packages + go/ssa). Decides the structural clauses below, not the runtime behaviour. Rules: ")
	for _, id := range r.ruleOrder {
		fmt.Fprintf(&expl, "[%s] %s ", id, r.RuleText[id])
	}
	if len(r.NotDecided) > 0 {
		expl.WriteString(" NOT DECIDED: " + strings.Join(r.NotDecided, "; "))
	}
	var infos []*Obl
	for _, o := range r.Obls {
		if o.st == Info && len(infos) < 60 {
			infos = append(infos, o)
		}
	}
	ev := map[string]interface{}{
		"property_id": r.Prop,
		"tier":        r.Tier,
		"seed":        r.Seed,
		"level":       "other",
		"coverage": map[string]interface{}{
			"explanation":         expl.String(),
			"obligations":         nObl,
			"discharged":          nDis,
			"known_findings":      nKnown,
			"violated":            nViol,
			"undecided":           nUndec,
			"evaluations":         nObl,
			"distinct_nontrivial": nNontriv,
			"rule":                "one obligation per (rule, construct key) enumerated from the loaded program; non-trivial = discharge needed a path/dataflow/table-agreement argument rather than a bare lookup; distinct by (rule, construct key)",
			"samples":             samples,
			"per_rule":            perRule,
			"analysed":            r.Counters,
			"information":         infos,
			"exhaustive":          true,
		},
		"assumptions": append([]string{
			"go/types, go/ssa and go/packages (x/tools v0.29.0) model the program faithfully; reflection is modelled explicitly by the BVM dispatch model",
			"pinned dependencies behave as their source says; their tables are read, their code is trusted",
			"the idiom tables of the checker (guards, success conventions, effect APIs) enumerate what the repository uses today; an unknown idiom yields undecided/violated, never a silent pass",
		}, r.Assumptions...),
		"wall_s":     time.Since(r.start).Seconds(),
		"violations": nViol + nUndec,
	}
	data, _ := json.MarshalIndent(ev, "", " ")
	if err := os.WriteFile(filepath.Join(evDir, r.Prop+".json"), data, 0o644); err != nil {
		fmt.Println("cannot write evidence:", err)
		return 2
	}
	fmt.Printf("%s: obligations=%d discharged=%d known=%d violated=%d undecided=%d (%.1fs)\n", r.Prop, nObl, nDis, nKnown, nViol, nUndec, time.Since(r.start).Seconds())
	if len(bad) > 0 {
		fmt.Printf("VIOLATION property=%s replay=%s\n", r.Prop, replay)
		return 1
	}
	return 0
}
