package core

import (
	"go/types"
	"strings"

	"golang.org/x/tools/go/ssa"
)

// CHA resolves interface calls to the implementations declared in the module
// (class-hierarchy analysis restricted to module types).
type CHA struct {
	p     *Prog
	named []*types.Named
	memo  map[*types.Func][]*ssa.Function
}

func NewCHA(p *Prog) *CHA {
	c := &CHA{p: p, memo: map[*types.Func][]*ssa.Function{}}
	for _, pk := range p.Pkgs {
		if IsAuxPkg(pk.PkgPath) || pk.Types == nil {
			continue
		}
		sc := pk.Types.Scope()
		for _, n := range sc.Names() {
			if tn, ok := sc.Lookup(n).(*types.TypeName); ok && !tn.IsAlias() {
				if nt, ok := tn.Type().(*types.Named); ok {
					if _, isIface := nt.Underlying().(*types.Interface); !isIface {
						c.named = append(c.named, nt)
					}
				}
			}
		}
	}
	return c
}

// Callees returns the possible module callees of a call: the static callee,
// an in-place closure, or all module implementations of the invoked method.
func (c *CHA) Callees(call ssa.CallInstruction) []*ssa.Function {
	cc := call.Common()
	if !cc.IsInvoke() {
		if f := StaticCallee(call); f != nil {
			return []*ssa.Function{unwrapSynthetic(f)}
		}
		return nil
	}
	m := cc.Method
	if r, ok := c.memo[m]; ok {
		return r
	}
	iface, _ := cc.Value.Type().Underlying().(*types.Interface)
	var out []*ssa.Function
	if iface != nil {
		for _, nt := range c.named {
			for _, T := range []types.Type{nt, types.NewPointer(nt)} {
				if !types.Implements(T, iface) {
					continue
				}
				sel := c.p.SSA.MethodSets.MethodSet(T).Lookup(m.Pkg(), m.Name())
				if sel == nil {
					continue
				}
				if f := c.p.SSA.MethodValue(sel); f != nil {
					f = unwrapSynthetic(f)
					dup := false
					for _, o := range out {
						if o == f {
							dup = true
						}
					}
					if !dup && f.Blocks != nil {
						out = append(out, f)
					}
				}
				break
			}
		}
	}
	c.memo[m] = out
	return out
}

// ReachableFrom computes the module functions reachable from roots through
// static calls, closures and CHA-resolved interface calls.
func (c *CHA) ReachableFrom(roots []*ssa.Function, stop func(*ssa.Function) bool) map[*ssa.Function]bool {
	seen := map[*ssa.Function]bool{}
	var visit func(f *ssa.Function)
	visit = func(f *ssa.Function) {
		if f == nil || seen[f] || f.Blocks == nil {
			return
		}
		if stop != nil && stop(f) {
			return
		}
		seen[f] = true
		for _, a := range f.AnonFuncs {
			visit(a)
		}
		for _, call := range Calls(f) {
			for _, g := range c.Callees(call) {
				visit(g)
			}
		}
	}
	for _, r := range roots {
		visit(r)
	}
	return seen
}

// PkgOf returns the short package path of fn.
func PkgOf(fn *ssa.Function) string {
	if fn.Package() == nil || fn.Package().Pkg == nil {
		if fn.Parent() != nil {
			return PkgOf(fn.Parent())
		}
		return ""
	}
	return strings.TrimPrefix(fn.Package().Pkg.Path(), Module+"/")
}
