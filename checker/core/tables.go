package core

import (
	"go/ast"
	"go/constant"
	"go/token"
	"go/types"
	"strconv"
	"strings"

	"golang.org/x/tools/go/packages"
)

// ---------------------------------------------------------------- table extraction (E6)

// Evaluator evaluates small constant-ish expressions found in table literals:
// constants, string(const), const.String() (string-kinded types: the value;
// protobuf enums: the generated <Type>_name table), and string literals.
type Evaluator struct {
	P *Prog
}

// ProtoEnumName returns the String() of a protobuf enum constant by reading
// the generated <Type>_name map literal from the package's syntax.
func (e *Evaluator) ProtoEnumName(c *types.Const) (string, bool) {
	nt, ok := c.Type().(*types.Named)
	if !ok || nt.Obj().Pkg() == nil {
		return "", false
	}
	pk := e.P.All[nt.Obj().Pkg().Path()]
	if pk == nil {
		return "", false
	}
	want := nt.Obj().Name() + "_name"
	v, _ := constant.Int64Val(c.Val())
	for _, f := range pk.Syntax {
		for _, d := range f.Decls {
			gd, ok := d.(*ast.GenDecl)
			if !ok || gd.Tok != token.VAR {
				continue
			}
			for _, sp := range gd.Specs {
				vs := sp.(*ast.ValueSpec)
				for i, n := range vs.Names {
					if n.Name != want || i >= len(vs.Values) {
						continue
					}
					cl, ok := vs.Values[i].(*ast.CompositeLit)
					if !ok {
						continue
					}
					for _, el := range cl.Elts {
						kv, ok := el.(*ast.KeyValueExpr)
						if !ok {
							continue
						}
						kt, ok := pk.TypesInfo.Types[kv.Key]
						if !ok || kt.Value == nil {
							continue
						}
						kvI, _ := constant.Int64Val(kt.Value)
						if kvI == v {
							if bl, ok := kv.Value.(*ast.BasicLit); ok {
								s, err := strconv.Unquote(bl.Value)
								return s, err == nil
							}
						}
					}
				}
			}
		}
	}
	return "", false
}

// String evaluates expr (in package pk) to a string.
func (e *Evaluator) String(pk *packages.Package, expr ast.Expr) (string, bool) {
	info := pk.TypesInfo
	if tv, ok := info.Types[expr]; ok && tv.Value != nil && tv.Value.Kind() == constant.String {
		return constant.StringVal(tv.Value), true
	}
	switch x := expr.(type) {
	case *ast.ParenExpr:
		return e.String(pk, x.X)
	case *ast.CallExpr:
		// conversion string(c) / T(c)
		if len(x.Args) == 1 {
			if tv, ok := info.Types[x.Fun]; ok && tv.IsType() {
				return e.String(pk, x.Args[0])
			}
		}
		// c.String()
		if sel, ok := x.Fun.(*ast.SelectorExpr); ok && sel.Sel.Name == "String" && len(x.Args) == 0 {
			if c := e.constOf(info, sel.X); c != nil {
				if c.Val().Kind() == constant.String {
					return constant.StringVal(c.Val()), true
				}
				if c.Val().Kind() == constant.Int {
					return e.ProtoEnumName(c)
				}
			}
		}
	}
	return "", false
}

func (e *Evaluator) constOf(info *types.Info, x ast.Expr) *types.Const {
	switch v := x.(type) {
	case *ast.Ident:
		c, _ := info.Uses[v].(*types.Const)
		return c
	case *ast.SelectorExpr:
		c, _ := info.Uses[v.Sel].(*types.Const)
		return c
	case *ast.ParenExpr:
		return e.constOf(info, v.X)
	}
	return nil
}

// FSMEdge is one transition of a looplab/fsm Events literal.
type FSMEdge struct {
	Event  string
	Src    []string
	Dst    string
	Pos    token.Pos
	DynDst bool // destination is not a constant (e.g. lastStatus)
}

// FSMEvents extracts every fsm.Events{...} composite literal inside fn's syntax.
func (e *Evaluator) FSMEvents(pk *packages.Package, body ast.Node) ([]FSMEdge, []string) {
	var out []FSMEdge
	var problems []string
	ast.Inspect(body, func(n ast.Node) bool {
		cl, ok := n.(*ast.CompositeLit)
		if !ok {
			return true
		}
		t := pk.TypesInfo.TypeOf(cl)
		if t == nil || !strings.HasSuffix(t.String(), "looplab/fsm.Events") {
			return true
		}
		for _, el := range cl.Elts {
			ed, ok := el.(*ast.CompositeLit)
			if !ok {
				continue
			}
			var fe FSMEdge
			fe.Pos = ed.Pos()
			for _, f := range ed.Elts {
				kv, ok := f.(*ast.KeyValueExpr)
				if !ok {
					continue
				}
				key := kv.Key.(*ast.Ident).Name
				switch key {
				case "Name":
					s, ok := e.String(pk, kv.Value)
					if !ok {
						problems = append(problems, "event name not constant at "+e.P.Pos(kv.Pos()))
					}
					fe.Event = s
				case "Dst":
					s, ok := e.String(pk, kv.Value)
					if !ok {
						fe.DynDst = true
					}
					fe.Dst = s
				case "Src":
					if sl, ok := kv.Value.(*ast.CompositeLit); ok {
						for _, se := range sl.Elts {
							s, ok := e.String(pk, se)
							if !ok {
								problems = append(problems, "source state not constant at "+e.P.Pos(se.Pos()))
							}
							fe.Src = append(fe.Src, s)
						}
					} else {
						problems = append(problems, "source list not a literal at "+e.P.Pos(kv.Pos()))
					}
				}
			}
			out = append(out, fe)
		}
		return false
	})
	return out, problems
}

// MapLiteral evaluates a package-level `var name = map[K]V{...}` whose keys
// and values are constants; returns key->value as strings (ints printed).
func (e *Evaluator) MapLiteral(pk *packages.Package, name string) (map[string]string, bool) {
	for _, f := range pk.Syntax {
		for _, d := range f.Decls {
			gd, ok := d.(*ast.GenDecl)
			if !ok || gd.Tok != token.VAR {
				continue
			}
			for _, sp := range gd.Specs {
				vs := sp.(*ast.ValueSpec)
				for i, n := range vs.Names {
					if n.Name != name || i >= len(vs.Values) {
						continue
					}
					cl, ok := vs.Values[i].(*ast.CompositeLit)
					if !ok {
						return nil, false
					}
					out := map[string]string{}
					for _, el := range cl.Elts {
						kv, ok := el.(*ast.KeyValueExpr)
						if !ok {
							return nil, false
						}
						k, ok1 := e.anyConst(pk, kv.Key)
						v, ok2 := e.anyConst(pk, kv.Value)
						if !ok1 || !ok2 {
							return nil, false
						}
						out[k] = v
					}
					return out, true
				}
			}
		}
	}
	return nil, false
}

func (e *Evaluator) anyConst(pk *packages.Package, x ast.Expr) (string, bool) {
	if tv, ok := pk.TypesInfo.Types[x]; ok && tv.Value != nil {
		if tv.Value.Kind() == constant.String {
			return constant.StringVal(tv.Value), true
		}
		return tv.Value.ExactString(), true
	}
	return e.String(pk, x)
}

// MapOfLists evaluates `var name = map[K][]V{K1: {a, b}, ...}` with constant
// keys and elements.
func (e *Evaluator) MapOfLists(pk *packages.Package, name string) (map[string][]string, bool) {
	for _, f := range pk.Syntax {
		for _, d := range f.Decls {
			gd, ok := d.(*ast.GenDecl)
			if !ok || gd.Tok != token.VAR {
				continue
			}
			for _, sp := range gd.Specs {
				vs := sp.(*ast.ValueSpec)
				for i, n := range vs.Names {
					if n.Name != name || i >= len(vs.Values) {
						continue
					}
					cl, ok := vs.Values[i].(*ast.CompositeLit)
					if !ok {
						return nil, false
					}
					out := map[string][]string{}
					for _, el := range cl.Elts {
						kv, ok := el.(*ast.KeyValueExpr)
						if !ok {
							return nil, false
						}
						k, ok1 := e.anyConst(pk, kv.Key)
						lst, ok2 := kv.Value.(*ast.CompositeLit)
						if !ok1 || !ok2 {
							return nil, false
						}
						var vals []string
						for _, x := range lst.Elts {
							v, ok := e.anyConst(pk, x)
							if !ok {
								return nil, false
							}
							vals = append(vals, v)
						}
						out[k] = vals
					}
					return out, true
				}
			}
		}
	}
	return nil, false
}

// PackageVarsWithSuffix lists package-level variable names ending in suffix.
func PackageVarsWithSuffix(pk *packages.Package, suffix string) []string {
	var out []string
	if pk.Types == nil {
		return nil
	}
	sc := pk.Types.Scope()
	for _, n := range sc.Names() {
		if _, ok := sc.Lookup(n).(*types.Var); ok && strings.HasSuffix(n, suffix) {
			out = append(out, n)
		}
	}
	return out
}
