package core

import (
	"go/token"
	"go/types"
	"strings"

	"golang.org/x/tools/go/ssa"
)

// Point is a program point: before instruction Idx of block B.
type Point struct {
	B   *ssa.BasicBlock
	Idx int
}

// After returns the point just after instruction in.
func After(in ssa.Instruction) Point {
	b := in.Block()
	for i, x := range b.Instrs {
		if x == in {
			return Point{b, i + 1}
		}
	}
	return Point{b, len(b.Instrs)}
}

// EntryOf is the entry point of fn.
func EntryOf(fn *ssa.Function) Point { return Point{fn.Blocks[0], 0} }

// ReachSet is the result of a forward path exploration.
type ReachSet struct {
	Instr map[ssa.Instruction]bool
	pred  map[*ssa.BasicBlock]*ssa.BasicBlock // for witnesses
	start map[*ssa.BasicBlock]bool
}

// Reach explores forward from the start points. barrier(in) stops a path just
// before in executes (in is not marked reached). cut(b, i) removes the CFG
// edge from b to its i-th successor. Panic-terminated blocks end paths.
func Reach(starts []Point, barrier func(ssa.Instruction) bool, cut func(b *ssa.BasicBlock, succ int) bool) *ReachSet {
	rs := &ReachSet{Instr: map[ssa.Instruction]bool{}, pred: map[*ssa.BasicBlock]*ssa.BasicBlock{}, start: map[*ssa.BasicBlock]bool{}}
	type item struct{ p Point }
	visitedFrom0 := map[*ssa.BasicBlock]bool{}
	var work []Point
	for _, s := range starts {
		work = append(work, s)
		rs.start[s.B] = true
	}
	for len(work) > 0 {
		p := work[len(work)-1]
		work = work[:len(work)-1]
		if p.Idx == 0 {
			if visitedFrom0[p.B] {
				continue
			}
			visitedFrom0[p.B] = true
		}
		stopped := false
		for i := p.Idx; i < len(p.B.Instrs); i++ {
			in := p.B.Instrs[i]
			if barrier != nil && barrier(in) {
				stopped = true
				break
			}
			rs.Instr[in] = true
		}
		if stopped {
			continue
		}
		for si, s := range p.B.Succs {
			if cut != nil && cut(p.B, si) {
				continue
			}
			if !visitedFrom0[s] {
				if _, ok := rs.pred[s]; !ok {
					rs.pred[s] = p.B
				}
				work = append(work, Point{s, 0})
			}
		}
	}
	return rs
}

// Has reports whether the instruction was reached.
func (rs *ReachSet) Has(in ssa.Instruction) bool { return rs.Instr[in] }

// Witness renders a block path (by first source line) leading to in.
func (rs *ReachSet) Witness(p *Prog, in ssa.Instruction) string {
	var blocks []*ssa.BasicBlock
	b := in.Block()
	for i := 0; b != nil && i < 60; i++ {
		blocks = append([]*ssa.BasicBlock{b}, blocks...)
		if rs.start[b] {
			break
		}
		b = rs.pred[b]
	}
	s := ""
	last := ""
	for _, b := range blocks {
		pos := blockPos(p, b)
		if pos == last || pos == "-" {
			continue
		}
		last = pos
		if s != "" {
			s += " -> "
		}
		s += pos
	}
	return s
}

func blockPos(p *Prog, b *ssa.BasicBlock) string {
	for _, in := range b.Instrs {
		if in.Pos().IsValid() {
			ps := p.Fset.Position(in.Pos())
			return itoa(ps.Line)
		}
	}
	return "-"
}

func itoa(i int) string {
	if i == 0 {
		return "0"
	}
	s := ""
	for i > 0 {
		s = string(rune('0'+i%10)) + s
		i /= 10
	}
	return s
}

// Returns lists the Return instructions of fn.
func Returns(fn *ssa.Function) []*ssa.Return {
	var out []*ssa.Return
	for _, b := range fn.Blocks {
		if len(b.Instrs) == 0 {
			continue
		}
		if r, ok := b.Instrs[len(b.Instrs)-1].(*ssa.Return); ok {
			out = append(out, r)
		}
	}
	return out
}

// ---------------------------------------------------------------- condition facts

type FactKind int

const (
	FNil     FactKind = iota // subject == nil  (true edge: subject is nil)
	FOk                      // subject.Ok      (true edge: Ok is true)
	FBool                    // subject         (true edge: subject is true)
	FEqConst                 // subject == const / string(subject.Result) == const
	FCmp                     // other comparison; Subject/Other are the operands
)

// Fact describes what taking the TRUE edge of an If establishes.
type Fact struct {
	Kind    FactKind
	Subject ssa.Value // stripped
	Other   ssa.Value
	Const   string // for FEqConst: string constant compared with
	Field   string // for FEqConst/FOk: field of subject loaded ("Result", "Ok", "Status", ...), or ""
	Negated bool   // the TRUE edge establishes the negation
	Op      token.Token
}

// CondFact analyses the condition of an If.
func CondFact(cond ssa.Value) Fact {
	neg := false
	for {
		if u, ok := cond.(*ssa.UnOp); ok && u.Op == token.NOT {
			neg = !neg
			cond = u.X
			continue
		}
		break
	}
	switch x := cond.(type) {
	case *ssa.BinOp:
		if x.Op == token.EQL || x.Op == token.NEQ {
			n := neg
			if x.Op == token.NEQ {
				n = !n
			}
			l, r := x.X, x.Y
			if IsNilConst(l) {
				l, r = r, l
			}
			if IsNilConst(r) {
				return Fact{Kind: FNil, Subject: Strip(l), Negated: n, Op: x.Op}
			}
			if _, ok := ConstString(l); ok {
				l, r = r, l
			} else if _, ok := ConstInt(l); ok {
				l, r = r, l
			}
			if s, ok := ConstString(r); ok {
				sub, field := loadSubject(l)
				return Fact{Kind: FEqConst, Subject: sub, Const: s, Field: field, Negated: n, Op: x.Op, Other: r}
			}
			if i, ok := ConstInt(r); ok {
				sub, field := loadSubject(l)
				return Fact{Kind: FEqConst, Subject: sub, Const: itoa64(i), Field: field, Negated: n, Op: x.Op, Other: r}
			}
			return Fact{Kind: FCmp, Subject: Strip(x.X), Other: Strip(x.Y), Negated: n, Op: x.Op}
		}
		return Fact{Kind: FCmp, Subject: Strip(x.X), Other: Strip(x.Y), Negated: neg, Op: x.Op}
	default:
		sub, field := loadSubject(cond)
		if field == "Ok" {
			return Fact{Kind: FOk, Subject: sub, Field: field, Negated: neg}
		}
		return Fact{Kind: FBool, Subject: Strip(cond), Field: field, Negated: neg}
	}
}

func itoa64(i int64) string {
	if i < 0 {
		return "-" + itoa(int(-i))
	}
	return itoa(int(i))
}

// loadSubject: for string(x.F) / x.F / *(&x.F) returns (x, "F"); else (Strip(v), "").
func loadSubject(v ssa.Value) (ssa.Value, string) {
	for i := 0; i < 6; i++ {
		switch x := v.(type) {
		case *ssa.Convert:
			v = x.X
			continue
		case *ssa.ChangeType:
			v = x.X
			continue
		}
		break
	}
	if _, f, base, ok := FieldOf(v); ok {
		return Strip(base), f
	}
	return Strip(v), ""
}

// IfOf returns the If terminating block b, or nil.
func IfOf(b *ssa.BasicBlock) *ssa.If {
	if len(b.Instrs) == 0 {
		return nil
	}
	i, _ := b.Instrs[len(b.Instrs)-1].(*ssa.If)
	return i
}

// ---------------------------------------------------------------- short-circuit conditions evaluated as values

// CondPart is one operand of a short-circuit condition that go/ssa materialised as a value (the phi that
// logicalBinop builds for `a || b` / `a && b` outside an if-condition, e.g. in `switch { case a || b: }`, in
// `ok := a && b; if ok`, in a return of a predicate): when the If's successor Edge is taken, V evaluated to Truth.
type CondPart struct {
	V     ssa.Value
	Truth bool
}

// LogicalParts decomposes the condition of ifi when it is a pure `||` chain (then the FALSE edge establishes
// that every operand was false) or a pure `&&` chain (the TRUE edge establishes every operand). Mixed chains are
// decomposed only as far as the outer operator is pure: an operand reached through control flow of the other
// operator is not reported. Also follows one level of `x := <cond>; if x` / `if !x` (the phi negated).
func LogicalParts(ifi *ssa.If) (edge int, parts []CondPart, ok bool) {
	cond := ifi.Cond
	neg := false
	for {
		if u, isU := cond.(*ssa.UnOp); isU && u.Op == token.NOT {
			neg, cond = !neg, u.X
			continue
		}
		break
	}
	phi, isPhi := cond.(*ssa.Phi)
	if !isPhi || (phi.Comment != "||" && phi.Comment != "&&") {
		return 0, nil, false
	}
	parts = logicalLeaves(phi, 0)
	if len(parts) == 0 {
		return 0, nil, false
	}
	// || : operands known (all false) when the phi is false; && : operands known (all true) when the phi is true
	edge = 1
	if phi.Comment == "&&" {
		edge = 0
	}
	if neg {
		edge = 1 - edge
	}
	return edge, parts, true
}

func logicalLeaves(phi *ssa.Phi, depth int) []CondPart {
	if depth > 4 {
		return nil
	}
	done := phi.Block()
	isOr := phi.Comment == "||"
	n := len(phi.Edges)
	if n < 2 || len(done.Preds) != n {
		return nil
	}
	short := map[*ssa.BasicBlock]bool{}
	for i := 0; i < n-1; i++ {
		c, isC := phi.Edges[i].(*ssa.Const)
		if !isC || c.Value == nil || (c.Value.String() == "true") != isOr {
			return nil
		}
		short[done.Preds[i]] = true
	}
	// every short-circuit block ends in an If with exactly one successor == done, the other one either another
	// short-circuit block or the start of the right operand R; R is entered only from short-circuit blocks
	var rhs *ssa.BasicBlock
	var parts []CondPart
	for i := 0; i < n-1; i++ {
		p := done.Preds[i]
		pi := IfOf(p)
		if pi == nil {
			return nil
		}
		k := -1
		switch {
		case p.Succs[0] == done && p.Succs[1] != done:
			k = 0
		case p.Succs[1] == done && p.Succs[0] != done:
			k = 1
		default:
			return nil
		}
		other := p.Succs[1-k]
		if !short[other] {
			if rhs != nil && rhs != other {
				return nil
			}
			rhs = other
		}
		parts = append(parts, CondPart{V: pi.Cond, Truth: k == 1})
	}
	if rhs == nil {
		return nil
	}
	for _, pr := range rhs.Preds {
		if !short[pr] {
			return nil // mixed chain: the right operand is also reached from an operand of the other operator
		}
	}
	for b := range short {
		for _, pr := range b.Preds {
			if !short[pr] && b != firstShort(short, done) {
				return nil
			}
		}
	}
	last := phi.Edges[n-1]
	if lp, isPhi := last.(*ssa.Phi); isPhi && lp.Comment == phi.Comment {
		if sub := logicalLeaves(lp, depth+1); sub != nil {
			return append(parts, sub...)
		}
	}
	return append(parts, CondPart{V: last, Truth: !isOr})
}

// firstShort: the short-circuit block that is entered from outside the chain (the one evaluating the first operand).
func firstShort(short map[*ssa.BasicBlock]bool, done *ssa.BasicBlock) *ssa.BasicBlock {
	var first *ssa.BasicBlock
	for b := range short {
		outside := false
		for _, pr := range b.Preds {
			if !short[pr] {
				outside = true
			}
		}
		if outside {
			if first != nil {
				return nil
			}
			first = b
		}
	}
	return first
}

// EdgeFact: Fact (what the TRUE value of its condition establishes) together with the edges of the If on which
// something is known: OnTrue - the fact holds on successor 0; OnFalse - its negation holds on successor 1.
// For a plain condition both are set. For an operand of a materialised `||` chain the If's FALSE edge establishes
// the operand false: reported with the operand's fact re-oriented to this If.
type EdgeFact struct {
	Fact    Fact
	Cond    ssa.Value
	OnTrue  bool
	OnFalse bool
}

// CondFactsOf lists what the two edges of ifi establish: the fact of the condition itself and, for short-circuit
// conditions evaluated as values, the facts of the operands (see LogicalParts).
func CondFactsOf(ifi *ssa.If) []EdgeFact {
	out := []EdgeFact{{Fact: CondFact(ifi.Cond), Cond: ifi.Cond, OnTrue: true, OnFalse: true}}
	edge, parts, ok := LogicalParts(ifi)
	if !ok {
		return out
	}
	for _, p := range parts {
		f := CondFact(p.V)
		// orient the operand's fact to this If: it must read "TRUE edge of ifi establishes f"
		//   operand true on edge 0  -> f as is, OnTrue
		//   operand false on edge 0 -> negated f, OnTrue
		//   operand false on edge 1 -> f as is, OnFalse (the FALSE edge establishes the negation)
		//   operand true on edge 1  -> negated f, OnFalse
		ef := EdgeFact{Fact: f, Cond: p.V}
		if edge == 0 {
			ef.OnTrue = true
			if !p.Truth {
				ef.Fact.Negated = !ef.Fact.Negated
			}
		} else {
			ef.OnFalse = true
			if p.Truth {
				ef.Fact.Negated = !ef.Fact.Negated
			}
		}
		out = append(out, ef)
	}
	return out
}

// ---------------------------------------------------------------- success edges

// Conv is the success convention of a guard result.
type Conv int

const (
	ConvErrNil   Conv = iota // result (error / *BxhError / pointer) nil means passed
	ConvRespOk               // *boltvm.Response with Ok == true means passed
	ConvBoolTrue             // true means passed
	ConvRespTrue             // *boltvm.Response whose string(Result) == "true" means passed
)

// GuardSite is a call accepted as a guard together with its convention and,
// for tuple results, the index of the verdict component (-1 for single).
type GuardSite struct {
	Call *ssa.Call
	Conv Conv
	Idx  int
}

// SuccessEdges returns, for fn, the set of CFG edges (block, succ index) that
// are the "guard passed" edges of the given guard sites.
func SuccessEdges(fn *ssa.Function, sites []GuardSite) map[*ssa.BasicBlock]map[int]bool {
	out := map[*ssa.BasicBlock]map[int]bool{}
	mark := func(b *ssa.BasicBlock, i int) {
		if out[b] == nil {
			out[b] = map[int]bool{}
		}
		out[b][i] = true
	}
	match := func(sub ssa.Value) *GuardSite {
		c, idx := CallOf(sub)
		if c == nil {
			return nil
		}
		for i := range sites {
			if sites[i].Call == c && (sites[i].Idx == idx || sites[i].Idx < 0 && idx < 0) {
				return &sites[i]
			}
		}
		return nil
	}
	for _, b := range fn.Blocks {
		ifi := IfOf(b)
		if ifi == nil {
			continue
		}
		for _, ef := range CondFactsOf(ifi) {
			f := ef.Fact
			g := match(f.Subject)
			if g == nil {
				continue
			}
			// trueEdgeMeans: does the TRUE edge mean "passed"?
			var pass, decided bool
			switch {
			case g.Conv == ConvErrNil && f.Kind == FNil:
				pass, decided = !f.Negated, true
			case g.Conv == ConvRespOk && f.Kind == FOk:
				pass, decided = !f.Negated, true
			case g.Conv == ConvBoolTrue && f.Kind == FBool && f.Field == "":
				pass, decided = !f.Negated, true
			case g.Conv == ConvRespTrue && f.Kind == FEqConst && f.Field == "Result" && f.Const == "true":
				pass, decided = !f.Negated, true
			}
			if !decided {
				continue
			}
			if pass && ef.OnTrue {
				mark(b, 0)
			} else if !pass && ef.OnFalse {
				mark(b, 1)
			}
		}
	}
	return out
}

// CutOf turns an edge set into a cut function for Reach.
func CutOf(edges map[*ssa.BasicBlock]map[int]bool) func(*ssa.BasicBlock, int) bool {
	return func(b *ssa.BasicBlock, i int) bool { return edges[b][i] }
}

// ---------------------------------------------------------------- failure returns

// ErrCtors are functions whose result is never a "success" value.
var ErrCtors = map[string]bool{
	"fmt.Errorf": true, "errors.New": true,
	"github.com/meshplus/bitxhub-core/boltvm.Error":  true,
	"github.com/meshplus/bitxhub-core/boltvm.BError": true,
	"github.com/pkg/errors.New":                      true,
	"github.com/pkg/errors.Errorf":                   true,
	"github.com/pkg/errors.Wrap":                     false, // Wrap(nil) is nil
}

// RetOrigin is one possible source of a returned value; for values carried
// by a phi, Via->To is the CFG edge that selects it.
type RetOrigin struct {
	V   ssa.Value
	Via *ssa.BasicBlock
	To  *ssa.BasicBlock
}

// RetOrigins expands v through phis (recording the selecting edge of the
// outermost phi) and value-preserving wrappers.
func RetOrigins(v ssa.Value) []RetOrigin {
	var out []RetOrigin
	seen := map[ssa.Value]bool{}
	var walk func(v ssa.Value, via, to *ssa.BasicBlock, d int)
	walk = func(v ssa.Value, via, to *ssa.BasicBlock, d int) {
		if v == nil || d > 30 {
			return
		}
		// defer-spilled result: `*slot = x; rundefers; t = *slot; return t`
		if sv := SpilledValue(v); sv != nil {
			v = sv
		}
		v = Strip(v)
		if ph, ok := v.(*ssa.Phi); ok {
			if seen[v] {
				return
			}
			seen[v] = true
			for i, e := range ph.Edges {
				pv, pt := via, to
				if pv == nil {
					pv, pt = ph.Block().Preds[i], ph.Block()
				}
				walk(e, pv, pt, d+1)
			}
			return
		}
		if u, ok := v.(*ssa.UnOp); ok && u.Op == token.MUL {
			if a, ok := u.X.(*ssa.Alloc); ok {
				// the stores that can reach this load (nearest store on every backward path); when the
				// entry is reachable without a store, fall back to all stores of the variable
				ss, complete := reachingStores(u, a)
				if !complete {
					ss = StoresTo(a)
				}
				if len(ss) > 0 {
					for _, s := range ss {
						walk(s, via, to, d+1)
					}
					return
				}
			}
		}
		out = append(out, RetOrigin{v, via, to})
	}
	walk(v, nil, nil, 0)
	return out
}

// MayBeSuccess classifies operand idx of a return with the given convention:
// false when the returned value is certainly a failure value.
func MayBeSuccess(fn *ssa.Function, ret *ssa.Return, idx int, conv Conv) bool {
	for _, o := range RetOrigins(ret.Results[idx]) {
		if OriginMayBeSuccess(fn, ret, o.V, conv) {
			return true
		}
	}
	return false
}

// OriginMayBeSuccess: may origin value v, when returned, denote success?
func OriginMayBeSuccess(fn *ssa.Function, ret *ssa.Return, v ssa.Value, conv Conv) bool {
	return mayBeSuccessOrigin(fn, ret, v, conv)
}

// OriginReachable: can the return be reached carrying this origin, given the
// exploration rs performed with cut?
func OriginReachable(rs *ReachSet, cut func(*ssa.BasicBlock, int) bool, ret *ssa.Return, o RetOrigin) bool {
	if !rs.Has(ret) {
		return false
	}
	if o.Via == nil {
		return true
	}
	if len(o.Via.Instrs) == 0 || !rs.Has(o.Via.Instrs[len(o.Via.Instrs)-1]) {
		return false
	}
	for i, s := range o.Via.Succs {
		if s == o.To && (cut == nil || !cut(o.Via, i)) {
			return true
		}
	}
	return false
}

var successDepth int

func mayBeSuccessOrigin(fn *ssa.Function, ret *ssa.Return, v ssa.Value, conv Conv) bool {
	switch conv {
	case ConvBoolTrue:
		if c, ok := v.(*ssa.Const); ok && c.Value != nil {
			return c.Value.String() == "true"
		}
		return true
	case ConvErrNil, ConvRespOk, ConvRespTrue:
		if IsNilConst(v) {
			return conv == ConvErrNil
		}
		if c, ok := v.(*ssa.Call); ok {
			if ErrCtors[calleeFullRaw(c)] {
				return false
			}
			// a helper whose every non-nil result is a failure value (e.g. `return boltvm.Error(..)` / `return nil`):
			// its result is never a success value (nil is not a success for the response conventions)
			if conv != ConvErrNil {
				if g := StaticCallee(c); g != nil && len(g.Blocks) > 0 && g != fn && successDepth < 3 {
					successDepth++
					allFail := true
					n := 0
					for _, gret := range Returns(g) {
						if len(gret.Results) != 1 {
							allFail = false
							break
						}
						for _, o := range RetOrigins(gret.Results[0]) {
							if IsNilConst(o.V) {
								continue
							}
							n++
							if mayBeSuccessOrigin(g, gret, o.V, conv) {
								allFail = false
							}
						}
					}
					successDepth--
					if allFail && n > 0 {
						return false
					}
				}
			}
		}
		// a package-level error variable (ErrFoo = errors.New(..)) is a failure value
		if u, ok := v.(*ssa.UnOp); ok && u.Op == token.MUL {
			if g, ok := u.X.(*ssa.Global); ok && conv == ConvErrNil && strings.HasPrefix(g.Name(), "Err") {
				return false
			}
		}
		// a non-nil composite (e.g. &BxhError{}) is failure for ErrNil
		if conv == ConvErrNil {
			switch v.(type) {
			case *ssa.Alloc, *ssa.MakeInterface:
				return false
			}
		}
		// value returned only on the branch where it was tested to be a failure
		want := FNil
		if conv != ConvErrNil {
			want = FOk
		}
		cut := func(b *ssa.BasicBlock, si int) bool {
			ifi := IfOf(b)
			if ifi == nil {
				return false
			}
			f := CondFact(ifi.Cond)
			same := f.Subject == Strip(v) || sameMemoryVar(f.Subject, Strip(v))
			if !same {
				// the condition may have been resolved to the value stored into the variable: compare the raw operands
				if bo, ok := ifi.Cond.(*ssa.BinOp); ok {
					same = sameMemoryVar(bo.X, Strip(v)) || sameMemoryVar(bo.Y, Strip(v))
					// or the tested operand is a load of a variable into which v was stored just before
					for _, opnd := range []ssa.Value{bo.X, bo.Y} {
						if sv := SpilledValue(opnd); sv != nil && Strip(sv) == Strip(v) {
							same = true
						}
					}
				}
			}
			if !same {
				// the test is made on the merged variable that carries v to the return (`x, err = f()` in the arms of a
				// switch, `if err != nil { return err }` behind it): the returned value is that phi
				if ph, ok := f.Subject.(*ssa.Phi); ok {
					returned := false
					for _, res := range ret.Results {
						if res == ssa.Value(ph) {
							returned = true
						}
					}
					if returned {
						for _, e := range ph.Edges {
							if Strip(e) == Strip(v) || e == v {
								same = true
							}
						}
					}
				}
			}
			if f.Kind != want || !same {
				return false
			}
			// cut the edge on which v is known to be a failure value; if the
			// return is still reachable, v may be a success value there
			passOnTrue := !f.Negated
			if passOnTrue {
				return si == 1
			}
			return si == 0
		}
		rs := Reach([]Point{EntryOf(fn)}, nil, cut)
		return rs.Has(ret)
	}
	return true
}

func calleeFullRaw(c ssa.CallInstruction) string {
	if o := CalleeObj(c); o != nil {
		return o.FullName()
	}
	return ""
}

// ResultConv guesses the success convention from a function's result types;
// idx is the verdict component. ok=false when the function has no verdict.
func ResultConv(sig *types.Signature) (conv Conv, idx int, ok bool) {
	res := sig.Results()
	for i := res.Len() - 1; i >= 0; i-- {
		t := res.At(i).Type()
		ts := t.String()
		switch {
		case ts == "error":
			return ConvErrNil, i, true
		case ts == "*github.com/meshplus/bitxhub-core/boltvm.BxhError":
			return ConvErrNil, i, true
		case ts == "*github.com/meshplus/bitxhub-core/boltvm.Response":
			return ConvRespOk, i, true
		}
	}
	if res.Len() == 1 && res.At(0).Type().String() == "bool" {
		return ConvBoolTrue, 0, true
	}
	return 0, 0, false
}

// ---------------------------------------------------------------- finite orderings

// OrderingReturns evaluates a function whose relevant branch conditions are
// comparisons between the two values a and b: for each of the three possible
// orderings of (a,b) ("<", "=", ">") it follows only the branch edges
// consistent with that ordering (conditions that are not comparisons of a and
// b keep both edges) and reports which returns are reachable.
func OrderingReturns(fn *ssa.Function, a, b ssa.Value) map[string][]*ssa.Return {
	out := map[string][]*ssa.Return{}
	for _, ord := range []string{"<", "=", ">"} {
		cut := func(blk *ssa.BasicBlock, si int) bool {
			ifi := IfOf(blk)
			if ifi == nil {
				return false
			}
			bo, ok := ifi.Cond.(*ssa.BinOp)
			if !ok {
				return false
			}
			var o string
			switch {
			case Strip(bo.X) == Strip(a) && Strip(bo.Y) == Strip(b):
				o = ord
			case Strip(bo.X) == Strip(b) && Strip(bo.Y) == Strip(a):
				o = map[string]string{"<": ">", "=": "=", ">": "<"}[ord]
			default:
				return false
			}
			var val bool
			switch bo.Op {
			case token.LSS:
				val = o == "<"
			case token.LEQ:
				val = o != ">"
			case token.GTR:
				val = o == ">"
			case token.GEQ:
				val = o != "<"
			case token.EQL:
				val = o == "="
			case token.NEQ:
				val = o != "="
			default:
				return false
			}
			// cut the edge that is NOT taken
			if val {
				return si == 1
			}
			return si == 0
		}
		rs := Reach([]Point{EntryOf(fn)}, nil, cut)
		for _, r := range Returns(fn) {
			if rs.Has(r) {
				out[ord] = append(out[ord], r)
			}
		}
	}
	return out
}

// InLoop reports whether instruction in lies on a CFG cycle of its function.
func InLoop(in ssa.Instruction) bool {
	b := in.Block()
	rs := Reach([]Point{After(in)}, nil, nil)
	return rs.Has(in) || func() bool {
		// reached the start of its own block again
		for _, x := range b.Instrs {
			if x == in {
				break
			}
			if rs.Has(x) {
				return true
			}
		}
		return false
	}()
}

// SpilledValue: if v is a load of a local slot that is stored to earlier in
// the same block (the shape go/ssa gives returns of functions with defers),
// returns the value of the last such store; otherwise nil.
func SpilledValue(v ssa.Value) ssa.Value {
	u, ok := v.(*ssa.UnOp)
	if !ok || u.Op != token.MUL {
		return nil
	}
	a, ok := u.X.(*ssa.Alloc)
	if !ok {
		return nil
	}
	b := u.Block()
	if b == nil {
		return nil
	}
	var last ssa.Value
	for _, in := range b.Instrs {
		if in == ssa.Instruction(u) {
			break
		}
		if st, ok := in.(*ssa.Store); ok && st.Addr == ssa.Value(a) {
			last = st.Val
		}
	}
	return last
}

// sameMemoryVar: a and b are two loads of the same local variable that lives in memory (captured by a
// closure / address taken). Used to relate `if err != nil` with the later `return err`.
func sameMemoryVar(a, b ssa.Value) bool {
	ua, ok1 := a.(*ssa.UnOp)
	ub, ok2 := b.(*ssa.UnOp)
	if !ok1 || !ok2 || ua.Op != token.MUL || ub.Op != token.MUL {
		return false
	}
	al, ok := ua.X.(*ssa.Alloc)
	return ok && ua.X == ub.X && al != nil
}

// reachingStores: the values of the nearest stores into alloc a on every backward path from load u.
// complete is false when some path reaches the function entry (or the allocation) without a store.
func reachingStores(u *ssa.UnOp, a *ssa.Alloc) ([]ssa.Value, bool) {
	var out []ssa.Value
	complete := true
	seen := map[*ssa.BasicBlock]bool{}
	var back func(b *ssa.BasicBlock, from int)
	back = func(b *ssa.BasicBlock, from int) {
		for i := from; i >= 0; i-- {
			if st, ok := b.Instrs[i].(*ssa.Store); ok && st.Addr == ssa.Value(a) {
				out = append(out, st.Val)
				return
			}
			if b.Instrs[i] == ssa.Instruction(a) {
				complete = false
				return
			}
		}
		if len(b.Preds) == 0 {
			complete = false
			return
		}
		for _, p := range b.Preds {
			if seen[p] {
				continue
			}
			seen[p] = true
			back(p, len(p.Instrs)-1)
		}
	}
	blk := u.Block()
	if blk == nil {
		return nil, false
	}
	idx := -1
	for i, in := range blk.Instrs {
		if in == ssa.Instruction(u) {
			idx = i
		}
	}
	if idx < 0 {
		return nil, false
	}
	back(blk, idx-1)
	// de-duplicate
	var uniq []ssa.Value
	dd := map[ssa.Value]bool{}
	for _, v := range out {
		if !dd[v] {
			dd[v] = true
			uniq = append(uniq, v)
		}
	}
	return uniq, complete && len(uniq) > 0
}
