package core

import (
	"go/constant"
	"go/token"
	"go/types"
	"strings"

	"golang.org/x/tools/go/ssa"
)

// ---------------------------------------------------------------- calls

// Calls returns every call-like instruction (call, go, defer) of fn.
func Calls(fn *ssa.Function) []ssa.CallInstruction {
	var out []ssa.CallInstruction
	for _, b := range fn.Blocks {
		for _, in := range b.Instrs {
			if c, ok := in.(ssa.CallInstruction); ok {
				out = append(out, c)
			}
		}
	}
	return out
}

// CalleeObj returns the *types.Func a call resolves to by type information:
// the static callee's object, or the interface method for invoke-mode calls.
// Closures and dynamic function values give nil.
func CalleeObj(c ssa.CallInstruction) *types.Func {
	cc := c.Common()
	if cc.IsInvoke() {
		return cc.Method
	}
	if f := cc.StaticCallee(); f != nil {
		if o, ok := f.Object().(*types.Func); ok {
			return o
		}
		// bound method closure / wrapper: look through
		if f.Synthetic != "" {
			if o := syntheticTarget(f); o != nil {
				return o
			}
		}
	}
	return nil
}

func syntheticTarget(f *ssa.Function) *types.Func {
	// wrappers and bound-method thunks contain exactly one call to the real method
	for _, b := range f.Blocks {
		for _, in := range b.Instrs {
			if c, ok := in.(ssa.CallInstruction); ok {
				cc := c.Common()
				if cc.IsInvoke() {
					return cc.Method
				}
				if g := cc.StaticCallee(); g != nil {
					if o, ok := g.Object().(*types.Func); ok {
						return o
					}
				}
			}
		}
	}
	return nil
}

// CalleeName is the canonical name of the callee ("(*pkg.T).M", "pkg.F",
// "(pkg.I).M" for interface calls), module prefix stripped; "" if dynamic.
func CalleeName(c ssa.CallInstruction) string {
	if o := CalleeObj(c); o != nil {
		return Short(o.FullName())
	}
	if b, ok := c.Common().Value.(*ssa.Builtin); ok {
		return "builtin." + b.Name()
	}
	return ""
}

// StaticCallee returns the SSA function called, for static calls and for
// closures created in place (MakeClosure value).
func StaticCallee(c ssa.CallInstruction) *ssa.Function {
	cc := c.Common()
	if f := cc.StaticCallee(); f != nil {
		return f
	}
	if mc, ok := cc.Value.(*ssa.MakeClosure); ok {
		if f, ok := mc.Fn.(*ssa.Function); ok {
			return f
		}
	}
	// a local closure variable that is assigned exactly once (`revert := func() {..}` captured by another
	// closure becomes a memory cell: the call loads it, possibly through the capturing closure's free variable)
	if cc.IsInvoke() {
		return nil
	}
	if al, ok := VarIdentity(cc.Value).(*ssa.Alloc); ok {
		sts := StoreInstrsInto(al)
		if len(sts) == 1 {
			switch v := sts[0].Val.(type) {
			case *ssa.MakeClosure:
				if f, ok := v.Fn.(*ssa.Function); ok {
					return f
				}
			case *ssa.Function:
				return v
			}
		}
	}
	return nil
}

// NameIs reports whether the callee name equals one of the given names. A
// name may end in ".*M" form: "*.M" matches any receiver with method M is not
// supported on purpose - names are exact.
func NameIs(c ssa.CallInstruction, names ...string) bool {
	n := CalleeName(c)
	if n == "" {
		return false
	}
	for _, x := range names {
		if n == x {
			return true
		}
	}
	return false
}

// MethodNamed reports whether the callee is a method called `name` whose
// receiver's named type (pointer stripped) is one of recvTypes ("pkg.T").
func MethodNamed(c ssa.CallInstruction, name string, recvTypes ...string) bool {
	o := CalleeObj(c)
	if o == nil || o.Name() != name {
		return false
	}
	sig := o.Type().(*types.Signature)
	if sig.Recv() == nil {
		return false
	}
	rt := RecvTypeName(sig.Recv().Type())
	for _, t := range recvTypes {
		if rt == t {
			return true
		}
	}
	return false
}

// RecvTypeName gives "pkg/path.T" (module prefix stripped) for T or *T.
func RecvTypeName(t types.Type) string {
	if p, ok := t.(*types.Pointer); ok {
		t = p.Elem()
	}
	if n, ok := t.(*types.Named); ok {
		if n.Obj().Pkg() == nil {
			return n.Obj().Name()
		}
		return Short(n.Obj().Pkg().Path() + "." + n.Obj().Name())
	}
	return Short(t.String())
}

// Arg returns the i-th argument of a call counting from the first
// non-receiver argument, for both static method calls and invokes.
func Arg(c ssa.CallInstruction, i int) ssa.Value {
	cc := c.Common()
	args := cc.Args
	if !cc.IsInvoke() {
		if f := cc.StaticCallee(); f != nil && f.Signature.Recv() != nil {
			args = args[1:]
		} else if o := CalleeObj(c); o != nil && o.Type().(*types.Signature).Recv() != nil && len(args) > 0 {
			// synthetic thunk
			if f != nil && f.Synthetic != "" && len(f.Params) == len(args) {
				args = args[1:]
			}
		}
	}
	if i < len(args) {
		return args[i]
	}
	return nil
}

// Receiver returns the receiver value of a method call or nil.
func Receiver(c ssa.CallInstruction) ssa.Value {
	cc := c.Common()
	if cc.IsInvoke() {
		return cc.Value
	}
	if f := cc.StaticCallee(); f != nil && f.Signature.Recv() != nil && len(cc.Args) > 0 {
		return cc.Args[0]
	}
	return nil
}

// ConstString evaluates v to a string constant, looking through conversions
// string(const) and typed-string constants.
func ConstString(v ssa.Value) (string, bool) {
	switch x := v.(type) {
	case *ssa.Const:
		if x.Value != nil && x.Value.Kind() == constant.String {
			return constant.StringVal(x.Value), true
		}
	case *ssa.Convert:
		return ConstString(x.X)
	case *ssa.ChangeType:
		return ConstString(x.X)
	}
	return "", false
}

// ConstInt evaluates v to an integer constant.
func ConstInt(v ssa.Value) (int64, bool) {
	switch x := v.(type) {
	case *ssa.Const:
		if x.Value != nil && x.Value.Kind() == constant.Int {
			i, ok := constant.Int64Val(x.Value)
			return i, ok
		}
	case *ssa.Convert:
		return ConstInt(x.X)
	case *ssa.ChangeType:
		return ConstInt(x.X)
	}
	return 0, false
}

// IsNilConst reports whether v is the nil constant.
func IsNilConst(v ssa.Value) bool {
	c, ok := v.(*ssa.Const)
	return ok && c.Value == nil
}

// ---------------------------------------------------------------- value tracing

// Strip looks through value-preserving wrappers: ChangeType, MakeInterface,
// ChangeInterface, Convert between string kinds, and loads of a local alloc
// that has exactly one store.
func Strip(v ssa.Value) ssa.Value {
	for i := 0; i < 20; i++ {
		switch x := v.(type) {
		case *ssa.ChangeType:
			v = x.X
		case *ssa.MakeInterface:
			v = x.X
		case *ssa.ChangeInterface:
			v = x.X
		case *ssa.UnOp:
			if x.Op == token.MUL {
				if a, ok := x.X.(*ssa.Alloc); ok {
					if s := singleStore(a); s != nil {
						v = s
						continue
					}
				}
				// a field of a context struct (parameter object of an extracted helper) that every caller fills with
				// one and the same value: the load stands for that value of the caller
				if fa, ok := x.X.(*ssa.FieldAddr); ok {
					if _, isPar := fa.X.(*ssa.Parameter); isPar {
						if vals, ok := CtxFieldValues(fa); ok && len(vals) == 1 && !writtenInCallee(fa) {
							v = vals[0]
							continue
						}
					}
				}
			}
			return v
		default:
			return v
		}
	}
	return v
}

// singleStore: the unique value stored to a local alloc (ignoring zero init).
func singleStore(a *ssa.Alloc) ssa.Value {
	var val ssa.Value
	n := 0
	for _, r := range *a.Referrers() {
		if st, ok := r.(*ssa.Store); ok && st.Addr == a {
			n++
			val = st.Val
		}
	}
	if n == 1 {
		return val
	}
	return nil
}

// StoresTo returns all values stored to a local alloc.
func StoresTo(a *ssa.Alloc) []ssa.Value {
	var out []ssa.Value
	for _, r := range *a.Referrers() {
		if st, ok := r.(*ssa.Store); ok && st.Addr == a {
			out = append(out, st.Val)
		}
	}
	return out
}

// StoresInto returns all values stored to a local alloc or to any element /
// field address derived from it (array and struct literals).
func StoresInto(a *ssa.Alloc) []ssa.Value {
	var out []ssa.Value
	var visit func(addr ssa.Value, d int)
	visit = func(addr ssa.Value, d int) {
		if d > 4 {
			return
		}
		refs := addr.Referrers()
		if refs == nil {
			return
		}
		for _, r := range *refs {
			switch x := r.(type) {
			case *ssa.Store:
				if x.Addr == addr {
					out = append(out, x.Val)
				}
			case *ssa.IndexAddr:
				if x.X == addr {
					visit(x, d+1)
				}
			case *ssa.FieldAddr:
				if x.X == addr {
					visit(x, d+1)
				}
			}
		}
	}
	visit(a, 0)
	return out
}

// CallOf returns the call instruction producing v: v itself, the tuple behind
// an Extract, or (through Strip) the single store of a local. Also returns the
// tuple index (or -1).
func CallOf(v ssa.Value) (*ssa.Call, int) {
	v = Strip(v)
	switch x := v.(type) {
	case *ssa.Call:
		return x, -1
	case *ssa.Extract:
		if c, ok := x.Tuple.(*ssa.Call); ok {
			return c, x.Index
		}
	case *ssa.UnOp:
		// a variable that lives in memory (captured by a closure, address taken): the value stored
		// into it earlier in the same block (`err = f(); if err != nil`)
		if sv := SpilledValue(x); sv != nil {
			return CallOf(sv)
		}
	}
	return nil, -1
}

// Origins walks backwards from v through Phi, wrappers, loads of local allocs
// (all stores) and returns the set of root values. Bounded.
func Origins(v ssa.Value) []ssa.Value {
	seen := map[ssa.Value]bool{}
	var out []ssa.Value
	var walk func(v ssa.Value, d int)
	walk = func(v ssa.Value, d int) {
		if v == nil || seen[v] || d > 40 {
			return
		}
		seen[v] = true
		switch x := v.(type) {
		case *ssa.Phi:
			for _, e := range x.Edges {
				walk(e, d+1)
			}
		case *ssa.ChangeType:
			walk(x.X, d+1)
		case *ssa.MakeInterface:
			walk(x.X, d+1)
		case *ssa.ChangeInterface:
			walk(x.X, d+1)
		case *ssa.Convert:
			walk(x.X, d+1)
		case *ssa.UnOp:
			if x.Op == token.MUL {
				if a, ok := x.X.(*ssa.Alloc); ok {
					ss := StoresTo(a)
					if len(ss) > 0 {
						for _, s := range ss {
							walk(s, d+1)
						}
						return
					}
				}
			}
			out = append(out, v)
		default:
			out = append(out, v)
		}
	}
	walk(v, 0)
	return out
}

// CtxFieldValues: fa addresses a field of a *context struct* - a struct type of the module that a function allocates
// (`&T{...}` / `new(T)`), fills and hands by pointer to helpers extracted from it (parameter or receiver of the
// helper). Returns the values the callers stored into that field of the struct they pass; ok is false when fa is not
// such an access or some call site cannot be resolved (the struct is not allocated by the caller, the helper is
// called dynamically). An "extract method with a parameter object" refactoring is followed this way.
func CtxFieldValues(fa *ssa.FieldAddr) (vals []ssa.Value, ok bool) {
	return ctxFieldValues(fa, 0)
}

// CtxFieldValuesByName is CtxFieldValues for (base, field name) as condition facts report a field access.
func CtxFieldValuesByName(base ssa.Value, field string) ([]ssa.Value, bool) {
	par, ok := Strip(base).(*ssa.Parameter)
	if !ok {
		return nil, false
	}
	pt, ok := par.Type().Underlying().(*types.Pointer)
	if !ok {
		return nil, false
	}
	st, ok := pt.Elem().Underlying().(*types.Struct)
	if !ok {
		return nil, false
	}
	for i := 0; i < st.NumFields(); i++ {
		if st.Field(i).Name() == field {
			return ctxFieldValues(&ssa.FieldAddr{X: par, Field: i}, 0)
		}
	}
	return nil, false
}

func ctxFieldValues(fa *ssa.FieldAddr, depth int) (vals []ssa.Value, ok bool) {
	par, isPar := fa.X.(*ssa.Parameter)
	if !isPar || depth > 2 {
		return nil, false
	}
	pt, isPtr := par.Type().Underlying().(*types.Pointer)
	if !isPtr {
		return nil, false
	}
	named, isNamed := pt.Elem().(*types.Named)
	if !isNamed || named.Obj() == nil || named.Obj().Pkg() == nil || !InModulePath(named.Obj().Pkg().Path()) || named.Obj().Exported() {
		return nil, false
	}
	if _, isStruct := named.Underlying().(*types.Struct); !isStruct {
		return nil, false
	}
	fn := par.Parent()
	if fn == nil || TheProg == nil || !TheProg.InModule(fn) {
		return nil, false
	}
	pi := -1
	for i, q := range fn.Params {
		if q == par {
			pi = i
		}
	}
	sitesOf := StaticSitesOf(fn)
	var passed []ssa.Value
	for _, site := range sitesOf {
		args := site.Common().Args
		if pi >= len(args) {
			return nil, false
		}
		passed = append(passed, args[pi])
	}
	if pi == 0 {
		// the receiver of a method value (x.m used as a callback)
		passed = append(passed, BoundReceiversOf(fn)...)
	}
	if pi < 0 || len(passed) == 0 {
		return nil, false
	}
	for _, pv := range passed {
		switch a := Strip(pv).(type) {
		case *ssa.Alloc:
			for _, r := range *a.Referrers() {
				f2, isFA := r.(*ssa.FieldAddr)
				if !isFA || f2.X != ssa.Value(a) || f2.Field != fa.Field {
					continue
				}
				for _, rr := range *f2.Referrers() {
					if st, isSt := rr.(*ssa.Store); isSt && st.Addr == ssa.Value(f2) {
						vals = append(vals, st.Val)
					}
				}
			}
		case *ssa.Parameter:
			// the context is handed on by an intermediate helper
			sub, subOK := ctxFieldValues(&ssa.FieldAddr{X: a, Field: fa.Field}, depth+1)
			if !subOK {
				return nil, false
			}
			vals = append(vals, sub...)
		default:
			return nil, false
		}
	}
	return vals, true
}

// Mentions reports whether pred holds for v or anything v is computed from
// (operands, transitively, through phis, calls' arguments, field/index
// addressing and loads of local allocs). Bounded depth.
func Mentions(v ssa.Value, pred func(ssa.Value) bool) bool {
	seen := map[ssa.Value]bool{}
	var walk func(v ssa.Value, d int) bool
	walk = func(v ssa.Value, d int) bool {
		if v == nil || seen[v] || d > 25 {
			return false
		}
		seen[v] = true
		if pred(v) {
			return true
		}
		if a, ok := v.(*ssa.Alloc); ok {
			for _, s := range StoresInto(a) {
				if walk(s, d+1) {
					return true
				}
			}
			return false
		}
		if fa, ok := v.(*ssa.FieldAddr); ok {
			if vals, ok := CtxFieldValues(fa); ok {
				for _, cv := range vals {
					if walk(cv, d+1) {
						return true
					}
				}
			}
		}
		if fv, ok := v.(*ssa.FreeVar); ok {
			// a variable captured by a closure: what the enclosing function stored into it
			// (`limit := d.Nanoseconds()` hoisted out of an iteration callback)
			if id := VarIdentity(fv); id != nil && id != ssa.Value(fv) {
				return walk(id, d+1)
			}
			return false
		}
		in, ok := v.(ssa.Instruction)
		if !ok {
			return false
		}
		for _, op := range in.Operands(nil) {
			if op != nil && *op != nil && walk(*op, d+1) {
				return true
			}
		}
		return false
	}
	return walk(v, 0)
}

// MentionsThroughCalls is Mentions with one refinement: the result of a static call to a source function is followed
// only into the arguments that result can depend on (by data flow inside the callee: the returned value at that
// result index mentions the parameter), instead of into every argument. inScope says which callees are looked
// into; all others are treated as by Mentions.
func MentionsThroughCalls(v ssa.Value, pred func(ssa.Value) bool, inScope func(*ssa.Function) bool) bool {
	seen := map[ssa.Value]bool{}
	deps := func(g *ssa.Function, idx int) map[int]bool {
		out := map[int]bool{}
		for _, b := range g.Blocks {
			ret, ok := b.Instrs[len(b.Instrs)-1].(*ssa.Return)
			if !ok || idx >= len(ret.Results) {
				continue
			}
			for pi, p := range g.Params {
				pp := p
				if Mentions(ret.Results[idx], func(w ssa.Value) bool { return w == ssa.Value(pp) }) {
					out[pi] = true
				}
			}
		}
		return out
	}
	var walk func(v ssa.Value, d int) bool
	walkCall := func(c *ssa.Call, idx int, d int) (bool, bool) {
		g := c.Call.StaticCallee()
		if g == nil || len(g.Blocks) == 0 || g.Recover != nil || inScope == nil || !inScope(g) || len(g.Params) != len(c.Call.Args) {
			return false, false
		}
		for pi := range deps(g, idx) {
			if walk(c.Call.Args[pi], d+1) {
				return true, true
			}
		}
		return false, true
	}
	walk = func(v ssa.Value, d int) bool {
		if v == nil || seen[v] || d > 25 {
			return false
		}
		seen[v] = true
		if pred(v) {
			return true
		}
		if a, ok := v.(*ssa.Alloc); ok {
			for _, s := range StoresInto(a) {
				if walk(s, d+1) {
					return true
				}
			}
			return false
		}
		if ex, ok := v.(*ssa.Extract); ok {
			if c, ok := ex.Tuple.(*ssa.Call); ok {
				if res, handled := walkCall(c, ex.Index, d); handled {
					return res
				}
			}
		}
		if c, ok := v.(*ssa.Call); ok && c.Call.Signature().Results().Len() == 1 {
			if res, handled := walkCall(c, 0, d); handled {
				return res
			}
		}
		if fa, ok := v.(*ssa.FieldAddr); ok {
			if vals, ok := CtxFieldValues(fa); ok {
				for _, cv := range vals {
					if walk(cv, d+1) {
						return true
					}
				}
			}
		}
		in, ok := v.(ssa.Instruction)
		if !ok {
			return false
		}
		for _, op := range in.Operands(nil) {
			if op != nil && *op != nil && walk(*op, d+1) {
				return true
			}
		}
		return false
	}
	return walk(v, 0)
}

// IsCallNamed is a Mentions predicate builder: v is a call to one of names.
func IsCallNamed(names ...string) func(ssa.Value) bool {
	return func(v ssa.Value) bool {
		c, ok := v.(*ssa.Call)
		return ok && NameIs(c, names...)
	}
}

// FieldPath describes an address/value as a field path rooted at a parameter,
// receiver, or other value: e.g. "recv.priorityIndex.data". Returns "" when
// not a pure field path.
func FieldPath(v ssa.Value) string {
	var parts []string
	for i := 0; i < 20; i++ {
		switch x := v.(type) {
		case *ssa.FieldAddr:
			parts = append([]string{fieldName(x.X.Type(), x.Field)}, parts...)
			v = x.X
		case *ssa.Field:
			parts = append([]string{fieldName(x.X.Type(), x.Field)}, parts...)
			v = x.X
		case *ssa.UnOp:
			if x.Op != token.MUL {
				return ""
			}
			v = x.X
		case *ssa.Parameter:
			return strings.Join(append([]string{x.Name()}, parts...), ".")
		case *ssa.FreeVar:
			return strings.Join(append([]string{x.Name()}, parts...), ".")
		case *ssa.Alloc:
			return strings.Join(append([]string{"local"}, parts...), ".")
		default:
			if len(parts) == 0 {
				return ""
			}
			return strings.Join(append([]string{"?"}, parts...), ".")
		}
	}
	return ""
}

func fieldName(t types.Type, i int) string {
	if p, ok := t.Underlying().(*types.Pointer); ok {
		t = p.Elem()
	}
	if s, ok := t.Underlying().(*types.Struct); ok && i < s.NumFields() {
		return s.Field(i).Name()
	}
	return "?"
}

// FieldOf: if v is (a load of) a FieldAddr / Field, returns owner type name
// ("pkg.T") and field name.
func FieldOf(v ssa.Value) (owner, field string, base ssa.Value, ok bool) {
	// a field of a context struct that stands for one value of the caller (see Strip): d.origin = &o.originState
	if u, isU := v.(*ssa.UnOp); isU && u.Op == token.MUL {
		if fa, isFA := u.X.(*ssa.FieldAddr); isFA {
			if _, isPar := fa.X.(*ssa.Parameter); isPar {
				if vals, okC := CtxFieldValues(fa); okC && len(vals) == 1 && !writtenInCallee(fa) {
					if _, isAddr := vals[0].(*ssa.FieldAddr); isAddr {
						v = vals[0]
					}
				}
			}
		}
	}
	if u, isU := v.(*ssa.UnOp); isU && u.Op == token.MUL {
		v = u.X
	}
	switch x := v.(type) {
	case *ssa.FieldAddr:
		return RecvTypeName(x.X.Type()), fieldName(x.X.Type(), x.Field), x.X, true
	case *ssa.Field:
		return RecvTypeName(x.X.Type()), fieldName(x.X.Type(), x.Field), x.X, true
	case *ssa.Call:
		// a field accessor of the module (`func (o *T) ensureF() *F { if o.f == nil { o.f = ... }; return o.f }`)
		// stands for the load of that field of its receiver argument
		if fa := accessorField(x.Call.StaticCallee()); fa != nil && len(x.Call.Args) > 0 {
			return RecvTypeName(fa.X.Type()), fieldName(fa.X.Type(), fa.Field), x.Call.Args[0], true
		}
	}
	return "", "", nil, false
}

var accessorMemo = map[*ssa.Function]*ssa.FieldAddr{}

// accessorField: g is a method of the module with one result, every return of which yields the current value of one
// field of its receiver (loaded after whatever lazy initialisation the method performs). Returns that field access.
func accessorField(g *ssa.Function) *ssa.FieldAddr {
	if g == nil || len(g.Blocks) == 0 || g.Signature.Recv() == nil || g.Signature.Results().Len() != 1 || len(g.Params) == 0 {
		return nil
	}
	if TheProg == nil || !TheProg.InModule(g) {
		return nil
	}
	if fa, ok := accessorMemo[g]; ok {
		return fa
	}
	var found *ssa.FieldAddr
	okAll := true
	for _, b := range g.Blocks {
		ret, isRet := b.Instrs[len(b.Instrs)-1].(*ssa.Return)
		if !isRet {
			continue
		}
		u, isU := ret.Results[0].(*ssa.UnOp)
		if !isU || u.Op != token.MUL {
			okAll = false
			break
		}
		fa, isFA := u.X.(*ssa.FieldAddr)
		if !isFA || fa.X != ssa.Value(g.Params[0]) || (found != nil && found.Field != fa.Field) {
			okAll = false
			break
		}
		found = fa
	}
	if !okAll {
		found = nil
	}
	accessorMemo[g] = found
	return found
}

// VarIdentity resolves a value to the local variable (Alloc) it is a load of,
// looking through closure captures: a FreeVar of an anonymous function is
// mapped to the binding of the MakeClosure that created it. Returns nil when
// v is not a variable load.
func VarIdentity(v ssa.Value) ssa.Value {
	for i := 0; i < 6; i++ {
		switch x := v.(type) {
		case *ssa.UnOp:
			if x.Op != token.MUL {
				return nil
			}
			v = x.X
		case *ssa.MakeInterface:
			v = x.X
		case *ssa.ChangeType:
			v = x.X
		case *ssa.Alloc:
			return x
		case *ssa.FreeVar:
			fn := x.Parent()
			if fn == nil || fn.Parent() == nil {
				return x
			}
			idx := -1
			for i, fv := range fn.FreeVars {
				if fv == x {
					idx = i
				}
			}
			found := false
			for _, b := range fn.Parent().Blocks {
				for _, in := range b.Instrs {
					if mc, ok := in.(*ssa.MakeClosure); ok && mc.Fn == ssa.Value(fn) && idx >= 0 && idx < len(mc.Bindings) {
						v = mc.Bindings[idx]
						found = true
					}
				}
			}
			if !found {
				return x
			}
		default:
			return nil
		}
	}
	return nil
}

// StoreInstrsInto: the store instructions that write the variable a itself (not its fields / elements).
func StoreInstrsInto(a *ssa.Alloc) []*ssa.Store {
	var out []*ssa.Store
	if a.Referrers() == nil {
		return nil
	}
	for _, r := range *a.Referrers() {
		if st, ok := r.(*ssa.Store); ok && st.Addr == ssa.Value(a) {
			out = append(out, st)
		}
	}
	return out
}

// FuncValueTarget: the source function a function value denotes: a closure literal, a named function, or - for a
// method value `x.m` - the method behind go/ssa's synthetic bound-method wrapper.
func FuncValueTarget(v ssa.Value) *ssa.Function {
	var fn *ssa.Function
	switch x := v.(type) {
	case *ssa.MakeClosure:
		fn, _ = x.Fn.(*ssa.Function)
	case *ssa.Function:
		fn = x
	case *ssa.ChangeType:
		return FuncValueTarget(x.X)
	}
	if fn == nil {
		return nil
	}
	if fn.Synthetic != "" && strings.HasSuffix(fn.Name(), "$bound") {
		for _, b := range fn.Blocks {
			for _, in := range b.Instrs {
				if c, ok := in.(ssa.CallInstruction); ok {
					if g := c.Common().StaticCallee(); g != nil {
						return g
					}
				}
			}
		}
		return nil
	}
	return fn
}

// ReturnedFieldValues: v is (a load of) field f of a struct that a module function returned (a result object such as
// `info, err := loadSubmitInfo()` ... `info.electorate`). Returns the values that function stored into field f of
// the struct it allocates and returns; ok is false when v is not such an access or the returned struct is not
// allocated in the callee.
func ReturnedFieldValues(v ssa.Value) (vals []ssa.Value, ok bool) {
	v = Strip(v)
	u, isU := v.(*ssa.UnOp)
	if !isU || u.Op != token.MUL {
		return nil, false
	}
	fa, isFA := u.X.(*ssa.FieldAddr)
	if !isFA {
		return nil, false
	}
	call, idx := CallOf(fa.X)
	if call == nil {
		return nil, false
	}
	g := call.Call.StaticCallee()
	if g == nil || len(g.Blocks) == 0 || TheProg == nil || !TheProg.InModule(g) {
		return nil, false
	}
	if idx < 0 {
		idx = 0
	}
	found := false
	for _, b := range g.Blocks {
		ret, isRet := b.Instrs[len(b.Instrs)-1].(*ssa.Return)
		if !isRet || idx >= len(ret.Results) {
			continue
		}
		for _, o := range RetOrigins(ret.Results[idx]) {
			switch a := Strip(o.V).(type) {
			case *ssa.Const:
				// nil on the failure returns
			case *ssa.Alloc:
				found = true
				for _, r := range *a.Referrers() {
					f2, isF2 := r.(*ssa.FieldAddr)
					if !isF2 || f2.X != ssa.Value(a) || f2.Field != fa.Field {
						continue
					}
					for _, rr := range *f2.Referrers() {
						if st, isSt := rr.(*ssa.Store); isSt && st.Addr == ssa.Value(f2) {
							vals = append(vals, st.Val)
						}
					}
				}
			default:
				return nil, false
			}
		}
	}
	return vals, found
}

// writtenInCallee: some function that receives the context struct stores into the field itself (then the caller's
// value is not the only one the load can see).
func writtenInCallee(fa *ssa.FieldAddr) bool {
	par, ok := fa.X.(*ssa.Parameter)
	if !ok || par.Parent() == nil {
		return true
	}
	for _, b := range par.Parent().Blocks {
		for _, in := range b.Instrs {
			st, ok := in.(*ssa.Store)
			if !ok {
				continue
			}
			if f2, ok := st.Addr.(*ssa.FieldAddr); ok && f2.Field == fa.Field && f2.X == fa.X {
				return true
			}
		}
	}
	return false
}
