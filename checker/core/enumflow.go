package core

import (
	"go/token"
	"go/types"
	"sort"
	"strings"

	"golang.org/x/tools/go/ssa"
)

// ---------------------------------------------------------------- enum-field refinement
//
// A small forward dataflow: for one tracked object (an SSA value `base` that
// points to / is a struct with an enum-typed field F), compute at every
// program point the set of constants F may hold, refined by the comparisons
// the code makes (== / != / switch) and reset by stores and by calls that may
// write the field. Used for "status S is only overwritten when it was X"
// obligations (C04, C15, C16).

// EnumSet is a set of constant values (as printed by constant.ExactString for
// ints, raw string for strings); Top means "anything".
type EnumSet struct {
	Top  bool
	Vals map[string]bool
}

func TopSet() EnumSet { return EnumSet{Top: true} }
func (s EnumSet) clone() EnumSet {
	if s.Top {
		return EnumSet{Top: true}
	}
	m := map[string]bool{}
	for k := range s.Vals {
		m[k] = true
	}
	return EnumSet{Vals: m}
}
func (s EnumSet) String() string {
	if s.Top {
		return "{*}"
	}
	var v []string
	for k := range s.Vals {
		v = append(v, k)
	}
	sort.Strings(v)
	return "{" + strings.Join(v, ",") + "}"
}

// Intersects reports whether s may contain one of vals.
func (s EnumSet) Intersects(vals ...string) bool {
	if s.Top {
		return true
	}
	for _, v := range vals {
		if s.Vals[v] {
			return true
		}
	}
	return false
}
func (s EnumSet) IsBottom() bool { return !s.Top && len(s.Vals) == 0 }

func join(a, b EnumSet) EnumSet {
	if a.Top || b.Top {
		return TopSet()
	}
	m := map[string]bool{}
	for k := range a.Vals {
		m[k] = true
	}
	for k := range b.Vals {
		m[k] = true
	}
	return EnumSet{Vals: m}
}
func equal(a, b EnumSet) bool {
	if a.Top != b.Top || len(a.Vals) != len(b.Vals) {
		return false
	}
	for k := range a.Vals {
		if !b.Vals[k] {
			return false
		}
	}
	return true
}

// EnumFlow configures the analysis.
type EnumFlow struct {
	Field    string   // field name, e.g. "Status"
	Universe []string // all constant values of the field's type (plus "" / other is implicit in Top only)
	// SameObject decides whether value v denotes the tracked object `base`.
	// Default: identical SSA value after Strip.
	// CallResets: does this call (which mentions base among its operands) possibly
	// write the field? Default: every call except those in PureCalls.
	PureCalls map[string]bool
	// Post: postcondition summaries of helper functions: for callee f and
	// parameter index k, the set the field may hold when f returns success.
	Post func(callee *ssa.Function, argIdx int) (EnumSet, Conv, int, bool)

	noWrite map[*ssa.Function]int
}

// UniverseOf lists the constant values of named type t in its package.
func UniverseOf(t types.Type) []string {
	nt, ok := t.(*types.Named)
	if !ok || nt.Obj().Pkg() == nil {
		return nil
	}
	var out []string
	sc := nt.Obj().Pkg().Scope()
	for _, n := range sc.Names() {
		if k, ok := sc.Lookup(n).(*types.Const); ok && types.Identical(k.Type(), nt) {
			out = append(out, constKey(k.Val().ExactString()))
		}
	}
	sort.Strings(out)
	return out
}

func constKey(exact string) string {
	// string constants print quoted
	if len(exact) >= 2 && exact[0] == '"' {
		return strings.Trim(exact, "\"")
	}
	return exact
}

// EnumResult holds per-instruction states.
type EnumResult struct {
	before map[ssa.Instruction]EnumSet
	ret    map[*ssa.Return]EnumSet
}

// At returns the state just before instruction in.
func (r *EnumResult) At(in ssa.Instruction) EnumSet {
	if s, ok := r.before[in]; ok {
		return s
	}
	return EnumSet{Vals: map[string]bool{}} // unreachable
}

func (ef *EnumFlow) isBase(v, base ssa.Value) bool { return Strip(v) == Strip(base) }

// Run analyses fn for the object base, starting with state `entry`.
func (ef *EnumFlow) Run(fn *ssa.Function, base ssa.Value, entry EnumSet) *EnumResult {
	res := &EnumResult{before: map[ssa.Instruction]EnumSet{}, ret: map[*ssa.Return]EnumSet{}}
	in := map[*ssa.BasicBlock]EnumSet{}
	has := map[*ssa.BasicBlock]bool{}
	in[fn.Blocks[0]] = entry
	has[fn.Blocks[0]] = true
	work := []*ssa.BasicBlock{fn.Blocks[0]}
	universe := map[string]bool{}
	for _, u := range ef.Universe {
		universe[u] = true
	}
	for len(work) > 0 {
		b := work[0]
		work = work[1:]
		st := in[b].clone()
		for _, ins := range b.Instrs {
			res.before[ins] = st.clone()
			st = ef.transfer(ins, base, st)
		}
		// edges
		for si, s := range b.Succs {
			out := ef.refineEdge(b, si, base, st, universe)
			if out.IsBottom() {
				continue
			}
			var n EnumSet
			if has[s] {
				n = join(in[s], out)
			} else {
				n = out
			}
			if !has[s] || !equal(n, in[s]) {
				in[s] = n
				has[s] = true
				work = append(work, s)
			}
		}
	}
	return res
}

func (ef *EnumFlow) transfer(ins ssa.Instruction, base ssa.Value, st EnumSet) EnumSet {
	switch x := ins.(type) {
	case *ssa.Store:
		if fa, ok := x.Addr.(*ssa.FieldAddr); ok && fieldName(fa.X.Type(), fa.Field) == ef.Field && ef.isBase(fa.X, base) {
			if c, ok := x.Val.(*ssa.Const); ok && c.Value != nil {
				return EnumSet{Vals: map[string]bool{constKey(c.Value.ExactString()): true}}
			}
			return TopSet()
		}
		// whole-struct store through the pointer
		if ef.isBase(x.Addr, base) {
			return TopSet()
		}
	case ssa.CallInstruction:
		mentions := false
		for _, a := range x.Common().Args {
			// only the pointer itself (or a closure capturing it) lets the callee
			// write the field; values loaded from the object are copies
			if ef.isBase(a, base) {
				mentions = true
			}
			if mc, ok := a.(*ssa.MakeClosure); ok {
				for _, bnd := range mc.Bindings {
					if ef.isBase(bnd, base) {
						mentions = true
					}
				}
			}
		}
		if x.Common().IsInvoke() && ef.isBase(x.Common().Value, base) {
			mentions = true
		}
		if !mentions {
			return st
		}
		if ef.PureCalls[CalleeName(x)] {
			return st
		}
		// a source helper that never stores the tracked field (nor hands its pointer arguments on to code that could)
		// leaves the state as it is: extracting bookkeeping into a helper does not forget what is known about the object
		if g := StaticCallee(x); g != nil && ef.neverWritesField(g, 0) {
			return st
		}
		return TopSet()
	}
	return st
}

// neverWritesField: g and the source functions it calls statically (three levels) contain no store to a field named
// ef.Field and no whole-struct store through a pointer parameter; calls that cannot be resolved and receive a pointer
// to a struct with that field count as writers.
func (ef *EnumFlow) neverWritesField(g *ssa.Function, d int) bool {
	if ef.noWrite == nil {
		ef.noWrite = map[*ssa.Function]int{}
	}
	switch ef.noWrite[g] {
	case 1:
		return true
	case 2:
		return false
	}
	if len(g.Blocks) == 0 || d > 3 {
		return false
	}
	ef.noWrite[g] = 1 // recursion: assume
	hasField := func(t types.Type) bool {
		if p, ok := t.Underlying().(*types.Pointer); ok {
			if st, ok := p.Elem().Underlying().(*types.Struct); ok {
				for i := 0; i < st.NumFields(); i++ {
					if st.Field(i).Name() == ef.Field {
						return true
					}
				}
			}
		}
		return false
	}
	ok := true
	var fns []*ssa.Function
	var collect func(f *ssa.Function)
	collect = func(f *ssa.Function) {
		fns = append(fns, f)
		for _, a := range f.AnonFuncs {
			collect(a)
		}
	}
	collect(g)
	for _, f := range fns {
		for _, b := range f.Blocks {
			for _, in := range b.Instrs {
				switch x := in.(type) {
				case *ssa.Store:
					if fa, isFA := x.Addr.(*ssa.FieldAddr); isFA && fieldName(fa.X.Type(), fa.Field) == ef.Field {
						ok = false
					}
					if _, isParam := x.Addr.(*ssa.Parameter); isParam && hasField(x.Addr.Type()) {
						ok = false
					}
				case ssa.CallInstruction:
					passes := false
					for _, a := range x.Common().Args {
						if hasField(a.Type()) {
							passes = true
						}
					}
					if x.Common().IsInvoke() && hasField(x.Common().Value.Type()) {
						passes = true
					}
					if !passes || ef.PureCalls[CalleeName(x)] {
						continue
					}
					h := StaticCallee(x)
					if h == nil || !ef.neverWritesField(h, d+1) {
						ok = false
					}
				}
			}
		}
	}
	if ok {
		ef.noWrite[g] = 1
	} else {
		ef.noWrite[g] = 2
	}
	return ok
}

// refineEdge applies the branch condition of b's terminator on edge si.
func (ef *EnumFlow) refineEdge(b *ssa.BasicBlock, si int, base ssa.Value, st EnumSet, universe map[string]bool) EnumSet {
	ifi := IfOf(b)
	if ifi == nil {
		return st
	}
	st = ef.refineFact(CondFact(ifi.Cond), si, base, st, universe)
	// a short-circuit condition evaluated as a value (ended := s == A || s == B; if ended ..): on the edge that
	// determines every operand, each operand refines the state as its own branch would
	if edge, parts, ok := LogicalParts(ifi); ok && si == edge {
		for _, p := range parts {
			psi := 1
			if p.Truth {
				psi = 0
			}
			st = ef.refineFact(CondFact(p.V), psi, base, st, universe)
		}
	}
	return st
}

// refineFact applies one condition fact on the edge si (0: the condition is true) of its branch.
func (ef *EnumFlow) refineFact(f Fact, si int, base ssa.Value, st EnumSet, universe map[string]bool) EnumSet {
	// helper postcondition: if !h(.., base, ..).Ok / err != nil ...
	if ef.Post != nil {
		if call, idx := CallOf(f.Subject); call != nil {
			if callee := StaticCallee(call); callee != nil {
				for ai, a := range call.Call.Args {
					if !ef.isBase(a, base) {
						continue
					}
					post, conv, vidx, ok := ef.Post(unwrapSynthetic(callee), ai)
					if !ok {
						continue
					}
					if callee.Signature.Results().Len() == 1 {
						vidx = -1
					}
					if vidx != idx && !(vidx < 0 && idx < 0) {
						continue
					}
					pass, decided := false, false
					switch {
					case conv == ConvErrNil && f.Kind == FNil:
						pass, decided = !f.Negated, true
					case conv == ConvRespOk && f.Kind == FOk:
						pass, decided = !f.Negated, true
					case conv == ConvBoolTrue && f.Kind == FBool:
						pass, decided = !f.Negated, true
					}
					if decided {
						onPassEdge := (pass && si == 0) || (!pass && si == 1)
						if onPassEdge {
							return post
						}
					}
				}
			}
		}
	}
	if f.Kind != FEqConst || f.Field != ef.Field || !ef.isBase(f.Subject, base) {
		return st
	}
	if f.Op != token.EQL && f.Op != token.NEQ {
		return st
	}
	c := f.Const
	eqHolds := (si == 0) != f.Negated // on this edge, field == c ?
	if eqHolds {
		if st.Top || st.Vals[c] {
			return EnumSet{Vals: map[string]bool{c: true}}
		}
		return EnumSet{Vals: map[string]bool{}}
	}
	// field != c
	if st.Top {
		if len(universe) == 0 {
			return st
		}
		m := map[string]bool{"*other*": true}
		for u := range universe {
			if u != c {
				m[u] = true
			}
		}
		return EnumSet{Vals: m}
	}
	n := st.clone()
	delete(n.Vals, c)
	return n
}
