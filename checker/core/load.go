// Package core holds the engines shared by all rules: loader and program model
// (E1), SSA/CFG path queries (E3), effect summaries (E4), table extraction
// helpers (E6) and the obligation/evidence/known-finding plumbing.
package core

import (
	"fmt"
	"go/ast"
	"go/token"
	"go/types"
	"os"
	"path/filepath"
	"sort"
	"strings"

	"golang.org/x/tools/go/packages"
	"golang.org/x/tools/go/ssa"
	"golang.org/x/tools/go/ssa/ssautil"
)

const Module = "github.com/meshplus/bitxhub"

// Prog is the loaded, type-checked program of /repo plus its dependencies.
type Prog struct {
	RepoDir  string
	Fset     *token.FileSet
	Pkgs     []*packages.Package          // packages of the module (./...)
	All      map[string]*packages.Package // every package reachable, by path
	SSA      *ssa.Program
	funcDecl map[*types.Func]*ast.FuncDecl
	declPkg  map[*ast.FuncDecl]*packages.Package
	allFns   []*ssa.Function // every source-level function (incl. anonymous) of module packages
	fnsIn    map[*ssa.Function]bool
}

// Load loads ./... of repoDir with full syntax for all dependencies and builds
// SSA for everything. Type errors in module packages are fatal.
func Load(repoDir string) (*Prog, error) {
	os.Unsetenv("GOWORK")
	cfg := &packages.Config{
		Mode: packages.LoadAllSyntax,
		Dir:  repoDir,
		Env: append(os.Environ(), "GOFLAGS=-mod=mod", "GOPROXY=off", "GOSUMDB=off",
			"GOTOOLCHAIN=local", "GOWORK=off"),
	}
	pkgs, err := packages.Load(cfg, "./...")
	if err != nil {
		return nil, fmt.Errorf("packages.Load: %w", err)
	}
	if len(pkgs) == 0 {
		return nil, fmt.Errorf("no packages loaded from %s", repoDir)
	}
	p := &Prog{RepoDir: repoDir, Pkgs: pkgs, All: map[string]*packages.Package{},
		funcDecl: map[*types.Func]*ast.FuncDecl{}, declPkg: map[*ast.FuncDecl]*packages.Package{},
		fnsIn: map[*ssa.Function]bool{}}
	var terrs []string
	packages.Visit(pkgs, nil, func(pk *packages.Package) {
		p.All[pk.PkgPath] = pk
		if InModulePath(pk.PkgPath) {
			for _, e := range pk.Errors {
				terrs = append(terrs, e.Error())
			}
		}
	})
	if len(terrs) > 0 {
		sort.Strings(terrs)
		if len(terrs) > 10 {
			terrs = terrs[:10]
		}
		return nil, fmt.Errorf("type/load errors in module packages:\n  %s", strings.Join(terrs, "\n  "))
	}
	p.Fset = pkgs[0].Fset
	prog, _ := ssautil.AllPackages(pkgs, ssa.GlobalDebug)
	prog.Build()
	p.SSA = prog
	// index declarations of module packages and of the dependencies we read tables from
	for _, pk := range p.All {
		if pk.TypesInfo == nil {
			continue
		}
		for _, f := range pk.Syntax {
			for _, d := range f.Decls {
				if fd, ok := d.(*ast.FuncDecl); ok {
					if obj, ok := pk.TypesInfo.Defs[fd.Name].(*types.Func); ok {
						p.funcDecl[obj] = fd
						p.declPkg[fd] = pk
					}
				}
			}
		}
	}
	for fn := range ssautil.AllFunctions(prog) {
		if fn.Pkg == nil || fn.Synthetic != "" {
			// anonymous functions have Pkg set; wrappers are synthetic
			if fn.Parent() == nil {
				continue
			}
		}
		pk := fn.Package()
		if pk == nil || pk.Pkg == nil || !InModulePath(pk.Pkg.Path()) {
			continue
		}
		if fn.Blocks == nil {
			continue
		}
		if fn.Synthetic != "" {
			continue
		}
		p.allFns = append(p.allFns, fn)
		p.fnsIn[fn] = true
	}
	sort.Slice(p.allFns, func(i, j int) bool { return FnName(p.allFns[i]) < FnName(p.allFns[j]) })
	TheProg = p
	staticSites = nil
	boundRecvs = nil
	return p, nil
}

// TheProg is the program loaded last: the value-following helpers (Mentions, CtxFieldValues) need the static call
// sites of a function and have no Prog parameter.
var TheProg *Prog

var staticSites map[*ssa.Function][]ssa.CallInstruction

// boundRecvs: for a method used as a method value (x.m handed over as a function), the receivers bound there.
var boundRecvs map[*ssa.Function][]ssa.Value

// BoundReceiversOf: the receiver values of the method values of fn created in the module.
func BoundReceiversOf(fn *ssa.Function) []ssa.Value {
	StaticSitesOf(fn)
	return boundRecvs[fn]
}

// StaticSitesOf: the static call sites (call, go, defer) of fn in the module's source functions.
func StaticSitesOf(fn *ssa.Function) []ssa.CallInstruction {
	if TheProg == nil {
		return nil
	}
	if staticSites == nil {
		staticSites = map[*ssa.Function][]ssa.CallInstruction{}
		boundRecvs = map[*ssa.Function][]ssa.Value{}
		for _, f := range TheProg.allFns {
			for _, b := range f.Blocks {
				for _, in := range b.Instrs {
					if ci, ok := in.(ssa.CallInstruction); ok {
						if g := ci.Common().StaticCallee(); g != nil {
							staticSites[g] = append(staticSites[g], ci)
						}
					}
					if mc, ok := in.(*ssa.MakeClosure); ok && len(mc.Bindings) == 1 {
						if w, _ := mc.Fn.(*ssa.Function); w != nil && w.Synthetic != "" && strings.HasSuffix(w.Name(), "$bound") {
							if t := FuncValueTarget(mc); t != nil && t != w {
								boundRecvs[t] = append(boundRecvs[t], mc.Bindings[0])
							}
						}
					}
				}
			}
		}
	}
	return staticSites[fn]
}

// InModulePath: path is the module itself or one of its packages (not a
// sibling module sharing the name prefix such as bitxhub-model).
func InModulePath(path string) bool {
	return path == Module || strings.HasPrefix(path, Module+"/")
}

// ModuleFuncs returns all source functions (including closures) of module
// packages, excluding tests (not loaded) and mock/tester packages when
// skipAux is set.
func (p *Prog) ModuleFuncs(skipAux bool) []*ssa.Function {
	if !skipAux {
		return p.allFns
	}
	var out []*ssa.Function
	for _, f := range p.allFns {
		if IsAuxPkg(f.Package().Pkg.Path()) {
			continue
		}
		out = append(out, f)
	}
	return out
}

// IsAuxPkg: mocks, testers, generated protobuf and CLI packages that are not
// part of a running node's consensus path.
func IsAuxPkg(path string) bool {
	for _, s := range []string{"/mock_", "/tester", "/cmd/", "/imports"} {
		if strings.Contains(path, s) {
			return true
		}
	}
	return false
}

// Pos renders a position relative to the repository (or module cache) root.
func (p *Prog) Pos(pos token.Pos) string {
	if !pos.IsValid() {
		return "-"
	}
	ps := p.Fset.Position(pos)
	f := ps.Filename
	if rel, err := filepath.Rel(p.RepoDir, f); err == nil && !strings.HasPrefix(rel, "..") {
		f = rel
	} else if i := strings.Index(f, "/pkg/mod/"); i >= 0 {
		f = f[i+len("/pkg/mod/"):]
	}
	return fmt.Sprintf("%s:%d", f, ps.Line)
}

// expand turns "internal/x" into the full module path; full paths stay.
func expand(pkg string) string {
	if strings.HasPrefix(pkg, "internal/") || strings.HasPrefix(pkg, "pkg/") || strings.HasPrefix(pkg, "api/") {
		return Module + "/" + pkg
	}
	return pkg
}

// Package returns the loaded package or nil.
func (p *Prog) Package(path string) *packages.Package { return p.All[expand(path)] }

// Fn resolves "pkgpath.Func", "pkgpath.(*T).M" or "pkgpath.(T).M" to its SSA
// function; nil when the anchor does not resolve.
func (p *Prog) Fn(spec string) *ssa.Function {
	pkgPath, recv, name, ptr := splitSpec(spec)
	pk := p.All[expand(pkgPath)]
	if pk == nil || pk.Types == nil {
		return nil
	}
	sp := p.SSA.Package(pk.Types)
	if sp == nil {
		return nil
	}
	if recv == "" {
		return sp.Func(name)
	}
	obj, _ := pk.Types.Scope().Lookup(recv).(*types.TypeName)
	if obj == nil {
		return nil
	}
	var T types.Type = obj.Type()
	if ptr {
		T = types.NewPointer(T)
	}
	sel := p.SSA.MethodSets.MethodSet(T).Lookup(pk.Types, name)
	if sel == nil {
		// try the other receiver kind
		if ptr {
			sel = p.SSA.MethodSets.MethodSet(obj.Type()).Lookup(pk.Types, name)
		} else {
			sel = p.SSA.MethodSets.MethodSet(types.NewPointer(obj.Type())).Lookup(pk.Types, name)
		}
		if sel == nil {
			return nil
		}
	}
	fn := p.SSA.MethodValue(sel)
	// unwrap promoted-method wrappers: we want the declared body only if the
	// method is declared on T itself
	return fn
}

func splitSpec(spec string) (pkg, recv, name string, ptr bool) {
	if i := strings.Index(spec, ".("); i >= 0 {
		pkg = spec[:i]
		rest := spec[i+2:]
		j := strings.Index(rest, ").")
		recv = rest[:j]
		name = rest[j+2:]
		if strings.HasPrefix(recv, "*") {
			ptr = true
			recv = recv[1:]
		}
		return
	}
	i := strings.LastIndex(spec, ".")
	return spec[:i], "", spec[i+1:], false
}

// Decl returns the syntax of a function object.
func (p *Prog) Decl(obj *types.Func) *ast.FuncDecl { return p.funcDecl[obj] }

// DeclOf returns syntax and package of an SSA function declared in source.
func (p *Prog) DeclOf(fn *ssa.Function) (*ast.FuncDecl, *packages.Package) {
	if fn == nil {
		return nil, nil
	}
	obj, _ := fn.Object().(*types.Func)
	if obj == nil {
		return nil, nil
	}
	fd := p.funcDecl[obj]
	if fd == nil {
		return nil, nil
	}
	return fd, p.declPkg[fd]
}

// FnName is the canonical, position-free name of a function: FullName of the
// object, with the module prefix shortened; closures get parent$N.
func FnName(fn *ssa.Function) string {
	if fn == nil {
		return "<nil>"
	}
	s := fn.String()
	return Short(s)
}

// Short strips the module prefix from canonical names.
func Short(s string) string {
	s = strings.ReplaceAll(s, Module+"/", "")
	return s
}

// WithClosures returns fn and all functions nested in it.
func WithClosures(fn *ssa.Function) []*ssa.Function {
	return withClosures(fn, map[*ssa.Function]bool{})
}

// withClosures: fn, the functions nested in it, and - like a closure literal - the methods of the module that fn
// uses as function values through a method value of a helper object it creates (`m.Range(w.visit)`): a callback
// written as a method of a small context type instead of a closure is part of fn's body all the same.
func withClosures(fn *ssa.Function, seen map[*ssa.Function]bool) []*ssa.Function {
	if fn == nil || seen[fn] {
		return nil
	}
	seen[fn] = true
	out := []*ssa.Function{fn}
	for _, a := range fn.AnonFuncs {
		out = append(out, withClosures(a, seen)...)
	}
	for _, b := range fn.Blocks {
		for _, in := range b.Instrs {
			mc, ok := in.(*ssa.MakeClosure)
			if !ok {
				continue
			}
			w, _ := mc.Fn.(*ssa.Function)
			if w == nil || w.Synthetic == "" || !strings.HasSuffix(w.Name(), "$bound") || len(mc.Bindings) != 1 {
				continue
			}
			// only method values of an object created in this function (a context struct), not of long-lived objects
			if _, isAlloc := Strip(mc.Bindings[0]).(*ssa.Alloc); !isAlloc {
				if u, isLoad := mc.Bindings[0].(*ssa.UnOp); !isLoad {
					continue
				} else if _, isAlloc2 := u.X.(*ssa.Alloc); !isAlloc2 {
					continue
				}
			}
			if t := FuncValueTarget(mc); t != nil && t != w && TheProg != nil && TheProg.InModule(t) {
				out = append(out, withClosures(t, seen)...)
			}
		}
	}
	return out
}

// InModule reports whether fn is a source function of the module.
func (p *Prog) InModule(fn *ssa.Function) bool { return p.fnsIn[fn] }
