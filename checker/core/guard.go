package core

import (
	"go/token"
	"go/types"

	"golang.org/x/tools/go/ssa"
)

// ---------------------------------------------------------------- guard engine (E3)

// EdgeSet is a set of CFG edges.
type EdgeSet map[*ssa.BasicBlock]map[int]bool

func (e EdgeSet) Add(b *ssa.BasicBlock, i int) {
	if e[b] == nil {
		e[b] = map[int]bool{}
	}
	e[b][i] = true
}
func (e EdgeSet) Merge(o EdgeSet) {
	for b, m := range o {
		for i := range m {
			e.Add(b, i)
		}
	}
}
func (e EdgeSet) Len() int {
	n := 0
	for _, m := range e {
		n += len(m)
	}
	return n
}

// GuardClass describes a family of guards: base success edges (found by a
// repository-specific recogniser) plus, computed, the guard wrappers: helper
// functions all of whose possibly-successful returns lie behind a success edge.
type GuardClass struct {
	Name string
	// BaseEdges returns the success edges contributed directly by fn's own
	// conditionals (e.g. the nil edge of `if err := checkPermission(..)`, the
	// equality edge of a CurrentCaller comparison).
	BaseEdges func(fn *ssa.Function) EdgeSet
	// ValueOK (optional): a returned verdict value that satisfies it is
	// accepted as guard-dependent by construction (e.g. a boolean computed from
	// the caller identity).
	ValueOK  func(v ssa.Value) bool
	wrappers map[*ssa.Function]wrapInfo
	cache    map[*ssa.Function]EdgeSet
}

type wrapInfo struct {
	conv Conv
	idx  int
}

// SuccessEdgesIn returns base edges plus the success edges of calls to wrappers.
func (g *GuardClass) SuccessEdgesIn(fn *ssa.Function) EdgeSet {
	if es, ok := g.cache[fn]; ok {
		return es
	}
	es := EdgeSet{}
	if g.BaseEdges != nil {
		es.Merge(g.BaseEdges(fn))
	}
	var sites []GuardSite
	for _, c := range Calls(fn) {
		call, ok := c.(*ssa.Call)
		if !ok {
			continue
		}
		callee := StaticCallee(c)
		if callee == nil {
			continue
		}
		if w, ok := g.wrappers[unwrapSynthetic(callee)]; ok {
			idx := w.idx
			if callee.Signature.Results().Len() == 1 {
				idx = -1
			}
			sites = append(sites, GuardSite{Call: call, Conv: w.conv, Idx: idx})
		}
	}
	for b, m := range SuccessEdges(fn, sites) {
		for i := range m {
			es.Add(b, i)
		}
	}
	if g.cache == nil {
		g.cache = map[*ssa.Function]EdgeSet{}
	}
	g.cache[fn] = es
	return es
}

// ComputeWrappers iterates to a fixpoint over candidate functions.
func (g *GuardClass) ComputeWrappers(cands []*ssa.Function) {
	g.wrappers = map[*ssa.Function]wrapInfo{}
	for changed := true; changed; {
		changed = false
		g.cache = nil
		for _, fn := range cands {
			if _, ok := g.wrappers[fn]; ok || fn.Blocks == nil {
				continue
			}
			conv, idx, ok := ResultConv(fn.Signature)
			if !ok {
				continue
			}
			es := g.SuccessEdgesIn(fn)
			if es.Len() == 0 {
				continue
			}
			cut := CutOf(es)
			rs := Reach([]Point{EntryOf(fn)}, nil, cut)
			// "nil means allowed" helpers that answer with a response: every non-nil result is a failure
			// response and the nil result lies behind the guard (e.g. requireInterchainCaller())
			if conv == ConvRespOk {
				hasNil, nilGuarded, allFail := false, true, true
				for _, r := range Returns(fn) {
					if len(r.Results) <= idx {
						continue
					}
					for _, o := range RetOrigins(r.Results[idx]) {
						if IsNilConst(o.V) {
							hasNil = true
							if OriginReachable(rs, cut, r, o) {
								nilGuarded = false
							}
							continue
						}
						if OriginMayBeSuccess(fn, r, o.V, conv) {
							allFail = false
						}
					}
				}
				if hasNil && nilGuarded && allFail {
					g.wrappers[fn] = wrapInfo{ConvErrNil, idx}
					changed = true
					continue
				}
			}
			isWrapper := true
			nSucc := 0
		rets:
			for _, r := range Returns(fn) {
				if len(r.Results) <= idx {
					continue
				}
				for _, o := range RetOrigins(r.Results[idx]) {
					if !OriginMayBeSuccess(fn, r, o.V, conv) {
						continue
					}
					nSucc++
					if g.ValueOK != nil && g.ValueOK(o.V) {
						continue
					}
					if OriginReachable(rs, cut, r, o) {
						isWrapper = false
						break rets
					}
				}
			}
			if isWrapper && nSucc > 0 {
				g.wrappers[fn] = wrapInfo{conv, idx}
				changed = true
			}
		}
	}
	g.cache = nil
}

// IsWrapper reports whether fn was found to be a guard wrapper.
func (g *GuardClass) IsWrapper(fn *ssa.Function) bool { _, ok := g.wrappers[fn]; return ok }

// Wrappers lists the wrappers found.
func (g *GuardClass) Wrappers() []*ssa.Function {
	var out []*ssa.Function
	for f := range g.wrappers {
		out = append(out, f)
	}
	return out
}

// ReachUnguarded explores fn from its entry without crossing success edges.
func (g *GuardClass) ReachUnguarded(fn *ssa.Function) *ReachSet {
	return Reach([]Point{EntryOf(fn)}, nil, CutOf(g.SuccessEdgesIn(fn)))
}

// ---------------------------------------------------------------- generic recognisers

// ErrCheckEdges: for each call in fn accepted by isGuard (returning the
// convention), the success edges of the conditionals testing its result.
func ErrCheckEdges(fn *ssa.Function, isGuard func(c *ssa.Call) (Conv, int, bool)) EdgeSet {
	var sites []GuardSite
	for _, c := range Calls(fn) {
		call, ok := c.(*ssa.Call)
		if !ok {
			continue
		}
		if conv, idx, ok := isGuard(call); ok {
			sites = append(sites, GuardSite{Call: call, Conv: conv, Idx: idx})
		}
	}
	es := EdgeSet{}
	for b, m := range SuccessEdges(fn, sites) {
		for i := range m {
			es.Add(b, i)
		}
	}
	return es
}

// EqualityEdges: edges on which an ==/!= comparison (or strings.EqualFold /
// bytes.Equal call) whose operands satisfy (predA, predB) in either order is
// known to hold. deep: the predicates may hold for anything the operand is
// computed from; otherwise only for the operand itself.
func EqualityEdges(fn *ssa.Function, predA, predB func(ssa.Value) bool, deep bool) EdgeSet {
	test := func(v ssa.Value, pred func(ssa.Value) bool) bool {
		if deep {
			return Mentions(v, pred)
		}
		return Direct(pred)(v)
	}
	es := EdgeSet{}
	for _, b := range fn.Blocks {
		ifi := IfOf(b)
		if ifi == nil {
			continue
		}
		cond := ifi.Cond
		neg := false
		for {
			if u, ok := cond.(*ssa.UnOp); ok && u.Op == token.NOT {
				neg = !neg
				cond = u.X
				continue
			}
			break
		}
		var l, r ssa.Value
		switch x := cond.(type) {
		case *ssa.BinOp:
			if x.Op != token.EQL && x.Op != token.NEQ {
				continue
			}
			if x.Op == token.NEQ {
				neg = !neg
			}
			l, r = x.X, x.Y
		case *ssa.Call:
			n := CalleeName(x)
			if n != "strings.EqualFold" && n != "bytes.Equal" || len(x.Call.Args) != 2 {
				continue
			}
			l, r = x.Call.Args[0], x.Call.Args[1]
		default:
			continue
		}
		if IsNilConst(l) || IsNilConst(r) {
			continue
		}
		if (test(l, predA) && test(r, predB)) || (test(l, predB) && test(r, predA)) {
			if neg {
				es.Add(b, 1)
			} else {
				es.Add(b, 0)
			}
		}
	}
	return es
}

// IsStubCall builds a predicate: v is a call of the Stub method `name`
// (through the interface, an embedding contract, or BoltStubImpl).
func IsStubCall(names ...string) func(ssa.Value) bool {
	return func(v ssa.Value) bool {
		c, ok := v.(*ssa.Call)
		if !ok {
			return false
		}
		o := CalleeObj(c)
		if o == nil {
			return false
		}
		for _, n := range names {
			if o.Name() == n {
				sig := o.Type().(*types.Signature)
				if sig.Recv() == nil {
					return false
				}
				rt := RecvTypeName(sig.Recv().Type())
				if rt == "github.com/meshplus/bitxhub-core/boltvm.Stub" || rt == "pkg/vm/boltvm.BoltStubImpl" ||
					rt == "github.com/meshplus/bitxhub-core/governance.Persister" {
					return true
				}
			}
		}
		return false
	}
}

// Direct lifts a predicate so that it only looks at the value itself (through
// value-preserving conversions), not at what it was computed from.
func Direct(pred func(ssa.Value) bool) func(ssa.Value) bool {
	return func(v ssa.Value) bool {
		for i := 0; i < 8; i++ {
			if pred(v) {
				return true
			}
			switch x := v.(type) {
			case *ssa.Convert:
				v = x.X
			case *ssa.ChangeType:
				v = x.X
			case *ssa.MakeInterface:
				v = x.X
			default:
				s := Strip(v)
				if s == v {
					return false
				}
				v = s
			}
		}
		return false
	}
}

// BoolCallEdges: true-edges of conditionals whose condition is (the negation
// of) a boolean-returning call accepted by ok.
func BoolCallEdges(fn *ssa.Function, ok func(c *ssa.Call) bool) EdgeSet {
	es := EdgeSet{}
	for _, b := range fn.Blocks {
		ifi := IfOf(b)
		if ifi == nil {
			continue
		}
		for _, ef := range CondFactsOf(ifi) {
			f := ef.Fact
			if f.Kind != FBool || f.Field != "" {
				continue
			}
			c, _ := f.Subject.(*ssa.Call)
			if c == nil {
				// the boolean component of a tuple result: found, err := contains(list, x)
				if ex, isEx := f.Subject.(*ssa.Extract); isEx {
					if tc, isCall := ex.Tuple.(*ssa.Call); isCall {
						if b, isB := ex.Type().Underlying().(*types.Basic); isB && b.Kind() == types.Bool {
							c = tc
						}
					}
				}
			}
			if c == nil || !ok(c) {
				continue
			}
			if f.Negated && ef.OnFalse {
				es.Add(b, 1)
			} else if !f.Negated && ef.OnTrue {
				es.Add(b, 0)
			}
		}
	}
	return es
}
