// bxhlint: repository-specific static checker for meshplus/bitxhub properties C01..C20.
package main

import (
	"flag"
	"fmt"
	"os"
	"runtime/debug"
	"sort"
	"strconv"
	"strings"

	"bxhlint/core"
	"bxhlint/rules"
)

func main() {
	repo := flag.String("repo", "/repo", "repository to analyse")
	verif := flag.String("verif", "/verif", "verif directory (evidence, known findings)")
	prop := flag.String("prop", "", "property id (C01..C20)")
	tier := flag.String("tier", "", "quick|thorough (default: $VERIF_TIER or quick)")
	dump := flag.String("dump", "", "dump a model: bvm")
	verbose := flag.Bool("v", false, "print every obligation")
	flag.Parse()
	if *tier == "" {
		*tier = os.Getenv("VERIF_TIER")
	}
	if *tier != "thorough" {
		*tier = "quick"
	}
	seed, _ := strconv.Atoi(os.Getenv("VERIF_SEED"))
	debug.SetGCPercent(400)

	if *dump != "" {
		p, err := core.Load(*repo)
		if err != nil {
			fmt.Println(err)
			os.Exit(2)
		}
		dumpModel(p, *dump)
		return
	}
	if *prop == "all" || strings.Contains(*prop, ",") {
		os.Exit(runMany(*repo, *verif, *prop, *tier, seed, *verbose))
	}
	run, ok := rules.Props[*prop]
	if !ok {
		var ids []string
		for k := range rules.Props {
			ids = append(ids, k)
		}
		sort.Strings(ids)
		fmt.Printf("unknown property %q; have %v\n", *prop, ids)
		os.Exit(2)
	}
	r := core.NewReport(*prop, *tier, *verif, seed)
	r.Verbose = *verbose
	code := func() (code int) {
		defer func() {
			if e := recover(); e != nil {
				r.Unknown("E1", "analyser-panic", "", fmt.Sprintf("%v\n%s", e, debug.Stack()))
				code = r.Finish()
			}
		}()
		p, err := core.Load(*repo)
		if err != nil {
			r.Unknown("E1", "load", "", err.Error())
			return r.Finish()
		}
		r.Count("packages", len(p.Pkgs))
		r.Count("module_functions", len(p.ModuleFuncs(false)))
		if len(p.Pkgs) < 40 {
			r.Unknown("E1", "floor:packages", "", fmt.Sprintf("only %d packages loaded", len(p.Pkgs)))
		}
		run(&rules.Ctx{P: p, R: r, Tier: *tier})
		return r.Finish()
	}()
	os.Exit(code)
}

// runMany decides several properties on one loaded program (used by the regression drivers under tools/: one load,
// every rule set). The registered commands of MANIFEST.json decide one property per process.
func runMany(repo, verif, props, tier string, seed int, verbose bool) int {
	var ids []string
	if props == "all" {
		for k := range rules.Props {
			ids = append(ids, k)
		}
	} else {
		ids = strings.Split(props, ",")
	}
	sort.Strings(ids)
	p, lerr := core.Load(repo)
	rc := 0
	for _, id := range ids {
		run, ok := rules.Props[id]
		if !ok {
			fmt.Printf("unknown property %q\n", id)
			return 2
		}
		r := core.NewReport(id, tier, verif, seed)
		r.Verbose = verbose
		code := func() (code int) {
			defer func() {
				if e := recover(); e != nil {
					r.Unknown("E1", "analyser-panic", "", fmt.Sprintf("%v\n%s", e, debug.Stack()))
					code = r.Finish()
				}
			}()
			if lerr != nil {
				r.Unknown("E1", "load", "", lerr.Error())
				return r.Finish()
			}
			r.Count("packages", len(p.Pkgs))
			r.Count("module_functions", len(p.ModuleFuncs(false)))
			if len(p.Pkgs) < 40 {
				r.Unknown("E1", "floor:packages", "", fmt.Sprintf("only %d packages loaded", len(p.Pkgs)))
			}
			run(&rules.Ctx{P: p, R: r, Tier: tier})
			return r.Finish()
		}()
		if code != 0 {
			rc = 1
		}
	}
	return rc
}
