package main

import (
	"fmt"
	"os"

	"bxhlint/core"
)

// dbg prints, for the function named in BXH_DBG_FN (e.g. "internal/executor.(*BlockExecutor).transfer"),
// every conditional with the fact the path engine derives from it. Triage aid, not a check.
func dbg(p *core.Prog) {
	fn := p.Fn(os.Getenv("BXH_DBG_FN"))
	if fn == nil {
		fmt.Println("BXH_DBG_FN not found")
		return
	}
	for _, b := range fn.Blocks {
		ifi := core.IfOf(b)
		if ifi == nil {
			continue
		}
		f := core.CondFact(ifi.Cond)
		sub := "<nil>"
		if f.Subject != nil {
			sub = f.Subject.Name() + " " + f.Subject.String()
		}
		fmt.Printf("block %d %s: kind=%v subject=%s const=%q field=%q neg=%v  cond=%s succs=%d,%d\n", b.Index, p.Pos(ifi.Pos()), f.Kind, sub, f.Const, f.Field, f.Negated, ifi.Cond.String(), b.Succs[0].Index, b.Succs[1].Index)
	}
}

var dbg2 = func(p *core.Prog) {}
