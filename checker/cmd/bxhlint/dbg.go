package main

import (
	"fmt"

	"bxhlint/core"

	"golang.org/x/tools/go/ssa"
)

func dbg(p *core.Prog) {
	fn := p.Fn("internal/executor/contracts.checkPermission")
	reg := fn.Params[3]
	fmt.Println("reg", reg.Name())
	es := core.EqualityEdges(fn, func(v ssa.Value) bool { return v == ssa.Value(reg) }, func(ssa.Value) bool { return true }, true)
	for b, m := range es {
		fmt.Println("edge", b.Index, m)
	}
}

func init() {
	dbg2 = func(p *core.Prog) {
		fn := p.Fn("internal/executor/contracts.checkPermission")
		reg := fn.Params[3]
		es := core.EqualityEdges(fn, func(v ssa.Value) bool { return v == ssa.Value(reg) }, func(ssa.Value) bool { return true }, true)
		cut := core.CutOf(es)
		rs := core.Reach([]core.Point{core.EntryOf(fn)}, nil, cut)
		for _, r := range core.Returns(fn) {
			fmt.Println("ret block", r.Block().Index, rs.Has(r))
		}
	}
}

var dbg2 func(p *core.Prog)
