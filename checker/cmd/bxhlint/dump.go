package main

import (
	"fmt"

	"bxhlint/core"
	"bxhlint/rules"
)

func dumpModel(p *core.Prog, what string) {
	switch what {
	case "c01":
		rules.C01Dump(&rules.Ctx{P: p, R: core.NewReport("C01", "quick", "/tmp", 0)})
	case "perms":
		for _, l := range rules.DumpPerms(&rules.Ctx{P: p, R: core.NewReport("C17", "quick", "/tmp", 0)}) {
			fmt.Println(l)
		}
	case "dbg":
		dbg(p)
		dbg2(p)
	case "bvm":
		m, err := core.BuildBVM(p)
		if err != nil {
			fmt.Println("ERR", err)
			return
		}
		for _, pr := range m.Problems {
			fmt.Println("PROBLEM", pr)
		}
		fmt.Println("dispatcher filter:", m.DispatcherFilter)
		tot := 0
		for _, c := range m.Contracts {
			own, prom, inv := 0, 0, 0
			for _, e := range c.Entries {
				if e.Own {
					own++
				} else {
					prom++
				}
				if e.Invocable {
					inv++
				}
			}
			tot += len(c.Entries)
			fmt.Printf("%-20s %-32s own=%d promoted=%d invocable=%d\n", c.Name, c.AddrConst, own, prom, inv)
			for _, e := range c.Entries {
				fmt.Printf("    %-40s own=%v via=%q iface=%v invocable=%v welltyped=%v\n", e.Name, e.Own, e.Promoted, e.ViaIface, e.Invocable, e.WellTyped)
			}
		}
		fmt.Println("entries:", tot, "edges:", len(m.Edges))
		for _, e := range m.Edges {
			t := ""
			for _, x := range e.Targets {
				t += x.Key() + " "
			}
			fmt.Printf("  %s %s -> %s.%s [%s]\n", p.Pos(e.Site.Pos()), core.FnName(e.From), e.AddrConst, e.Method, t)
		}
	}
}
