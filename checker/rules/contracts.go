package rules

import (
	"go/types"
	"sort"
	"strings"

	"bxhlint/core"

	"golang.org/x/tools/go/ssa"
)

const contractsPkg = core.Module + "/internal/executor/contracts"

// callerID: v is a call of Stub.CurrentCaller() or Stub.Caller().
var isCurrentCaller = core.IsStubCall("CurrentCaller")
var isCaller = core.IsStubCall("Caller")

func isCallerID(v ssa.Value) bool { return isCurrentCaller(v) || isCaller(v) }

// permFn describes a permission-check helper: function + index of the
// "regulator" parameter (the identity being checked).
type permFn struct {
	fn     *ssa.Function
	regIdx int // index among Params (receiver included)
}

// contractsModel bundles the analyses shared by the contract properties.
type contractsModel struct {
	c        *Ctx
	bvm      *core.BVM
	eff      *core.Effects
	funcs    []*ssa.Function // all functions of the contracts package
	perm     map[*ssa.Function]*permFn
	callerG  *core.GuardClass
	unguard  map[*ssa.Function]map[ssa.Instruction]bool
	visiting map[*ssa.Function]bool
}

func (c *Ctx) Contracts() *contractsModel {
	if c.cm != nil {
		return c.cm
	}
	m := &contractsModel{c: c, bvm: c.BVM(), perm: map[*ssa.Function]*permFn{},
		unguard: map[*ssa.Function]map[ssa.Instruction]bool{}, visiting: map[*ssa.Function]bool{}}
	for _, fn := range c.P.ModuleFuncs(true) {
		if fn.Package().Pkg.Path() == contractsPkg {
			m.funcs = append(m.funcs, fn)
		}
	}
	var roots []*ssa.Function
	roots = append(roots, m.funcs...)
	for _, ct := range m.bvm.Contracts {
		for _, e := range ct.Entries {
			if e.Fn != nil {
				roots = append(roots, e.Fn)
			}
		}
	}
	m.eff = core.ComputeEffects(core.PrimOf(core.ContractPrims), m.bvm, roots)
	m.findPermFns()
	m.callerG = &core.GuardClass{Name: "caller", BaseEdges: m.callerBaseEdges}
	m.callerG.ValueOK = func(v ssa.Value) bool { return core.Mentions(v, isCallerID) }
	m.callerG.ComputeWrappers(m.funcs)
	c.cm = m
	return m
}

// findPermFns: functions named checkPermission in the contracts package
// (package-level and per-contract methods) with a parameter named
// regulatorAddr. They are verified structurally by R17.2b.
func (m *contractsModel) findPermFns() {
	for _, fn := range m.funcs {
		if fn.Name() != "checkPermission" || fn.Parent() != nil {
			continue
		}
		for i, p := range fn.Params {
			if p.Name() == "regulatorAddr" {
				m.perm[fn] = &permFn{fn: fn, regIdx: i}
			}
		}
	}
}

// adminQueryMethods: role-contract queries whose "true" answer admits a caller.
var adminQueryMethods = map[string]bool{"IsAnyAvailableAdmin": true, "IsAnyAdmin": true, "IsAvailableSuperAdmin": true, "IsSuperAdmin": true}

// roleAnswerEdges: edges on which a cross-invoke of a role query about an
// identity satisfying idPred answered "true" (== "true" edge, or != "false"
// edge).
func (m *contractsModel) roleAnswerEdges(fn *ssa.Function, idPred func(ssa.Value) bool) core.EdgeSet {
	es := core.EdgeSet{}
	edgeOf := map[*ssa.Call]*core.Edge{}
	for _, e := range m.bvm.Edges {
		edgeOf[e.Site] = e
	}
	for _, b := range fn.Blocks {
		ifi := core.IfOf(b)
		if ifi == nil {
			continue
		}
		f := core.CondFact(ifi.Cond)
		if f.Kind != core.FEqConst || f.Field != "Result" {
			continue
		}
		call, _ := core.CallOf(f.Subject)
		if call == nil {
			continue
		}
		ed := edgeOf[call]
		if ed == nil || ed.AddrConst != "RoleContractAddr" || !adminQueryMethods[ed.Method] {
			continue
		}
		a := core.Arg(call, 2) // variadic slice of *pb.Arg
		if a == nil || !core.Mentions(a, idPred) {
			continue
		}
		eqEdge := 0
		if f.Negated {
			eqEdge = 1
		}
		switch f.Const {
		case "true":
			es.Add(b, eqEdge)
		case "false":
			es.Add(b, 1-eqEdge)
		}
	}
	return es
}

// callerBaseEdges: the base success edges of the caller-guard class in fn.
func (m *contractsModel) callerBaseEdges(fn *ssa.Function) core.EdgeSet {
	es := core.EdgeSet{}
	// (1) checkPermission(..., regulator = CurrentCaller()/Caller(), ...) == nil
	es.Merge(core.ErrCheckEdges(fn, func(c *ssa.Call) (core.Conv, int, bool) {
		callee := core.StaticCallee(c)
		if callee == nil {
			return 0, 0, false
		}
		pf := m.perm[callee]
		if pf == nil || pf.regIdx >= len(c.Call.Args) {
			return 0, 0, false
		}
		if !core.Mentions(c.Call.Args[pf.regIdx], isCallerID) {
			return 0, 0, false
		}
		return core.ConvErrNil, -1, true
	}))
	// (2) direct comparison with the caller identity
	// (shallow: the operand IS the identity, not merely computed from it)
	es.Merge(core.EqualityEdges(fn, isCallerID, func(ssa.Value) bool { return true }, false))
	// (3) role query about the caller answered true
	es.Merge(m.roleAnswerEdges(fn, isCallerID))
	return es
}

// unguardedSinks: effect sinks of fn reachable from its entry without
// crossing a caller-guard success edge. A call to a helper counts only when
// the helper itself has unguarded effects.
func (m *contractsModel) unguardedSinks(fn *ssa.Function) map[ssa.Instruction]bool {
	if r, ok := m.unguard[fn]; ok {
		return r
	}
	if m.visiting[fn] {
		return nil // recursion: assume nothing new
	}
	m.visiting[fn] = true
	defer delete(m.visiting, fn)
	out := map[ssa.Instruction]bool{}
	if fn.Blocks == nil {
		m.unguard[fn] = out
		return out
	}
	rs := m.callerG.ReachUnguarded(fn)
	for _, in := range m.eff.Sinks(fn) {
		if !rs.Has(in) {
			continue
		}
		if m.sinkCountsUnguarded(in) {
			out[in] = true
		}
	}
	m.unguard[fn] = out
	return out
}

func (m *contractsModel) sinkCountsUnguarded(in ssa.Instruction) bool {
	switch x := in.(type) {
	case ssa.CallInstruction:
		if _, ok := core.PrimOf(core.ContractPrims)(x); ok {
			return true
		}
		if core.IsCrossInvoke(x) {
			return true
		}
		if g := core.StaticCallee(x); g != nil && g.Blocks != nil {
			return len(m.unguardedSinks(g)) > 0
		}
		return true
	case *ssa.MakeClosure:
		if g, ok := x.Fn.(*ssa.Function); ok {
			return len(m.unguardedSinks(g)) > 0
		}
	}
	return true
}

// describeSink renders an effect sink.
func (m *contractsModel) describeSink(in ssa.Instruction) string {
	if c, ok := in.(ssa.CallInstruction); ok {
		n := core.CalleeName(c)
		if core.IsCrossInvoke(c) {
			if call, ok := in.(*ssa.Call); ok {
				for _, e := range m.bvm.Edges {
					if e.Site == call {
						return "CrossInvoke(" + e.AddrConst + "." + e.Method + ")"
					}
				}
			}
		}
		if i := strings.LastIndex(n, "/"); i >= 0 {
			n = n[i+1:]
		}
		return n
	}
	return "closure"
}

// permSiteInfo describes one checkPermission guard site.
type permSiteInfo struct {
	call      *ssa.Call
	subject   string   // "CurrentCaller" | "Caller" | "other"
	perms     []string // constant permissions, or nil if not constant
	permsOK   bool
	specific  []string // address constants of the specific list ("" entries = non-constant)
	specKnown bool
}

// permSites enumerates guard sites in fn.
func (m *contractsModel) permSites(fn *ssa.Function) []permSiteInfo {
	var out []permSiteInfo
	for _, c := range core.Calls(fn) {
		call, ok := c.(*ssa.Call)
		if !ok {
			continue
		}
		callee := core.StaticCallee(c)
		if callee == nil {
			continue
		}
		pf := m.perm[callee]
		if pf == nil {
			continue
		}
		args := call.Call.Args
		info := permSiteInfo{call: call, subject: "other"}
		reg := core.Strip(args[pf.regIdx])
		if isCurrentCaller(reg) {
			info.subject = "CurrentCaller"
		} else if isCaller(reg) {
			info.subject = "Caller"
		}
		// parameter layout: [recv|stub], permissions, id, regulator, specificData
		permIdx := pf.regIdx - 2
		specIdx := pf.regIdx + 1
		if permIdx >= 0 {
			info.perms, info.permsOK = constStringSlice(args[permIdx])
		}
		if specIdx < len(args) {
			info.specific, info.specKnown = specificAddrs(args[specIdx])
		}
		out = append(out, info)
	}
	return out
}

// constStringSlice evaluates a []string built from a literal (array alloc +
// constant stores + slice), including conditional appends of constants.
func constStringSlice(v ssa.Value) ([]string, bool) {
	var out []string
	ok := true
	seen := map[ssa.Value]bool{}
	var walk func(v ssa.Value)
	walk = func(v ssa.Value) {
		if seen[v] {
			return
		}
		seen[v] = true
		switch x := v.(type) {
		case *ssa.Slice:
			walk(x.X)
		case *ssa.Alloc:
			// array literal: collect stores to IndexAddr of it
			for _, r := range *x.Referrers() {
				if ia, isIA := r.(*ssa.IndexAddr); isIA {
					for _, rr := range *ia.Referrers() {
						if st, isSt := rr.(*ssa.Store); isSt {
							if s, isC := core.ConstString(st.Val); isC {
								out = append(out, s)
							} else {
								ok = false
							}
						}
					}
				}
			}
		case *ssa.Phi:
			for _, e := range x.Edges {
				walk(e)
			}
		case *ssa.Call:
			if b, isB := x.Call.Value.(*ssa.Builtin); isB && b.Name() == "append" {
				walk(x.Call.Args[0])
				walk(x.Call.Args[1])
				return
			}
			ok = false
		case *ssa.Const:
			// nil slice
		default:
			ok = false
		}
	}
	walk(v)
	sort.Strings(out)
	return out, ok && len(out) > 0
}

// specificAddrs: for the specificAddrsData argument, find json.Marshal(list)
// and evaluate list's elements to registered address constants.
func specificAddrs(v ssa.Value) ([]string, bool) {
	if core.IsNilConst(v) {
		return nil, true
	}
	call, idx := core.CallOf(v)
	if call == nil || idx != 0 {
		return nil, false
	}
	var arg ssa.Value
	if core.CalleeName(call) == "encoding/json.Marshal" {
		arg = core.Strip(call.Call.Args[0])
	} else if g := core.StaticCallee(call); g != nil && len(g.Blocks) > 0 {
		// a module helper that marshals the list it is given: marshalSpecificAddrs(addrs ...string) = json.Marshal(addrs)
		for _, ret := range core.Returns(g) {
			if len(ret.Results) == 0 {
				continue
			}
			for _, o := range core.RetOrigins(ret.Results[0]) {
				mc, mi := core.CallOf(o.V)
				if mc == nil || mi != 0 || core.CalleeName(mc) != "encoding/json.Marshal" {
					continue
				}
				for pi, gp := range g.Params {
					if core.Strip(mc.Call.Args[0]) == ssa.Value(gp) || core.Mentions(mc.Call.Args[0], func(x ssa.Value) bool { return x == ssa.Value(gp) }) {
						if pi < len(call.Call.Args) {
							arg = core.Strip(call.Call.Args[pi])
						}
					}
				}
			}
		}
	}
	if arg == nil {
		return nil, false
	}
	var out []string
	ok := true
	// the list may be produced by a parameterless helper that returns the literal
	if hc, isCall := arg.(*ssa.Call); isCall {
		if g := core.StaticCallee(hc); g != nil && len(g.Blocks) > 0 && len(g.Params) == 0 {
			rets := core.Returns(g)
			if len(rets) == 1 && len(rets[0].Results) == 1 {
				arg = core.Strip(rets[0].Results[0])
			}
		}
	}
	sl, isSl := arg.(*ssa.Slice)
	if !isSl {
		return nil, false
	}
	al, isAl := sl.X.(*ssa.Alloc)
	if !isAl {
		return nil, false
	}
	for _, r := range *al.Referrers() {
		if ia, isIA := r.(*ssa.IndexAddr); isIA {
			for _, rr := range *ia.Referrers() {
				if st, isSt := rr.(*ssa.Store); isSt {
					a := core.AddrConstOfValue(st.Val)
					if a == "" {
						ok = false
					}
					out = append(out, a)
				}
			}
		}
	}
	return out, ok && len(out) > 0
}

// constName maps "val:..." produced by AddrConstOfValue to the constant name.
func (m *contractsModel) constName(val string) string {
	if pk := m.c.P.All["github.com/meshplus/bitxhub-model/constant"]; pk != nil {
		sc := pk.Types.Scope()
		for _, n := range sc.Names() {
			if c, ok := sc.Lookup(n).(*types.Const); ok {
				if "val:"+c.Val().ExactString() == val {
					return n
				}
			}
		}
	}
	return val
}
