package rules

import (
	"fmt"
	"go/token"
	"go/types"
	"strings"

	"bxhlint/core"

	"golang.org/x/tools/go/ssa"
)

func init() { Props["C06"] = C06 }

var ledgerWriteMethods = map[string]bool{"SetState": true, "AddState": true, "SetBalance": true, "SetNonce": true, "SetCode": true, "AddBalance": true, "SubBalance": true}

// C06: timeout rollback fires exactly at the timeout height and never otherwise.
func C06(c *Ctx) {
	r := c.R
	r.Rule("R06.1", "same height: in processExecuteEvent the height given to setTimeoutList, getTimeoutIBTPsMap and setTimeoutRollback is the same block-header number; the registration height is height + uint64(ibtp.TimeoutHeight) with that height.")
	r.Rule("R06.2", "registration guards: the timeout-list registration of a request is reachable only for requests (Category == REQUEST) that are not group members (Group == nil), not invalid, not begin-failed, with TimeoutHeight > 0 and below the overflow bound.")
	r.Rule("R06.3", "removal on receipt: in the receipt branch of setTimeoutList every path on which the stored record was found and decoded reaches the removal-map update before the next transaction is looked at (no early continue for finished records).")
	r.Rule("R06.8", "removal only by an accepted receipt, under the group's id: in setTimeoutList the removal-map update lies behind the edges 'not invalid' and 'not begin-failed' of the receipt transaction (a rejected receipt must leave the request listed); in the transaction manager every add / remove of a timeout-list entry names the id of the group record (the argument of GlobalTxInfoKey in the same function, or the parameter that callers fill with it) and the height stored in that record.")
	r.Rule("R06.4", "write before flush: every ledger write of block post-processing (setTimeoutList, setTimeoutRollback, transaction application) is sequenced before FlushDirtyData; nothing writes between FlushDirtyData and PersistBlockData.")
	r.Rule("R06.5", "expiry applies the list of the current height only: setTimeoutRollback and getTimeoutIBTPsMap iterate getTimeoutList(height) with their own height parameter; the timeout functions read no executor field other than ledger/config/logger (nothing in memory across restarts).")
	r.Rule("R06.11", "one decision about the timeout: when the interchain contract overrides the timeout it hands to the transaction manager (beginTransaction zeroes it on the hub that does not own the timeout of a transaction between two BitXHubs, the record then carries Height = MaxUint64), the registration of the request in setTimeoutList lies behind the edge record.Height != MaxUint64 of the stored record; otherwise the executor lists what the contract decided not to time out, the receipt cannot find the id, and the finished transaction is rolled back at that height.")
	r.Rule("R06.12", "the destination hub owns the timeout: the comparison in beginTransaction that takes the timeout away compares the current hub with the hub of ibtp.From (ParseFrom), never with the hub of ibtp.To - the destination hub is where the request executes and must be the one that lists it and rolls it back at the timeout height.")
	r.Rule("R06.14", "a receipt is judged by the stored record, not by what its sender writes into it: setTimeoutList skips an IBTP because of its Group field (group members are listed by the transaction manager) only inside the request branch; whether a receipt belongs to a group is decided by the record lookup of the receipt branch (single record under TxInfoKey, else the global id). A receipt of a one-to-one request that carries a Group is accepted by the transaction manager - which ignores the field - and would otherwise leave its request listed: the finished transaction is reported as timed out and rolled back at H+T.")
	r.Rule("R06.15", "the batch answer keeps only requests out of the timeout bookkeeping: filterValidTx files a transaction as invalid for the answer \"batch_ibtp\" (a request to an unordered destination is not listed for a timeout) only when the transaction is a request; a receipt's answer says nothing about how its request was treated - the two sides of checkIBTP take the flag from different services - and an accepted receipt always takes its request out of the list.")
	r.Rule("R06.13", "T = 0 never times out: where the transaction manager computes a deadline GetCurrentHeight() + timeout and stores it as the Height of a record under which an id is listed (the group record handed to addToTimeoutList; the transaction record, when the executor lists requests under the recorded height), the function tests the timeout against 0 and on the edge on which it is 0 the recorded Height is MaxUint64 (never the sum: H + 0 = H would list the request for the block that accepted it, and it would be rolled back at once).")
	c.c06ExpiryComplete()
	r.NotDecided = append(r.NotDecided, "'exactly once in that block's notifications' over restarts beyond 'state is ledger-borne'; numeric adequacy of the overflow guard")
	// "the same holds for a one-to-many group as a whole": the group leaves the timeout list when - and only when -
	// it ends (decided by the C05 rule set)
	r.Borrow(map[string]string{"R05.2": "R06.16", "R05.4": "R06.17"}, func() { C05(c) })

	pe := c.fn("R06.1", execPrefix+"processExecuteEvent")
	stl := c.fn("R06.1", execPrefix+"setTimeoutList")
	gtm := c.fn("R06.1", execPrefix+"getTimeoutIBTPsMap")
	str := c.fn("R06.1", execPrefix+"setTimeoutRollback")
	gtl := c.fn("R06.1", execPrefix+"getTimeoutList")
	if pe == nil || stl == nil || gtm == nil || str == nil || gtl == nil {
		return
	}
	// R06.1
	var hs []ssa.Value
	for _, call := range core.Calls(pe) {
		switch core.StaticCallee(call) {
		case stl, gtm, str:
			hs = append(hs, call.Common().Args[1])
		}
	}
	okSame := len(hs) == 3
	for _, h := range hs {
		if _, f, _, ok := core.FieldOf(h); !ok || f != "Number" || !sameValue(h, hs[0]) {
			okSame = false
		}
	}
	r.Check(okSame, "R06.1", "processExecuteEvent: one height for register / expire / rollback", c.P.Pos(pe.Pos()), "all three receive block.BlockHeader.Number of the same block", "the timeout functions of one block are not driven by the same block height")

	// registration MapUpdate in setTimeoutList: key = height + uint64(TimeoutHeight)
	var height *ssa.Parameter
	for _, p := range stl.Params {
		if p.Name() == "height" {
			height = p
		}
	}
	addSites, remSites := c.timeoutUpdSites(stl)
	var addUpd, remUpd []ssa.Instruction
	nAddInner := 0
	for _, s := range addSites {
		addUpd = append(addUpd, s.at)
		nAddInner += len(s.inner)
	}
	for _, s := range remSites {
		remUpd = append(remUpd, s.at)
	}
	r.Floor("R06.1", "registration updates in setTimeoutList", nAddInner, 2)
	recordedMode := false
	for _, us := range addSites {
		in := us.at
		ok := false
		for _, o := range append(core.Origins(us.k), us.k) {
			if bo, isBo := o.(*ssa.BinOp); isBo && bo.Op == token.ADD && height != nil {
				if (core.Strip(bo.X) == ssa.Value(height) && core.Mentions(bo.Y, fieldLoad("IBTP", "TimeoutHeight"))) ||
					(core.Strip(bo.Y) == ssa.Value(height) && core.Mentions(bo.X, fieldLoad("IBTP", "TimeoutHeight"))) {
					ok = true
				}
			}
		}
		if !ok && core.Mentions(us.k, fieldLoad("TransactionRecord", "Height")) {
			// the other sound scheme: list the id under the height the transaction manager recorded for it
			// (that is where the receipt looks for it); whether and when it times out is then the contract's
			// decision alone, see R06.11 (mandatory in this scheme) and R06.13.
			recordedMode = true
			r.OK("R06.1", "setTimeoutList: registration height", c.P.Pos(in.Pos()), "key = Height of the transaction record stored for the id (the height the receipt removes it from)")
			continue
		}
		r.Check(ok, "R06.1", "setTimeoutList: registration height", c.P.Pos(in.Pos()), "key = height + uint64(ibtp.TimeoutHeight)", "the request is not registered at height + TimeoutHeight of the block that accepted it")
	}

	// R06.2 guards
	isAdd := func(in ssa.Instruction) bool {
		for _, x := range addUpd {
			if x == in {
				return true
			}
		}
		return false
	}
	guard := func(name string, pick func(f core.Fact, ifi *ssa.If) (bool, int)) {
		es := condEdges(stl, pick)
		c.behindEdges("R06.2", "setTimeoutList", stl, es, isAdd, name, "timeout registration")
	}
	guard("Category() == REQUEST", func(f core.Fact, ifi *ssa.If) (bool, int) {
		if f.Kind != core.FCmp && f.Kind != core.FEqConst {
			return false, 0
		}
		isCat := func(v ssa.Value) bool {
			cl, ok := v.(*ssa.Call)
			return ok && strings.HasSuffix(core.CalleeName(cl), "pb.IBTP).Category")
		}
		if (f.Subject != nil && isCat(core.Strip(f.Subject))) || (f.Other != nil && isCat(core.Strip(f.Other))) {
			// IBTP_REQUEST is category 0? compare against the constant named IBTP_REQUEST
			other := f.Other
			if isCat(core.Strip(f.Other)) {
				other = f.Subject
			}
			if enumName(other) == "IBTP_REQUEST" || f.Const == "0" && f.Kind == core.FEqConst {
				return true, holdsEdge(f)
			}
		}
		return false, 0
	})
	// R06.11: the contract may take the timeout away (beginTransaction zeroes it on the hub that does not own the
	// timeout of a transaction between two BitXHubs; the record then has Height = MaxUint64). When it does, the
	// executor's registration has to honour the recorded decision.
	override := ""
	if bt := c.fn("R06.11", imPrefix+"beginTransaction"); bt != nil {
		for _, call := range core.Calls(bt) {
			if !strings.HasSuffix(core.CalleeName(call), "pb.Uint64") || len(call.Common().Args) == 0 {
				continue
			}
			hasConst, hasOther := false, false
			for _, o := range core.RetOrigins(call.Common().Args[0]) {
				if _, isC := core.Strip(o.V).(*ssa.Const); isC {
					hasConst = true
				} else {
					hasOther = true
				}
			}
			if hasConst && hasOther {
				override = c.P.Pos(call.Pos())
			}
		}
	}
	// R06.12: which hub owns the timeout
	if bt := c.fn("R06.12", imPrefix+"beginTransaction"); bt != nil && override != "" {
		nOwn := 0
		for _, b := range bt.Blocks {
			ifi := core.IfOf(b)
			if ifi == nil {
				continue
			}
			bo, ok := ifi.Cond.(*ssa.BinOp)
			if !ok || (bo.Op != token.EQL && bo.Op != token.NEQ) {
				continue
			}
			isCur := func(v ssa.Value) bool {
				return core.Mentions(v, func(w ssa.Value) bool {
					cc, ok := w.(*ssa.Call)
					return ok && strings.HasSuffix(core.CalleeName(cc), "getBitXHubID")
				})
			}
			hubOf := func(v ssa.Value) string {
				ex, ok := core.Strip(v).(*ssa.Extract)
				if !ok || ex.Index != 0 {
					return ""
				}
				cc, ok := ex.Tuple.(*ssa.Call)
				if !ok || core.CalleeObj(cc) == nil {
					return ""
				}
				return core.CalleeObj(cc).Name()
			}
			var side string
			switch {
			case isCur(bo.X):
				side = hubOf(bo.Y)
			case isCur(bo.Y):
				side = hubOf(bo.X)
			default:
				continue
			}
			if side != "ParseFrom" && side != "ParseTo" {
				continue
			}
			nOwn++
			r.Check(side == "ParseFrom", "R06.12", fmt.Sprintf("beginTransaction: timeout removed on the source hub only #%d", nOwn), c.P.Pos(ifi.Cond.Pos()), "the current hub is compared with the hub of ibtp.From",
				"the timeout of a transaction between two BitXHubs is taken away on the hub of ibtp.To: the destination hub, where the destination appchain executes the request, never times it out (the request stays BEGIN for ever) and the source hub rolls back on its own")
		}
		r.Floor("R06.12", "hub comparisons deciding the timeout owner", nOwn, 1)
	}
	if override == "" && recordedMode {
		override = "registration under the recorded height"
	}
	if override == "" {
		r.OK("R06.11", "beginTransaction hands the IBTP's own timeout to the transaction manager", "", "no override of the timeout on the contract side: the executor's computation from ibtp.TimeoutHeight agrees by construction")
	} else {
		es := condEdges(stl, func(f core.Fact, ifi *ssa.If) (bool, int) {
			if f.Kind != core.FCmp && f.Kind != core.FEqConst {
				return false, 0
			}
			isH := func(v ssa.Value) bool { return v != nil && core.Mentions(v, fieldLoad("TransactionRecord", "Height")) }
			isMax := func(v ssa.Value) bool {
				k, ok := core.Strip(v).(*ssa.Const)
				return ok && k.Value != nil && k.Value.ExactString() == "18446744073709551615"
			}
			var other ssa.Value
			switch {
			case isH(f.Subject):
				other = f.Other
			case isH(f.Other):
				other = f.Subject
			default:
				return false, 0
			}
			if !(other != nil && isMax(other)) && f.Const != "18446744073709551615" {
				return false, 0
			}
			// the edge on which Height != MaxUint64
			e := holdsEdge(f)
			if f.Op == token.EQL || f.Kind == core.FEqConst {
				e = 1 - e
			}
			return true, e
		})
		if es.Len() > 0 {
			// a request whose record cannot be read at all (no record written: nothing was decided) is listed as before
			es.Merge(condEdges(stl, func(f core.Fact, ifi *ssa.If) (bool, int) {
				if f.Kind != core.FBool {
					return false, 0
				}
				ex, ok := f.Subject.(*ssa.Extract)
				if !ok || ex.Index != 0 {
					return false, 0
				}
				cc, ok := ex.Tuple.(*ssa.Call)
				if !ok || core.CalleeObj(cc) == nil || core.CalleeObj(cc).Name() != "GetState" {
					return false, 0
				}
				return true, 1 - holdsEdge(f)
			}))
		}
		if es.Len() == 0 {
			for _, in := range addUpd {
				r.Bad("R06.11", "setTimeoutList: registration honours the recorded timeout decision", c.P.Pos(in.Pos()), "the interchain contract overrides the timeout of a request (beginTransaction, "+override+": zero on the hub that does not own the timeout, recorded as Height = MaxUint64), but setTimeoutList lists the request under height + ibtp.TimeoutHeight without consulting the record: the accepted receipt looks for the id under the recorded height, the id stays listed, and at its timeout height the finished transaction is overwritten with BEGIN_ROLLBACK")
			}
		} else {
			c.behindEdges("R06.11", "setTimeoutList", stl, es, isAdd, "record.Height != MaxUint64", "timeout registration")
		}
	}
	// R06.15: the batch answer keeps only requests out of the bookkeeping
	if fv := c.fn("R06.15", execPrefix+"filterValidTx"); fv != nil {
		isReqEdge := func(f core.Fact, ifi *ssa.If) (bool, int) {
			if f.Kind != core.FCmp && f.Kind != core.FEqConst {
				return false, 0
			}
			isCat := func(v ssa.Value) bool {
				cl, ok := v.(*ssa.Call)
				return ok && strings.HasSuffix(core.CalleeName(cl), "pb.IBTP).Category")
			}
			if (f.Subject != nil && isCat(core.Strip(f.Subject))) || (f.Other != nil && isCat(core.Strip(f.Other))) {
				other := f.Other
				if isCat(core.Strip(f.Other)) {
					other = f.Subject
				}
				if enumName(other) == "IBTP_REQUEST" || f.Const == "0" && f.Kind == core.FEqConst {
					return true, holdsEdge(f)
				}
			}
			return false, 0
		}
		nB := 0
		for _, b := range fv.Blocks {
			ifi := core.IfOf(b)
			if ifi == nil {
				continue
			}
			f := core.CondFact(ifi.Cond)
			if f.Kind != core.FEqConst || f.Const != "batch_ibtp" {
				continue
			}
			nB++
			// from the edge on which the answer is "batch_ibtp": a map update that files the transaction as invalid is
			// reachable only across Category() == REQUEST
			start := core.Point{B: b.Succs[holdsEdge(f)], Idx: 0}
			cutEdges := condEdges(fv, isReqEdge)
			// a receipt that is not successful is filed for that reason, whatever it answers
			cutEdges.Merge(condEdges(fv, func(fc core.Fact, fi *ssa.If) (bool, int) {
				if fc.Kind == core.FBool {
					if cc, ok := fc.Subject.(*ssa.Call); ok && core.CalleeObj(cc) != nil && core.CalleeObj(cc).Name() == "IsSuccess" {
						return true, 1 - holdsEdge(fc)
					}
				}
				return false, 0
			}))
			// a decision carried in a boolean flag (a phi / local variable tested later) is not followed by this path
			// rule: both edges of such a test are cut, so only decisions written as branches are judged
			viaFlag := false
			for _, fb := range fv.Blocks {
				fi := core.IfOf(fb)
				if fi == nil || fb == b {
					continue
				}
				if core.Mentions(fi.Cond, func(v ssa.Value) bool {
					ph, ok := v.(*ssa.Phi)
					if !ok {
						return false
					}
					bt, isB := ph.Type().Underlying().(*types.Basic)
					return isB && bt.Kind() == types.Bool
				}) {
					cutEdges.Add(fb, 0)
					cutEdges.Add(fb, 1)
					viaFlag = true
				}
			}
			bad := ""
			for _, us := range c.mapUpdateSites(fv) {
				// inside the per-receipt loop: only updates reached before the next iteration starts count
				within := core.Reach([]core.Point{start}, func(in ssa.Instruction) bool { return in == ssa.Instruction(ifi) }, core.CutOf(cutEdges))
				if within.Has(us.at) {
					bad = c.P.Pos(us.at.Pos())
				}
			}
			if bad == "" && viaFlag {
				r.Note("R06.15", fmt.Sprintf("filterValidTx: decision carried in a flag #%d", nB), c.P.Pos(ifi.Cond.Pos()), "the filing decision passes through a boolean variable; only the branch structure was judged")
			}
			r.Check(bad == "", "R06.15", fmt.Sprintf("filterValidTx: the batch answer excludes requests only #%d", nB), c.P.Pos(ifi.Cond.Pos()), "the transaction is filed as invalid for its \"batch_ibtp\" answer only across Category() == REQUEST",
				"a transaction is filed as invalid (update at "+bad+") because its receipt answers \"batch_ibtp\", whatever its category: the request side of checkIBTP takes that flag from the destination service, the receipt side from the source service, so for an unordered source and an ordered destination the request is listed for its timeout while its accepted receipt is skipped by setTimeoutList - the finished transaction is reported as timed out and rolled back at H+T")
		}
		r.Floor("R06.15", "tests of the batch answer in filterValidTx", nB, 1)
	}
	// R06.14: a receipt is never skipped because of a field its sender chooses
	{
		reqEdges := condEdges(stl, func(f core.Fact, ifi *ssa.If) (bool, int) {
			if f.Kind != core.FCmp && f.Kind != core.FEqConst {
				return false, 0
			}
			isCat := func(v ssa.Value) bool {
				cl, ok := v.(*ssa.Call)
				return ok && strings.HasSuffix(core.CalleeName(cl), "pb.IBTP).Category")
			}
			if (f.Subject != nil && isCat(core.Strip(f.Subject))) || (f.Other != nil && isCat(core.Strip(f.Other))) {
				other := f.Other
				if isCat(core.Strip(f.Other)) {
					other = f.Subject
				}
				if enumName(other) == "IBTP_REQUEST" || f.Const == "0" && f.Kind == core.FEqConst {
					return true, holdsEdge(f)
				}
			}
			return false, 0
		})
		isGroupTest := func(in ssa.Instruction) bool {
			bo, ok := in.(*ssa.BinOp)
			if !ok || (bo.Op != token.EQL && bo.Op != token.NEQ) {
				return false
			}
			f := core.CondFact(bo)
			return f.Kind == core.FNil && core.Mentions(f.Subject, fieldLoad("IBTP", "Group"))
		}
		nG := len(sites(stl, isGroupTest))
		if nG == 0 {
			r.OK("R06.14", "setTimeoutList: no IBTP is skipped for its Group field", c.P.Pos(stl.Pos()), "setTimeoutList does not test ibtp.Group")
		} else {
			c.behindEdges("R06.14", "setTimeoutList", stl, reqEdges, isGroupTest, "Category() == REQUEST", "test of ibtp.Group (group members are registered by the transaction manager)")
		}
	}
	guard("ibtp.Group == nil", func(f core.Fact, ifi *ssa.If) (bool, int) {
		if f.Kind == core.FNil && core.Mentions(f.Subject, fieldLoad("IBTP", "Group")) {
			return true, holdsEdge(f)
		}
		return false, 0
	})
	isRem := func(in ssa.Instruction) bool {
		for _, x := range remUpd {
			if x == in {
				return true
			}
		}
		return false
	}
	for _, pn := range []string{"invalidMap", "failMap"} {
		pname := pn
		// R06.8: only an accepted receipt takes its request out of the list
		es := condEdges(stl, func(f core.Fact, ifi *ssa.If) (bool, int) {
			if f.Kind != core.FBool {
				return false, 0
			}
			hit := false
			core.Mentions(f.Subject, func(v ssa.Value) bool {
				if lk, ok := v.(*ssa.Lookup); ok {
					if p, ok := core.Strip(lk.X).(*ssa.Parameter); ok && p.Name() == pname {
						hit = true
					}
				}
				return false
			})
			if hit {
				return true, 1 - holdsEdge(f)
			}
			return false, 0
		})
		c.behindEdges("R06.8", "setTimeoutList", stl, es, isRem, "!"+pname+"[txHash]", "timeout-list removal")
		guard("!"+pname+"[txHash]", func(f core.Fact, ifi *ssa.If) (bool, int) {
			if f.Kind != core.FBool {
				return false, 0
			}
			hit := false
			core.Mentions(f.Subject, func(v ssa.Value) bool {
				if lk, ok := v.(*ssa.Lookup); ok {
					if p, ok := core.Strip(lk.X).(*ssa.Parameter); ok && p.Name() == pname {
						hit = true
					}
				}
				return false
			})
			if hit {
				return true, 1 - holdsEdge(f)
			}
			return false, 0
		})
	}
	if recordedMode {
		r.OK("R06.2", "setTimeoutList: timeout registration behind TimeoutHeight > 0", c.P.Pos(stl.Pos()), "the request is listed under the recorded height; T = 0 and overflowing T are decided where the record is written (R06.13) and honoured through record.Height != MaxUint64 (R06.11)")
	}
	guardUnlessRecorded := func(name string, pick func(f core.Fact, ifi *ssa.If) (bool, int)) {
		if !recordedMode {
			guard(name, pick)
		}
	}
	guardUnlessRecorded("TimeoutHeight > 0", func(f core.Fact, ifi *ssa.If) (bool, int) {
		// `ibtp.TimeoutHeight <= 0` false edge
		if ifi == nil {
			return false, 0
		}
		bo, ok := ifi.Cond.(*ssa.BinOp)
		if !ok || !core.Mentions(bo.X, fieldLoad("IBTP", "TimeoutHeight")) {
			return false, 0
		}
		if z, ok := core.ConstInt(bo.Y); !ok || z != 0 {
			return false, 0
		}
		switch bo.Op {
		case token.LEQ, token.LSS:
			return true, 1
		case token.GTR:
			return true, 0
		}
		return false, 0
	})
	guardUnlessRecorded("TimeoutHeight below the overflow bound", func(f core.Fact, ifi *ssa.If) (bool, int) {
		bo, ok := ifi.Cond.(*ssa.BinOp)
		if !ok || !core.Mentions(bo.X, fieldLoad("IBTP", "TimeoutHeight")) {
			return false, 0
		}
		if !core.Mentions(bo.Y, func(v ssa.Value) bool { return height != nil && v == ssa.Value(height) }) {
			return false, 0
		}
		switch bo.Op {
		case token.GEQ, token.GTR:
			return true, 1
		case token.LSS, token.LEQ:
			return true, 0
		}
		return false, 0
	})

	c.zeroTimeoutDeadline(recordedMode)

	c.timeoutListInvariant("R06.3", "R06.6", "R06.7")
	c.timeoutListIdentity()

	// R06.4
	execFuncs := map[*ssa.Function]bool{}
	for _, fn := range c.P.ModuleFuncs(true) {
		if core.PkgOf(fn) == "internal/executor" {
			execFuncs[fn] = true
		}
	}
	writes := map[*ssa.Function]bool{}
	for changed := true; changed; {
		changed = false
		for fn := range execFuncs {
			if writes[fn] {
				continue
			}
			for _, call := range core.Calls(fn) {
				o := core.CalleeObj(call)
				if o != nil && call.Common().IsInvoke() && ledgerWriteMethods[o.Name()] {
					writes[fn] = true
				}
				if g := core.StaticCallee(call); g != nil && writes[g] {
					writes[fn] = true
				}
			}
			if writes[fn] {
				changed = true
			}
		}
	}
	isWriter := func(in ssa.Instruction) bool {
		call, ok := in.(ssa.CallInstruction)
		if !ok {
			return false
		}
		if g := core.StaticCallee(call); g != nil && writes[g] {
			return true
		}
		o := core.CalleeObj(call)
		if o != nil && call.Common().IsInvoke() && (ledgerWriteMethods[o.Name()] || o.Name() == "ApplyTransactions") {
			return true
		}
		return false
	}
	ws := sites(pe, isWriter)
	r.Floor("R06.4", "ledger-writing calls in processExecuteEvent", len(ws), 3)
	flush := sites(pe, callToMethod("FlushDirtyData"))
	persist := sites(pe, callToMethod("PersistBlockData"))
	if len(flush) != 1 || len(persist) != 1 {
		r.Unknown("R06.4", "processExecuteEvent: flush/persist sites", c.P.Pos(pe.Pos()), fmt.Sprintf("expected one FlushDirtyData and one PersistBlockData call, found %d/%d", len(flush), len(persist)))
	} else {
		rs := core.Reach([]core.Point{core.After(flush[0])}, nil, nil)
		for _, w := range ws {
			call := w.(ssa.CallInstruction)
			r.Check(!rs.Has(w), "R06.4", "processExecuteEvent: "+shortCallee(call)+" before FlushDirtyData", c.P.Pos(w.Pos()), "not reachable after the flush",
				"a ledger write is sequenced after FlushDirtyData: it is not part of this block's state root and journal (it lands in the next block or is dropped by Clear)")
		}
		r.Check(rs.Has(persist[0]), "R06.4", "processExecuteEvent: PersistBlockData after FlushDirtyData", c.P.Pos(persist[0].Pos()), "flush precedes persist", "PersistBlockData is not reached after FlushDirtyData")
	}

	// R06.5
	for _, fn := range []*ssa.Function{str, gtm} {
		var hp *ssa.Parameter
		for _, p := range fn.Params {
			if p.Name() == "height" {
				hp = p
			}
		}
		ok := false
		for _, call := range core.Calls(fn) {
			if core.StaticCallee(call) == gtl && hp != nil && core.Strip(call.Common().Args[1]) == ssa.Value(hp) {
				ok = true
			}
		}
		r.Check(ok, "R06.5", shortFn(fn)+": list of its own height", c.P.Pos(fn.Pos()), "iterates getTimeoutList(height)", "the expiry list is not read for the function's own height")
	}
	allowedFields := map[string]bool{"ledger": true, "config": true, "logger": true}
	for _, fn := range []*ssa.Function{stl, gtm, str, gtl, c.P.Fn(execPrefix + "setTxRecord"), c.P.Fn(execPrefix + "setGlobalTxStatus"), c.P.Fn(execPrefix + "getTxInfoByGlobalID"), c.P.Fn(execPrefix + "addTimeoutList"), c.P.Fn(execPrefix + "removeTimeoutList")} {
		if fn == nil {
			continue
		}
		bad := ""
		for _, b := range fn.Blocks {
			for _, in := range b.Instrs {
				if fa, ok := in.(*ssa.FieldAddr); ok {
					if o, f, _, ok := core.FieldOf(fa); ok && o == "internal/executor.BlockExecutor" && !allowedFields[f] {
						bad = f
					}
				}
			}
		}
		r.Check(bad == "", "R06.5", shortFn(fn)+": no in-memory executor state", c.P.Pos(fn.Pos()), "reads only ledger/config/logger", "timeout bookkeeping depends on the in-memory executor field "+bad+" (lost on restart)")
	}
}

func shortCallee(call ssa.CallInstruction) string {
	n := core.CalleeName(call)
	if i := strings.LastIndex(n, "."); i >= 0 {
		return n[i+1:]
	}
	return n
}

// timeoutListInvariant emits the obligations that keep the invariant "the
// timeout list of a height contains exactly the requests still in BEGIN":
// removal on every accepted receipt, readable list encoding, coherent
// per-block accumulators. Shared by C06 and C04 (whose timeout edge relies on it).
func (c *Ctx) timeoutListInvariant(rRemoval, rEncoding, rAccum string) {
	r := c.R
	stl := c.fn(rRemoval, execPrefix+"setTimeoutList")
	if stl == nil {
		return
	}
	addSites, remSites := c.timeoutUpdSites(stl)
	var remUpd []ssa.Instruction
	nRemInner := 0
	for _, s := range remSites {
		remUpd = append(remUpd, s.at)
		nRemInner += len(s.inner)
	}
	r.Floor(rRemoval, "removal updates in setTimeoutList", nRemInner, 2)
	// R06.3
	nU := 0
	// the receipt branch: what is reachable only across Category() == RESPONSE
	respEdges := condEdges(stl, func(f core.Fact, ifi *ssa.If) (bool, int) {
		if f.Kind != core.FCmp && f.Kind != core.FEqConst {
			return false, 0
		}
		isCat := func(v ssa.Value) bool {
			cl, ok := v.(*ssa.Call)
			return ok && strings.HasSuffix(core.CalleeName(cl), "pb.IBTP).Category")
		}
		var other ssa.Value
		switch {
		case f.Subject != nil && isCat(core.Strip(f.Subject)):
			other = f.Other
		case f.Other != nil && isCat(core.Strip(f.Other)):
			other = f.Subject
		default:
			return false, 0
		}
		if other != nil && enumName(core.Strip(other)) == "IBTP_RESPONSE" {
			return true, holdsEdge(f)
		}
		return false, 0
	})
	outsideReceipt := core.Reach([]core.Point{core.EntryOf(stl)}, nil, core.CutOf(respEdges))
	for _, call := range core.Calls(stl) {
		cl, ok := call.(*ssa.Call)
		if !ok {
			continue
		}
		if !c.decodesType(call, "pb.TransactionRecord", 2) {
			continue
		}
		if respEdges.Len() > 0 && outsideReceipt.Has(cl) {
			continue // a record decoded outside the receipt branch (the request branch consults it for R06.11)
		}
		nU++
		// from the no-error edge of Unmarshal: every path to the next loop iteration / nil return passes a removal update
		okEdges := errNilEdges(stl, cl)
		isRem := func(in ssa.Instruction) bool {
			for _, x := range remUpd {
				if x == in {
					return true
				}
			}
			return false
		}
		bad := ""
		for b, mm := range okEdges {
			for si := range mm {
				rs := core.Reach([]core.Point{{B: b.Succs[si], Idx: 0}}, isRem, nil)
				for _, blk := range stl.Blocks {
					if strings.HasSuffix(blk.Comment, ".loop") && blk.Dominates(cl.Block()) && len(blk.Instrs) > 0 && rs.Has(blk.Instrs[len(blk.Instrs)-1]) {
						bad = "a path from the decoded record goes on to the next transaction without updating the removal map: lines " + rs.Witness(c.P, blk.Instrs[len(blk.Instrs)-1])
					}
				}
			}
		}
		r.Check(bad == "" && okEdges.Len() > 0, rRemoval, "setTimeoutList: receipt removes the id from the list of the recorded height", c.P.Pos(cl.Pos()),
			"every path after decoding the stored record updates removeTimeoutListMap", "a receipt can leave its request in the timeout list: "+bad+"; at the timeout height the finished transaction is then overwritten with BEGIN_ROLLBACK and listed as timed out")
	}
	r.Floor(rRemoval, "record decodes in the receipt branch", nU, 1)

	// R06.6 list encoding: a separator is emitted only after a non-empty prefix
	r.Rule(rEncoding, "list encoding: the reader treats a list whose first element is empty as no list; therefore every place that appends an id to a stored comma-separated timeout list (builder.WriteString(\",\"), x + \",\" + y, strings.Join of a literal pair) emits the separator only behind a test that the existing list is not the empty string (directly or in the helper it delegates to).")
	nSep := 0
	var sepFuncs []*ssa.Function
	for _, fn := range c.P.ModuleFuncs(true) {
		pk := core.PkgOf(fn)
		if pk != "internal/executor" && pk != "internal/executor/contracts" {
			continue
		}
		// only functions that handle timeout lists: they (or their callers) use TimeoutKey; helpers are reached by name below
		usesKey := false
		for _, call := range core.Calls(fn) {
			if strings.HasSuffix(core.CalleeName(call), "contracts.TimeoutKey") {
				usesKey = true
			}
		}
		if usesKey {
			sepFuncs = append(sepFuncs, fn)
			// helpers called with the stored value
			for _, call := range core.Calls(fn) {
				if g := core.StaticCallee(call); g != nil && c.P.InModule(g) && g.Blocks != nil && (core.PkgOf(g) == pk) {
					dup := false
					for _, x := range sepFuncs {
						if x == g {
							dup = true
						}
					}
					if !dup {
						sepFuncs = append(sepFuncs, g)
					}
				}
			}
		}
	}
	for _, fn := range sepFuncs {
		nonEmpty := condEdges(fn, func(f core.Fact, ifi *ssa.If) (bool, int) {
			if f.Kind == core.FEqConst && f.Const == "" && f.Field == "" {
				if _, isStr := core.ConstString(f.Other); isStr {
					return true, 1 - holdsEdge(f) // x != ""
				}
			}
			if f.Kind == core.FEqConst && f.Const == "0" {
				if call, ok := f.Subject.(*ssa.Call); ok {
					if b, ok := call.Call.Value.(*ssa.Builtin); ok && b.Name() == "len" {
						return true, 1 - holdsEdge(f)
					}
				}
			}
			return false, 0
		})
		isSep := func(in ssa.Instruction) bool {
			switch x := in.(type) {
			case ssa.CallInstruction:
				n := core.CalleeName(x)
				if n == "(*strings.Builder).WriteString" {
					if s, ok := core.ConstString(core.Arg(x, 0)); ok && s == "," {
						return true
					}
				}
				if n == "strings.Join" {
					if s, ok := core.ConstString(x.Common().Args[1]); ok && s == "," {
						// only a literal pair/tuple (an append), not the re-join of a split list
						if sl, ok := x.Common().Args[0].(*ssa.Slice); ok {
							if _, isAlloc := sl.X.(*ssa.Alloc); isAlloc {
								return true
							}
						}
					}
				}
			case *ssa.BinOp:
				if x.Op == token.ADD {
					if s, ok := core.ConstString(x.Y); ok && s == "," {
						return true
					}
					if s, ok := core.ConstString(x.X); ok && s == "," {
						return true
					}
				}
			}
			return false
		}
		ss := sites(fn, isSep)
		if len(ss) == 0 {
			continue
		}
		nSep += c.behindEdges(rEncoding, shortFn(fn), fn, nonEmpty, isSep, "existing list != \"\"", "separator emission")
	}
	r.Floor(rEncoding, "separator emissions in timeout-list code", nSep, 2)

	// R06.7 accumulator coherence
	r.Rule(rAccum, "accumulator coherence: in setTimeoutList a map element that is extended (m[k] = f(old, id)) or initialised under a comma-ok lookup uses the lookup of the same map and key (not the sibling accumulator).")
	nAcc := 0
	var allInner []*ssa.MapUpdate
	seenMu := map[*ssa.MapUpdate]bool{}
	for _, us := range append(append([]updSite{}, addSites...), remSites...) {
		for _, mu := range us.inner {
			if !seenMu[mu] {
				seenMu[mu] = true
				allInner = append(allInner, mu)
			}
		}
	}
	for _, mu := range allInner {
		in := ssa.Instruction(mu)
		// closest dominating comma-ok lookup
		var lk *ssa.Lookup
		for b := mu.Block(); b != nil && lk == nil; b = b.Idom() {
			if b == mu.Block() {
				continue
			}
			if ifi := core.IfOf(b); ifi != nil {
				f := core.CondFact(ifi.Cond)
				if ex, ok := f.Subject.(*ssa.Extract); ok && ex.Index == 1 {
					if l, ok := ex.Tuple.(*ssa.Lookup); ok && l.CommaOk && l.X.Type().String() == mu.Map.Type().String() {
						lk = l
					}
				}
			}
		}
		if lk == nil {
			continue
		}
		nAcc++
		ok := core.Strip(lk.X) == core.Strip(mu.Map) && sameValue(lk.Index, mu.Key)
		r.Check(ok, rAccum, "setTimeoutList: accumulator read/write agree", c.P.Pos(in.Pos()), "extends the element it looked up", "the per-block accumulator is extended from a lookup in a different map/key: ids recorded earlier in the block for the same height are overwritten")
	}
	r.Floor(rAccum, "accumulator updates under a lookup", nAcc, 2)

	// R06.9 fold coherence
	r.Rule("R06.9", "fold coherence: a list that a loop of the executor or the contracts rewrites element by element (acc = step(acc, x) with a string or slice accumulator) is carried from one iteration to the next - the step is applied to the accumulated value, never to the value the accumulator started from; otherwise only the last element's effect survives (removeTimeoutList would keep all but one finished id in the timeout list).")
	nFold := 0
	for _, fn := range c.P.ModuleFuncs(true) {
		pk := core.PkgOf(fn)
		if pk == "internal/executor" || pk == "internal/executor/contracts" {
			nFold += c.foldRestarts("R06.9", fn)
		}
	}
	r.Floor("R06.9", "loop-carried list accumulators", nFold, 1)

	// R06.10 expiry sees the maintained list
	r.Rule("R06.10", "expiry sees the maintained list: in processExecuteEvent everything that reads the timeout list of the current height for expiry (getTimeoutIBTPsMap, setTimeoutRollback) is preceded on every path by setTimeoutList of the same block, so a receipt accepted in the very block in which its request expires is removed first; inside setTimeoutList no addition write-back (writeToStr side) is reachable after a removal write-back (removeFromStr side), so a request and its receipt accepted in one block cancel out; getTimeoutIBTPsMap, which reads the stored child statuses to decide which chains are told to roll back, runs before setTimeoutRollback overwrites them.")
	pe10 := c.fn("R06.10", "internal/executor.(*BlockExecutor).processExecuteEvent")
	stl10 := c.fn("R06.10", "internal/executor.(*BlockExecutor).setTimeoutList")
	str10 := c.fn("R06.10", "internal/executor.(*BlockExecutor).setTimeoutRollback")
	gtm10 := c.fn("R06.10", "internal/executor.(*BlockExecutor).getTimeoutIBTPsMap")
	if pe10 != nil && stl10 != nil && str10 != nil && gtm10 != nil {
		n := c.mustPrecede("R06.10", "processExecuteEvent", pe10, c.callReaching(stl10), func(in ssa.Instruction) bool {
			call, ok := in.(ssa.CallInstruction)
			if !ok {
				return false
			}
			g := core.StaticCallee(call)
			return g == str10 || g == gtm10
		}, "setTimeoutList (this block's receipts removed, requests added)", "expiry of the current height")
		r.Floor("R06.10", "expiry reads in processExecuteEvent", n, 2)
	}
	c.expiryReadBeforeOverwrite("R06.10")
	wts := c.fn("R06.10", "internal/executor.(*BlockExecutor).writeToStr")
	rfs := c.fn("R06.10", "internal/executor.(*BlockExecutor).removeFromStr")
	if stl10 != nil && wts != nil && rfs != nil {
		isAdd, isRem := c.callReaching(wts), c.callReaching(rfs)
		adds, rems := sites(stl10, isAdd), sites(stl10, isRem)
		r.Floor("R06.10", "write-back sites of setTimeoutList", len(adds)+len(rems), 2)
		bad := ""
		for _, rm := range rems {
			after := core.Reach([]core.Point{core.After(rm)}, nil, nil)
			for _, ad := range adds {
				if ad != rm && after.Has(ad) && !isRem(ad) {
					bad = c.P.Pos(ad.Pos()) + " after " + c.P.Pos(rm.Pos())
				}
			}
		}
		r.Check(bad == "", "R06.10", "setTimeoutList: additions are written back before removals", c.P.Pos(stl10.Pos()), fmt.Sprintf("%d addition and %d removal write-back site(s); no addition is reachable after a removal", len(adds), len(rems)),
			"an addition write-back is reachable after a removal write-back ("+bad+"): the id of a request whose receipt is accepted in the same block is removed from a list that does not hold it yet and then added - it stays listed and the finished transaction is rolled back at its timeout height")
	}
}

// timeoutListIdentity: R06.8 (contract side): add/remove of a timeout-list entry name the group record's id and height.
func (c *Ctx) timeoutListIdentity() {
	r := c.R
	m := c.Contracts()
	isGlobalKeyArg := func(fn *ssa.Function, v ssa.Value) bool {
		for _, call := range core.Calls(fn) {
			if !strings.HasSuffix(core.CalleeName(call), "contracts.GlobalTxInfoKey") {
				continue
			}
			a := core.Arg(call, 0)
			if sameValue(a, v) || core.Strip(a) == core.Strip(v) {
				return true
			}
		}
		return false
	}
	callersOf := func(target *ssa.Function) []ssa.CallInstruction {
		var out []ssa.CallInstruction
		for _, fn := range m.funcs {
			for _, call := range core.Calls(fn) {
				if core.StaticCallee(call) == target {
					out = append(out, call)
				}
			}
		}
		return out
	}
	n := 0
	for _, fn := range m.funcs {
		if fn.Name() == "addToTimeoutList" || fn.Name() == "removeFromTimeoutList" {
			continue
		}
		for _, call := range core.Calls(fn) {
			cn := core.CalleeName(call)
			if !strings.HasSuffix(cn, "TransactionManager).addToTimeoutList") && !strings.HasSuffix(cn, "TransactionManager).removeFromTimeoutList") {
				continue
			}
			n++
			h, id := core.Arg(call, 0), core.Arg(call, 1)
			okID := isGlobalKeyArg(fn, id)
			if !okID {
				if p, isP := core.Strip(id).(*ssa.Parameter); isP {
					// lifted: every caller passes the id of the group record
					idx := -1
					for i, q := range fn.Params {
						if q == p {
							idx = i
						}
					}
					cs := callersOf(fn)
					okID = idx >= 0 && len(cs) > 0
					for _, cc := range cs {
						if idx < 0 || idx >= len(cc.Common().Args) || !isGlobalKeyArg(cc.Parent(), cc.Common().Args[idx]) {
							okID = false
						}
					}
					if idx < 0 && p.Parent() != nil && p.Parent() != fn {
						// the id is a parameter of the function that filled a context struct: decided there
						okID = isGlobalKeyArg(p.Parent(), p)
					}
				}
			}
			if !okID {
				// the id travels in a context struct that the caller filled (b.globalID next to b.globalKey)
				if u, isU := core.Strip(id).(*ssa.UnOp); isU {
					if fa, isFA := u.X.(*ssa.FieldAddr); isFA {
						if vals, isCtx := core.CtxFieldValues(fa); isCtx && len(vals) > 0 {
							okID = true
							for _, cv := range vals {
								var g *ssa.Function
								switch x := cv.(type) {
								case *ssa.Parameter:
									g = x.Parent()
								case ssa.Instruction:
									g = x.Parent()
								}
								if g == nil || !isGlobalKeyArg(g, cv) {
									okID = false
								}
							}
						}
					}
				}
			}
			_, fld, _, okH := core.FieldOf(h)
			key := shortFn(fn) + ": " + shortCallee(call)
			r.Check(okID && okH && fld == "Height", "R06.8", key+fmt.Sprintf(" #%d", n), c.P.Pos(call.Pos()), "(txInfo.Height, id of the group record)",
				"the timeout-list entry is added / removed under an id that is not the id of the group record (GlobalTxInfoKey argument) or with a height that is not the record's: the entry that was added is never the one removed, so a finished or failed group is rolled back at its timeout height (or a live one never is)")
		}
	}
	r.Floor("R06.8", "timeout-list calls in the transaction manager", n, 3)
}

// timeoutUpdSites: the per-block accumulator updates of setTimeoutList: registration (key derived from
// ibtp.TimeoutHeight) and removal (key = the stored record's Height), direct or through a helper.
func (c *Ctx) timeoutUpdSites(stl *ssa.Function) (add, rem []updSite) {
	// The two per-block accumulators are told apart by what consumes them: the map whose entries are handed
	// to a helper that takes ids out of a stored list (reaches removeFromStr) is the removal accumulator, the
	// map whose entries are handed to a helper that does not is the registration accumulator. Only when no
	// consumer is found (the write-back was restructured beyond recognition) the shape of the key decides.
	remFn := c.P.Fn(execPrefix + "removeFromStr")
	reachesRemove := func(g *ssa.Function) bool {
		if g == nil || remFn == nil {
			return false
		}
		seen := map[*ssa.Function]bool{}
		var walk func(f *ssa.Function, d int) bool
		walk = func(f *ssa.Function, d int) bool {
			if f == remFn {
				return true
			}
			if seen[f] || d > 3 || !c.P.InModule(f) {
				return false
			}
			seen[f] = true
			for _, call := range core.Calls(f) {
				if h := core.StaticCallee(call); h != nil && walk(h, d+1) {
					return true
				}
			}
			return false
		}
		return walk(g, 0)
	}
	kind := map[ssa.Value]int{} // stripped map value -> 1 registration, 2 removal
	for _, b := range stl.Blocks {
		for _, in := range b.Instrs {
			rg, ok := in.(*ssa.Range)
			if !ok {
				continue
			}
			m := core.Strip(rg.X)
			fromRange := func(v ssa.Value) bool {
				return core.Mentions(v, func(w ssa.Value) bool {
					ex, ok := w.(*ssa.Extract)
					if !ok {
						return false
					}
					nx, ok := ex.Tuple.(*ssa.Next)
					return ok && nx.Iter == ssa.Value(rg)
				})
			}
			for _, call := range core.Calls(stl) {
				g := core.StaticCallee(call)
				if g == nil || !c.P.InModule(g) {
					continue
				}
				uses := false
				for _, a := range call.Common().Args {
					if fromRange(a) {
						uses = true
					}
				}
				if !uses {
					continue
				}
				if reachesRemove(g) {
					kind[m] = 2
				} else if kind[m] == 0 {
					kind[m] = 1
				}
			}
		}
	}
	for _, us := range c.mapUpdateSites(stl) {
		switch kind[core.Strip(us.m)] {
		case 1:
			add = append(add, us)
			continue
		case 2:
			rem = append(rem, us)
			continue
		}
		if core.Mentions(us.k, fieldLoad("IBTP", "TimeoutHeight")) {
			add = append(add, us)
		} else if core.Mentions(us.k, fieldLoad("TransactionRecord", "Height")) {
			rem = append(rem, us)
		}
	}
	return
}

// sameExpr: structural equality of two pure expressions (same value, or the same conversion / load applied
// to equal operands). go/ssa has no CSE, so `string(val)` written twice is two Convert instructions.
func sameExpr(a, b ssa.Value, d int) bool {
	if sameValue(a, b) {
		return true
	}
	a, b = core.Strip(a), core.Strip(b)
	if d > 4 {
		return false
	}
	switch x := a.(type) {
	case *ssa.Convert:
		y, ok := b.(*ssa.Convert)
		return ok && x.Type().String() == y.Type().String() && sameExpr(x.X, y.X, d+1)
	case *ssa.ChangeType:
		y, ok := b.(*ssa.ChangeType)
		return ok && sameExpr(x.X, y.X, d+1)
	case *ssa.Call:
		// the same static function applied to equal arguments (strings.ToLower(v), v.String(), ...)
		y, ok := b.(*ssa.Call)
		if !ok || x.Call.IsInvoke() != y.Call.IsInvoke() || len(x.Call.Args) != len(y.Call.Args) {
			return false
		}
		if x.Call.IsInvoke() {
			if x.Call.Method != y.Call.Method || !sameExpr(x.Call.Value, y.Call.Value, d+1) {
				return false
			}
		} else {
			fx, fy := core.StaticCallee(x), core.StaticCallee(y)
			if fx == nil || fx != fy {
				return false
			}
		}
		for i := range x.Call.Args {
			if !sameExpr(x.Call.Args[i], y.Call.Args[i], d+1) {
				return false
			}
		}
		return true
	}
	return false
}

// foldRestarts: loop-carried accumulators (a header phi of string / slice type whose back-edge value is the
// result of a call, and which is used beyond that call) whose step does not take the accumulator but the
// value the accumulator started from: every iteration restarts from the initial value, only the last counts.
// Returns the number of accumulators analysed.
func (c *Ctx) foldRestarts(rule string, fn *ssa.Function) int {
	r := c.R
	n := 0
	for _, b := range fn.Blocks {
		for _, in := range b.Instrs {
			phi, ok := in.(*ssa.Phi)
			if !ok {
				break
			}
			if len(phi.Edges) != 2 {
				continue
			}
			switch phi.Type().Underlying().(type) {
			case *types.Slice:
			case *types.Basic:
				if phi.Type().Underlying().(*types.Basic).Kind() != types.String {
					continue
				}
			default:
				continue
			}
			for i, e := range phi.Edges {
				call, ok := e.(*ssa.Call)
				if !ok || !b.Dominates(call.Block()) {
					continue
				}
				g := core.StaticCallee(call)
				if g == nil || !c.P.InModule(g) {
					continue
				}
				init := phi.Edges[1-i]
				takesSameType := false
				for _, a := range call.Call.Args {
					if types.Identical(a.Type(), phi.Type()) {
						takesSameType = true
					}
				}
				if !takesSameType {
					continue
				}
				n++
				usesAcc, usesInit := false, false
				for _, a := range call.Call.Args {
					if core.Mentions(a, func(v ssa.Value) bool { return v == ssa.Value(phi) }) {
						usesAcc = true
					}
					if sameExpr(core.Strip(a), core.Strip(init), 0) {
						usesInit = true
					}
				}
				key := shortFn(fn) + ": list accumulator folded by " + g.Name() + " is loop-carried"
				switch {
				case usesAcc:
					r.OK(rule, key, c.P.Pos(call.Pos()), "the step takes the loop-carried value")
				case usesInit:
					r.Bad(rule, key, c.P.Pos(call.Pos()), "each iteration applies "+g.Name()+" to the value the accumulator started from, not to the accumulated result: the effect of all iterations but the last is discarded")
				default:
					n--
				}
			}
		}
	}
	return n
}

// expiryReadBeforeOverwrite (R06.10 / R05.5): in processExecuteEvent the notification set of the expiring
// height is computed from the stored statuses before setTimeoutRollback overwrites them.
func (c *Ctx) expiryReadBeforeOverwrite(rule string) {
	pe := c.fn(rule, "internal/executor.(*BlockExecutor).processExecuteEvent")
	str := c.fn(rule, "internal/executor.(*BlockExecutor).setTimeoutRollback")
	gtm := c.fn(rule, "internal/executor.(*BlockExecutor).getTimeoutIBTPsMap")
	if pe == nil || str == nil || gtm == nil {
		return
	}
	isCallTo := func(g *ssa.Function) InstrPred {
		return func(in ssa.Instruction) bool {
			call, ok := in.(ssa.CallInstruction)
			return ok && core.StaticCallee(call) == g
		}
	}
	n := c.mustPrecede(rule, "processExecuteEvent", pe, isCallTo(gtm), isCallTo(str), "getTimeoutIBTPsMap (reads the stored child statuses)", "setTimeoutRollback (overwrites them with BEGIN_ROLLBACK)")
	c.R.Floor(rule, "status overwrites at expiry in processExecuteEvent", n, 1)
}

// zeroTimeoutDeadline (R06.13): in every method of the transaction manager that stores a deadline
// (GetCurrentHeight() + timeout parameter) into the Height field of a record, the value recorded when the
// timeout is 0 is MaxUint64. Mandatory where the function lists the id itself (addToTimeoutList) and, when the
// executor lists requests under the recorded height (recordedMode), for every such function.
func (c *Ctx) zeroTimeoutDeadline(recordedMode bool) {
	r := c.R
	isMax := func(v ssa.Value) bool {
		k, ok := core.Strip(v).(*ssa.Const)
		return ok && k.Value != nil && k.Value.ExactString() == "18446744073709551615"
	}
	n := 0
	for _, fn := range c.P.ModuleFuncs(false) {
		if !strings.Contains(core.FnName(fn), "contracts.TransactionManager).") || len(fn.Blocks) == 0 {
			continue
		}
		// the deadline sums of fn and the timeout parameter they add
		var tparam *ssa.Parameter
		isSum := func(v ssa.Value) bool {
			for _, o := range append(core.Origins(v), v) {
				bo, ok := o.(*ssa.BinOp)
				if !ok || bo.Op != token.ADD {
					continue
				}
				cur := func(x ssa.Value) bool {
					return core.Mentions(x, func(w ssa.Value) bool {
						cc, ok := w.(*ssa.Call)
						return ok && strings.HasSuffix(core.CalleeName(cc), "GetCurrentHeight")
					})
				}
				var other ssa.Value
				switch {
				case cur(bo.X):
					other = bo.Y
				case cur(bo.Y):
					other = bo.X
				default:
					continue
				}
				if p, ok := core.Strip(other).(*ssa.Parameter); ok {
					tparam = p
					return true
				}
			}
			return false
		}
		type hstore struct {
			st  *ssa.Store
			sum bool
			max bool
		}
		var stores []hstore
		for _, b := range fn.Blocks {
			for _, in := range b.Instrs {
				st, ok := in.(*ssa.Store)
				if !ok {
					continue
				}
				if _, f, _, ok := core.FieldOf(st.Addr); !ok || f != "Height" {
					continue
				}
				stores = append(stores, hstore{st, isSum(st.Val), isMax(st.Val)})
			}
		}
		hasSum := false
		for _, s := range stores {
			if s.sum {
				hasSum = true
			}
		}
		if !hasSum || tparam == nil {
			continue
		}
		lists := false
		for _, call := range core.Calls(fn) {
			if strings.HasSuffix(core.CalleeName(call), "addToTimeoutList") {
				lists = true
			}
		}
		key := shortFn(fn) + ": recorded Height for timeout = 0"
		if !lists && !recordedMode {
			r.Note("R06.13", key, c.P.Pos(fn.Pos()), "the executor lists requests under height + ibtp.TimeoutHeight behind its own TimeoutHeight > 0 guard (R06.2); the recorded Height only names the list a receipt removes the id from")
			continue
		}
		n++
		isStore := func(in ssa.Instruction) *hstore {
			for i := range stores {
				if ssa.Instruction(stores[i].st) == in {
					return &stores[i]
				}
			}
			return nil
		}
		// edges on which the timeout parameter is 0
		zero := condEdges(fn, func(f core.Fact, ifi *ssa.If) (bool, int) {
			isT := func(v ssa.Value) bool { return v != nil && core.Strip(v) == ssa.Value(tparam) }
			switch f.Kind {
			case core.FEqConst:
				if isT(f.Subject) && f.Const == "0" {
					return true, holdsEdge(f)
				}
			case core.FCmp:
				bo, ok := ifi.Cond.(*ssa.BinOp)
				if !ok {
					return false, 0
				}
				if z, ok := core.ConstInt(bo.Y); ok && isT(bo.X) {
					switch {
					case z == 0 && bo.Op == token.LEQ, z == 1 && bo.Op == token.LSS:
						return true, 0
					case z == 0 && bo.Op == token.GTR, z == 1 && bo.Op == token.GEQ:
						return true, 1
					}
				}
			}
			return false, 0
		})
		if zero.Len() == 0 {
			r.Bad("R06.13", key, c.P.Pos(fn.Pos()), "the deadline GetCurrentHeight() + "+tparam.Name()+" is recorded without any test of the timeout against 0: a request with T = 0 is recorded with the height of the block that accepted it, listed there, and rolled back in its own block")
			continue
		}
		bad := ""
		for b, idxs := range zero {
			for si := range idxs {
				if si >= len(b.Succs) {
					continue
				}
				first := map[*hstore]bool{}
				rs := core.Reach([]core.Point{{B: b.Succs[si], Idx: 0}}, func(in ssa.Instruction) bool {
					if h := isStore(in); h != nil {
						first[h] = true
						return true
					}
					return false
				}, nil)
				for h := range first {
					if !h.max {
						bad = "on the edge on which " + tparam.Name() + " is 0 the Height written next (" + c.P.Pos(h.st.Pos()) + ") is not MaxUint64"
					}
				}
				reachesExit := false
				for _, ret := range core.Returns(fn) {
					if rs.Has(ret) {
						reachesExit = true
					}
				}
				if !reachesExit {
					continue
				}
				// the value in force when the test is made: the last stores before it
				ifi := core.IfOf(b)
				for i := range stores {
					h := &stores[i]
					pre := core.Reach([]core.Point{core.After(h.st)}, func(in ssa.Instruction) bool { return isStore(in) != nil }, nil)
					if ifi != nil && pre.Has(ifi) && !h.max {
						bad = "on the edge on which " + tparam.Name() + " is 0 the function can finish with the Height written at " + c.P.Pos(h.st.Pos()) + ", which is not MaxUint64"
					}
				}
			}
		}
		r.Check(bad == "", "R06.13", key, c.P.Pos(fn.Pos()), "timeout tested against 0; on that edge the recorded Height is MaxUint64", bad+": a request with T = 0 gets a deadline and is rolled back although it must never time out")
	}
	// the deadline may be computed by a helper that returns it (record.Height = t.deadlineHeight(timeout)): the helper's
	// result for timeout == 0 must be MaxUint64
	for _, h := range c.P.ModuleFuncs(false) {
		if core.PkgOf(h) != "internal/executor/contracts" || h.Parent() != nil || len(h.Blocks) == 0 || h.Signature.Results().Len() != 1 {
			continue
		}
		var tparam *ssa.Parameter
		sumRet := false
		mentionsCur := func(v ssa.Value) bool {
			return core.Mentions(v, func(w ssa.Value) bool {
				cc, ok := w.(*ssa.Call)
				return ok && strings.HasSuffix(core.CalleeName(cc), "GetCurrentHeight")
			})
		}
		// the current height: read in the helper, or handed in by every caller
		isCurParam := func(v ssa.Value) bool {
			p, ok := core.Strip(v).(*ssa.Parameter)
			if !ok || p.Parent() != h {
				return false
			}
			pi := paramIndex(h, p)
			ss := core.StaticSitesOf(h)
			if pi < 0 || len(ss) == 0 {
				return false
			}
			for _, site := range ss {
				if pi >= len(site.Common().Args) || !mentionsCur(site.Common().Args[pi]) {
					return false
				}
			}
			return true
		}
		for _, ret := range core.Returns(h) {
			for _, o := range core.RetOrigins(ret.Results[0]) {
				bo, ok := core.Strip(o.V).(*ssa.BinOp)
				if !ok || bo.Op != token.ADD {
					continue
				}
				for _, side := range [][2]ssa.Value{{bo.X, bo.Y}, {bo.Y, bo.X}} {
					isCur := mentionsCur(side[0]) || isCurParam(side[0])
					if p, ok := core.Strip(side[1]).(*ssa.Parameter); ok && isCur && !isCurParam(side[1]) {
						tparam, sumRet = p, true
					}
				}
			}
		}
		if !sumRet {
			continue
		}
		// used as the recorded Height by a function of the transaction manager
		used := false
		for _, site := range core.StaticSitesOf(h) {
			cv, ok := site.(*ssa.Call)
			if !ok || cv.Referrers() == nil {
				continue
			}
			for _, rf := range *cv.Referrers() {
				if st, ok := rf.(*ssa.Store); ok {
					if _, f, _, ok := core.FieldOf(st.Addr); ok && f == "Height" {
						used = true
					}
				}
			}
		}
		if !used {
			continue
		}
		n++
		key := shortFn(h) + ": returned deadline for timeout = 0"
		zero := condEdges(h, func(f core.Fact, ifi *ssa.If) (bool, int) {
			if f.Kind == core.FEqConst && f.Subject != nil && core.Strip(f.Subject) == ssa.Value(tparam) && f.Const == "0" {
				return true, holdsEdge(f)
			}
			return false, 0
		})
		if zero.Len() == 0 {
			r.Bad("R06.13", key, c.P.Pos(h.Pos()), "the deadline GetCurrentHeight() + "+tparam.Name()+" is returned without any test of the timeout against 0")
			continue
		}
		bad := ""
		for b, idxs := range zero {
			for si := range idxs {
				rs := core.Reach([]core.Point{{B: b.Succs[si], Idx: 0}}, nil, nil)
				for _, ret := range core.Returns(h) {
					if !rs.Has(ret) {
						continue
					}
					for _, o := range core.RetOrigins(ret.Results[0]) {
						if o.Via != nil && o.To != nil {
							continue // value selected by an edge: decided by the return it reaches
						}
						if !isMax(o.V) {
							bad = "on the edge on which " + tparam.Name() + " is 0 the helper can return " + c.P.Pos(ret.Pos()) + ", which is not MaxUint64"
						}
					}
				}
			}
		}
		r.Check(bad == "", "R06.13", key, c.P.Pos(h.Pos()), "timeout tested against 0; on that edge the returned deadline is MaxUint64", bad+": a request with T = 0 gets a deadline and is rolled back although it must never time out")
	}
	r.Floor("R06.13", "transaction-manager functions recording a deadline they (or the executor) list ids under", n, 1)
}
