package rules

import (
	"fmt"
	"go/token"
	"go/types"
	"sort"
	"strings"

	"bxhlint/core"

	"golang.org/x/tools/go/ssa"
)

func init() { Props["C17"] = C17 }

// publicEntries: effectful entries that are callable by any account BY DESIGN.
// One line of reason each. Anything effectful, unguarded and not listed here is
// a violation: a new state-changing entry point needs a deliberate decision.
var publicEntries = map[string]string{
	"Store.Set":                        "public key-value store: any account may write keys of the store contract",
	"AppchainManager.RegisterAppchain": "anyone may apply to register an appchain; the effect is a proposal concluded by governance",
	"DappManager.RegisterDapp":         "anyone may apply to register a dapp; the effect is a proposal",
	"DappManager.EvaluateDapp":         "any account may evaluate a dapp once (record keyed by Caller())",
	"ServiceManager.EvaluateService":   "any account may evaluate a service once (record keyed by Caller())",
	"ServiceRegistry.Register":         "first-level domain registration is open to any account that pays for it (owner := Caller())",
	"ServiceRegistry.Renew":            "renewal is open to any payer by design of the name service",
	"InterchainManager.Register":       "creates an interchain record with zero counters only when none exists (create-if-absent); upstream's integration suite (tester/case003 TestRegister) calls it from a plain account, so it is public by the maintainers' intent",
	"EthHeaderManager.Mint":            "relayer entry of the optional Ethereum asset bridge: any account may submit an Ethereum receipt, whose validity is established by the light-client oracle, and each receipt hash is processed once",
}

// C17: internal and privileged contract entry points reject unauthorised callers.
func C17(c *Ctx) {
	r := c.R
	r.Rule("R17.1", "dispatch surface = exported method set of *T of every registered contract (promoted methods included), read from registerBoltContracts and go/types; floors: 15 contracts, 590 entries, 140 CrossInvoke sites.")
	r.Rule("R17.2", "every own entry that can cause an effect (ledger write, event, balance change, EVM call, or cross-invoke leading to one) must have every such effect behind a caller guard (checkPermission on CurrentCaller/Caller, comparison with the caller identity, role query about the caller, or a wrapper of those), or be listed as public-by-design with a reason.")
	r.Rule("R17.2b", "each checkPermission helper is a predicate on its regulator parameter: every possibly-nil return lies behind an equality/role-answer edge that depends on that parameter.")
	r.Rule("R17.2c", "at every checkPermission guard site of an entry the checked identity is CurrentCaller(); PermissionSpecific lists consist only of registered contract address constants.")
	r.Rule("R17.4", "promoted plumbing (boltvm.Stub methods, bitxhub-core manager methods) must not be dispatchable: a dispatcher-level filter must dominate reflect.Value.Call in InvokeBVM, and the result type must be validated before the call.")
	r.Rule("R17.5", "audit independence: the branch taken only when EnableAudit() is true contains no ledger write, balance change, cross-invoke with effects or caller guard, and posts events of AUDIT_* types only.")
	r.NotDecided = append(r.NotDecided, "correctness of role data beyond the index/record key agreement of R17.6; the cryptographic sender identity; value-level effects of guarded entries")

	c.c17IndexAgreement()

	m := c.Contracts()
	bvm := m.bvm
	nEntries := 0
	for _, ct := range bvm.Contracts {
		nEntries += len(ct.Entries)
	}
	r.Floor("R17.1", "registered contracts", len(bvm.Contracts), 15)
	r.Floor("R17.1", "dispatchable entries", nEntries, 590)
	r.Floor("R17.1", "CrossInvoke sites", len(bvm.Edges), 120) // 145 on the pinned tree; merging duplicated call sites into a shared helper lowers the count
	r.Count("functions summarised for effects", m.eff.Analysed())
	r.Count("guard wrappers found", len(m.callerG.Wrappers()))
	var wn []string
	for _, w := range m.callerG.Wrappers() {
		wn = append(wn, core.FnName(w))
	}
	sort.Strings(wn)
	r.Note("R17.2", "caller-guard wrappers", "", strings.Join(wn, "; "))

	// R17.2b
	nPerm := 0
	for fn, pf := range m.perm {
		nPerm++
		c.checkPermPredicate(m, fn, pf)
	}
	r.Floor("R17.2b", "checkPermission helpers", nPerm, 7)

	// R17.4
	nProm := 0
	for _, ct := range bvm.Contracts {
		for _, e := range ct.Entries {
			if e.Own {
				continue
			}
			nProm++
			key := e.Key() + " (promoted via " + e.Promoted + ")"
			switch {
			case !e.Invocable:
				r.OKTrivial("R17.4", key, ct.Pos, "not invocable: a parameter type cannot be produced by parseArgs")
			case bvm.FilterExcludes(e):
				r.OK("R17.4", key, ct.Pos, "excluded by the dispatcher filter in InvokeBVM before reflect Call")
			default:
				what := "promoted method is dispatchable by any account through InvokeBVM (no dispatcher filter)"
				if !e.WellTyped {
					what += "; its body runs and only then m.Call(..)[0] fails"
				}
				r.Bad("R17.4", key, ct.Pos, what)
			}
		}
	}
	r.Floor("R17.4", "promoted entries", nProm, 380)

	// R17.2 / R17.2c
	nOwn, nQuery, nGuarded, nPublic := 0, 0, 0, 0
	for _, ct := range bvm.Contracts {
		for _, e := range ct.Entries {
			if !e.Own || e.Fn == nil {
				continue
			}
			nOwn++
			pos := c.P.Pos(e.Fn.Pos())
			if !e.Invocable {
				r.OKTrivial("R17.2", e.Key(), pos, "not invocable from a transaction (parameter types not producible by parseArgs)")
				continue
			}
			if bvm.FilterExcludes(e) {
				r.OKTrivial("R17.2", e.Key(), pos, "excluded by the dispatcher filter")
				continue
			}
			sinks := m.eff.Sinks(e.Fn)
			if len(sinks) == 0 {
				nQuery++
				r.OKTrivial("R17.2", e.Key(), pos, "no effect reachable (query)")
				continue
			}
			ung := m.unguardedSinks(e.Fn)
			if len(ung) == 0 {
				nGuarded++
				r.OK("R17.2", e.Key(), pos, fmt.Sprintf("all %d effect sinks lie behind a caller guard; %s", len(sinks), m.guardWitness(e.Fn)))
				c.checkPermSites(m, e)
				continue
			}
			var first ssa.Instruction
			for in := range ung {
				if first == nil || in.Pos() < first.Pos() {
					first = in
				}
			}
			desc := fmt.Sprintf("%s at %s reachable without crossing a caller guard", m.describeSink(first), c.P.Pos(first.Pos()))
			if reason, ok := publicEntries[e.Key()]; ok {
				nPublic++
				r.OKTrivial("R17.2", e.Key(), pos, "public by design: "+reason+" ("+desc+")")
				continue
			}
			r.Bad("R17.2", e.Key(), pos, "effectful entry without caller guard: "+desc+fmt.Sprintf(" (%d unguarded of %d sinks); any external account can invoke it", len(ung), len(sinks)))
		}
	}
	r.Floor("R17.2", "own entries", nOwn, 190)
	r.Count("R17.2 queries", nQuery)
	r.Count("R17.2 guarded", nGuarded)
	r.Count("R17.2 public-by-design", nPublic)
	r.Floor("R17.2", "guarded entries", nGuarded, 50)
	for k := range publicEntries {
		ct := bvm.ByType[k[:strings.Index(k, ".")]]
		if ct == nil || ct.Entry(k[strings.Index(k, ".")+1:]) == nil {
			r.Note("R17.2", "public-table:"+k, "", "public-by-design table names an entry that no longer exists")
		}
	}

	// R17.5
	c.auditIndependence(m, "R17.5", false)
}

// guardWitness names the first guard edge of fn.
func (m *contractsModel) guardWitness(fn *ssa.Function) string {
	es := m.callerG.SuccessEdgesIn(fn)
	best := ""
	for b := range es {
		if ifi := core.IfOf(b); ifi != nil {
			p := m.c.P.Pos(ifi.Cond.Pos())
			if ifi.Cond.Pos() == 0 {
				p = m.c.P.Pos(ifi.Pos())
			}
			if best == "" || p < best {
				best = p
			}
		}
	}
	if best == "" {
		return "guard inside helper"
	}
	return "guard edge at " + best
}

// checkPermPredicate implements R17.2b.
func (c *Ctx) checkPermPredicate(m *contractsModel, fn *ssa.Function, pf *permFn) {
	reg := fn.Params[pf.regIdx]
	isReg := func(v ssa.Value) bool { return v == ssa.Value(reg) }
	es := core.EqualityEdges(fn, isReg, func(ssa.Value) bool { return true }, true)
	es.Merge(m.roleAnswerEdges(fn, isReg))
	// delegated boolean predicate about the regulator (e.g. isAvailableAdmin(regulatorAddr, ..))
	es.Merge(core.BoolCallEdges(fn, func(c *ssa.Call) bool {
		for _, a := range c.Call.Args {
			if core.Direct(isReg)(a) {
				return true
			}
			// a method of a context struct that carries the regulator address (chk := &regulatorCheck{addr: regulatorAddr};
			// chk.isAdminOfAppchain(id)): the struct is built in this function and one of its fields holds the parameter
			if al, ok := core.Strip(a).(*ssa.Alloc); ok && al.Parent() == fn {
				for _, ref := range *al.Referrers() {
					if fa, ok := ref.(*ssa.FieldAddr); ok && fa.X == ssa.Value(al) {
						for _, r2 := range *fa.Referrers() {
							if st, ok := r2.(*ssa.Store); ok && st.Addr == ssa.Value(fa) && core.Direct(isReg)(st.Val) {
								return true
							}
						}
					}
				}
			}
		}
		return false
	}))
	// `allowed, err = chk.isX(..)` in the arms of a switch, tested once behind it: the condition is a phi of the boolean
	// results of delegated predicates about the regulator (or false)
	aboutReg := func(cl *ssa.Call) bool {
		for _, a := range cl.Call.Args {
			if core.Direct(isReg)(a) {
				return true
			}
			if al, ok := core.Strip(a).(*ssa.Alloc); ok && al.Parent() == fn {
				for _, ref := range *al.Referrers() {
					if fa, ok := ref.(*ssa.FieldAddr); ok && fa.X == ssa.Value(al) {
						for _, r2 := range *fa.Referrers() {
							if st, ok := r2.(*ssa.Store); ok && st.Addr == ssa.Value(fa) && core.Direct(isReg)(st.Val) {
								return true
							}
						}
					}
				}
			}
		}
		return false
	}
	for _, b := range fn.Blocks {
		ifi := core.IfOf(b)
		if ifi == nil {
			continue
		}
		cond, edge := ifi.Cond, 0
		if un, ok := cond.(*ssa.UnOp); ok && un.Op == token.NOT {
			cond, edge = un.X, 1
		}
		ph, ok := cond.(*ssa.Phi)
		if !ok || len(ph.Edges) == 0 {
			continue
		}
		all := true
		for _, e := range ph.Edges {
			if k, isK := e.(*ssa.Const); isK && k.Value != nil && k.Value.ExactString() == "false" {
				continue
			}
			ex, isEx := e.(*ssa.Extract)
			if !isEx {
				all = false
				break
			}
			cl, isCall := ex.Tuple.(*ssa.Call)
			if !isCall || !aboutReg(cl) {
				all = false
				break
			}
			if bt, isB := ex.Type().Underlying().(*types.Basic); !isB || bt.Kind() != types.Bool {
				all = false
				break
			}
		}
		if all {
			es.Add(b, edge)
		}
	}
	cut := core.CutOf(es)
	rs := core.Reach([]core.Point{core.EntryOf(fn)}, nil, cut)
	key := core.FnName(fn)
	bad := false
	n := 0
	for _, ret := range core.Returns(fn) {
		for _, o := range core.RetOrigins(ret.Results[0]) {
			if !core.OriginMayBeSuccess(fn, ret, o.V, core.ConvErrNil) {
				continue
			}
			n++
			if core.OriginReachable(rs, cut, ret, o) {
				bad = true
				c.R.Bad("R17.2b", key, c.P.Pos(ret.Pos()), "permission helper can return nil without an equality / role-answer test on regulatorAddr: path "+rs.Witness(c.P, ret))
			}
		}
	}
	if !bad {
		c.R.OK("R17.2b", key, c.P.Pos(fn.Pos()), fmt.Sprintf("%d nil-return origin(s), each behind one of %d positive edges on regulatorAddr", n, es.Len()))
	}
}

// checkPermSites implements R17.2c for entry e (guard sites in the entry body).
func (c *Ctx) checkPermSites(m *contractsModel, e *core.Entry) {
	for _, s := range m.permSites(e.Fn) {
		key := e.Key() + " guard"
		pos := c.P.Pos(s.call.Pos())
		if s.subject != "CurrentCaller" {
			c.R.Bad("R17.2c", key, pos, "checkPermission is applied to "+s.subject+" instead of CurrentCaller(): a guard on the transaction sender is spoofable through an intermediate contract")
			continue
		}
		if !s.permsOK {
			c.R.Bad("R17.2c", key, pos, "permission list of the guard does not evaluate to constants")
			continue
		}
		hasSpecific := false
		for _, p := range s.perms {
			if p == "PermissionSpecific" {
				hasSpecific = true
			}
		}
		if hasSpecific {
			if !s.specKnown {
				c.R.Bad("R17.2c", key, pos, "PermissionSpecific address list is not a literal list of registered contract address constants")
				continue
			}
			var names []string
			okAll := true
			for _, a := range s.specific {
				n := m.constName(a)
				names = append(names, n)
				if m.bvm.ByAddr[n] == nil {
					okAll = false
				}
			}
			if !okAll {
				c.R.Bad("R17.2c", key, pos, "PermissionSpecific list contains an address that is not a registered contract: "+strings.Join(names, ","))
				continue
			}
			c.R.OK("R17.2c", key, pos, "CurrentCaller() checked against {"+strings.Join(names, ",")+"}")
			// information: in-edges not in the list
			for _, ed := range m.bvm.EdgesIn(e) {
				if src := m.bvm.ContractOfFn(ed.From); src != nil {
					found := false
					for _, n := range names {
						if n == src.AddrConst {
							found = true
						}
					}
					if !found {
						c.R.Note("R17.3", e.Key()+" <- "+src.Name, c.P.Pos(ed.Site.Pos()), "cross-invoke from a contract that is not in the callee's allowed list (call would be refused)")
					}
				}
			}
		} else {
			c.R.OK("R17.2c", key, pos, "CurrentCaller() checked with permissions {"+strings.Join(s.perms, ",")+"}")
		}
	}
}

// auditIndependence implements R17.5.
func (c *Ctx) auditIndependence(m *contractsModel, rule string, eventsOnly bool) {
	isAudit := core.IsStubCall("EnableAudit")
	n := 0
	for _, fn := range m.funcs {
		for _, b := range fn.Blocks {
			ifi := core.IfOf(b)
			if ifi == nil {
				continue
			}
			f := core.CondFact(ifi.Cond)
			if f.Kind != core.FBool || !isAudit(f.Subject) {
				continue
			}
			n++
			tIdx, fIdx := 0, 1
			if f.Negated {
				tIdx, fIdx = 1, 0
			}
			// stop when the branch is reached again (loop back edge): the next iteration decides anew
			again := func(in ssa.Instruction) bool { return in == ssa.Instruction(ifi) }
			onT := core.Reach([]core.Point{{B: b.Succs[tIdx], Idx: 0}}, again, nil)
			onF := core.Reach([]core.Point{{B: b.Succs[fIdx], Idx: 0}}, again, nil)
			key := core.FnName(fn) + " audit-branch"
			pos := c.P.Pos(ifi.Cond.Pos())
			guardEdges := m.callerG.SuccessEdgesIn(fn)
			bad := ""
			for in := range onT.Instr {
				if onF.Has(in) {
					continue
				}
				ks := m.eff.InstrKinds(in)
				for k := range ks {
					if k != core.KEvent && !eventsOnly {
						bad = fmt.Sprintf("%s effect (%s) at %s only when audit is enabled", k, m.describeSink(in), c.P.Pos(in.Pos()))
					}
				}
				if ks[core.KEvent] {
					for _, et := range eventTypesOf(in, 0) {
						if !strings.HasPrefix(et, "AUDIT_") {
							bad = fmt.Sprintf("a %s event is posted at %s only when audit is enabled: consumers of that event (the executor's service cache, node membership, interchain delivery) then depend on the audit switch", et, c.P.Pos(in.Pos()))
						}
					}
				}
				if !eventsOnly && guardEdges[in.Block()] != nil && in == in.Block().Instrs[len(in.Block().Instrs)-1] {
					bad = "caller guard evaluated only when audit is enabled at " + c.P.Pos(in.Pos())
				}
			}
			if bad != "" {
				c.R.Bad(rule, key, pos, bad)
			} else {
				c.R.OK(rule, key, pos, "audit-only region posts AUDIT_* events only")
			}
		}
	}
	c.R.Floor(rule, "EnableAudit branches", n, 40) // 51 on the pinned tree; a shared publish helper merges several
}

// eventTypesOf: the event-type constants (without the Event_ prefix) an instruction may post, through
// module functions up to depth 3; "?" for a non-constant type.
func eventTypesOf(in ssa.Instruction, depth int) []string {
	call, ok := in.(ssa.CallInstruction)
	if !ok {
		return nil
	}
	o := core.CalleeObj(call)
	if o != nil {
		args := call.Common().Args
		switch o.Name() {
		case "PostInterchainEvent":
			return []string{"INTERCHAIN"}
		case "PostEvent":
			if len(args) >= 2 {
				if k := eventConst(args[len(args)-2]); k != "" {
					return []string{strings.TrimPrefix(k, "Event_")}
				}
				return []string{"?"}
			}
		}
	}
	callee := core.StaticCallee(call)
	if callee == nil || len(callee.Blocks) == 0 || depth > 3 || callee.Package() == nil || !core.InModulePath(callee.Package().Pkg.Path()) {
		return nil
	}
	var out []string
	for _, f := range core.WithClosures(callee) {
		for _, c2 := range core.Calls(f) {
			out = append(out, eventTypesOf(c2, depth+1)...)
		}
	}
	return out
}
