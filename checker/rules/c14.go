package rules

import (
	"fmt"
	"go/token"
	"go/types"
	"strings"

	"bxhlint/core"

	"golang.org/x/tools/go/ssa"
)

func init() { Props["C14"] = C14 }

// bigOp: v is z.Op(x, y) on *big.Int; returns x, y.
func bigOp(v ssa.Value, op string) (ssa.Value, ssa.Value, bool) {
	c, ok := core.Strip(v).(*ssa.Call)
	if !ok || core.CalleeName(c) != "(*math/big.Int)."+op || len(c.Call.Args) != 3 {
		return nil, nil, false
	}
	return c.Call.Args[1], c.Call.Args[2], true
}

type balSite struct {
	in     ssa.Instruction
	fn     *ssa.Function
	kind   string    // "credit" | "debit" | "debit-all" | "set"
	acct   ssa.Value // account / address operand
	amount ssa.Value // amount added / subtracted (nil for set/debit-all)
	base   ssa.Value // the balance value the amount is applied to
}

// classifyBalanceCall recognises SetBalance(addr, Add/Sub(..)), SetBalance(addr, 0),
// AddBalance(amt), SubBalance(amt) on ledger and account objects.
func classifyBalanceCall(fn *ssa.Function, in ssa.Instruction) *balSite {
	call, ok := in.(ssa.CallInstruction)
	if !ok {
		return nil
	}
	o := core.CalleeObj(call)
	if o == nil {
		return nil
	}
	args := call.Common().Args
	if !call.Common().IsInvoke() {
		if f := call.Common().StaticCallee(); f != nil && f.Signature.Recv() != nil && len(args) > 0 {
			args = args[1:]
		}
	}
	recv := core.Receiver(call)
	switch o.Name() {
	case "SetBalance":
		var acct, val ssa.Value
		if len(args) == 2 {
			acct, val = args[0], args[1]
		} else if len(args) == 1 {
			acct, val = recv, args[0]
		} else {
			return nil
		}
		if x, y, ok := bigOp(val, "Add"); ok {
			return &balSite{in: in, fn: fn, kind: "credit", acct: acct, amount: y, base: x}
		}
		if x, y, ok := bigOp(val, "Sub"); ok {
			return &balSite{in: in, fn: fn, kind: "debit", acct: acct, amount: y, base: x}
		}
		if c, ok := core.Strip(val).(*ssa.Call); ok && core.CalleeName(c) == "math/big.NewInt" {
			if z, ok := core.ConstInt(c.Call.Args[0]); ok && z == 0 {
				return &balSite{in: in, fn: fn, kind: "debit-all", acct: acct}
			}
		}
		return &balSite{in: in, fn: fn, kind: "set", acct: acct, amount: val}
	case "AddBalance":
		if len(args) == 2 {
			return &balSite{in: in, fn: fn, kind: "credit", acct: args[0], amount: args[1]}
		}
		if len(args) == 1 {
			return &balSite{in: in, fn: fn, kind: "credit", acct: recv, amount: args[0]}
		}
	case "SubBalance":
		if len(args) == 2 {
			return &balSite{in: in, fn: fn, kind: "debit", acct: args[0], amount: args[1]}
		}
		if len(args) == 1 {
			return &balSite{in: in, fn: fn, kind: "debit", acct: recv, amount: args[0]}
		}
	}
	return nil
}

// creditExceptions: unpaired credits that are outside the property or documented.
var creditExceptions = map[string]string{
	"(*internal/executor/contracts.RoleManager).register": "the documented grant of the genesis balance to a newly approved governance/audit admin (named in the property)",
	"internal/ledger/genesis.Initialize":                  "genesis allocation",
}

// scope of BitXHub-native execution
func nativePkg(pk string) bool {
	return pk == "internal/executor" || pk == "internal/executor/contracts" || strings.HasPrefix(pk, "pkg/vm/wasm") || pk == "pkg/vm/boltvm" || pk == "internal/ledger/genesis"
}

// C14: transfers and fees never create value.
func C14(c *Ctx) {
	r := c.R
	r.Rule("R14.1", "credit/debit pairing: every balance credit of BitXHub-native execution (executor, built-in contracts, wasm host functions) credits an amount that was debited from another account earlier on every path of the same function (same SSA value, or an integer quotient of it), or - when the amount is a parameter - at every call site; unpaired credits need a named exception (admin grant, genesis). An arbitrary SetBalance(x) is an unpaired credit.")
	r.Rule("R14.2", "sufficiency: every debit balance.Sub(x, y) / SubBalance(y) lies behind a comparison establishing x >= y with an error return otherwise (or debits the whole balance).")
	r.Rule("R14.3", "alias safety: when a function debits one account and credits another that may be the same account (no inequality guard on the account values - comparing two *types.Address pointers is not one), the balance read used for the credit is sequenced after the debit store; otherwise a self-transfer overwrites the debit and mints the amount.")
	r.Rule("R14.4", "fee split: the per-admin fee is fees / len(admins) and is credited once per element of that same admin list (loss <= n-1).")
	r.NotDecided = append(r.NotDecided, "sums over histories; EVM value transfers (external engine)")

	var all []*balSite
	for _, fn := range c.P.ModuleFuncs(true) {
		if !nativePkg(core.PkgOf(fn)) {
			continue
		}
		for _, b := range fn.Blocks {
			for _, in := range b.Instrs {
				if s := classifyBalanceCall(fn, in); s != nil {
					all = append(all, s)
				}
			}
		}
	}
	r.Floor("R14.1", "balance mutation sites in native execution", len(all), 8)

	top := func(fn *ssa.Function) *ssa.Function {
		for fn.Parent() != nil {
			fn = fn.Parent()
		}
		return fn
	}
	derivedFrom := func(amount, debited ssa.Value) bool {
		if sameValue(amount, debited) {
			return true
		}
		if x, _, ok := bigOp(amount, "Div"); ok && sameValue(x, debited) {
			return true
		}
		// new(big.Int).SetUint64(c) twice with the same c
		ca, oka := core.Strip(amount).(*ssa.Call)
		cb, okb := core.Strip(debited).(*ssa.Call)
		if oka && okb && core.CalleeName(ca) == core.CalleeName(cb) && strings.HasPrefix(core.CalleeName(ca), "(*math/big.Int).Set") && sameValue(ca.Call.Args[1], cb.Call.Args[1]) {
			return true
		}
		return false
	}
	for _, s := range all {
		if s.kind != "credit" && s.kind != "set" {
			continue
		}
		key := shortFn(s.fn) + ": " + s.kind
		pos := c.P.Pos(s.in.Pos())
		if why, ok := creditExceptions[core.FnName(top(s.fn))]; ok {
			r.OKTrivial("R14.1", key, pos, "exception: "+why)
			continue
		}
		if s.kind == "set" {
			r.Bad("R14.1", key, pos, "a balance is set to a value that is not derived from a debit (SetBalance of an arbitrary amount): value can be created")
			continue
		}
		// paired inside the function?
		paired := false
		for _, d := range all {
			if d.fn != s.fn || (d.kind != "debit" && d.kind != "debit-all") {
				continue
			}
			if d.kind == "debit" && !derivedFrom(s.amount, d.amount) {
				continue
			}
			if d.kind == "debit-all" {
				continue
			}
			if precedesAll(s.fn, func(in ssa.Instruction) bool { return in == d.in }, func(in ssa.Instruction) bool { return in == s.in }) {
				paired = true
			}
		}
		if paired {
			r.OK("R14.1", key, pos, "the credited amount is debited from another account earlier on every path of the function")
			continue
		}
		// amount derived from a parameter: lift to call sites
		var param *ssa.Parameter
		for _, o := range append(core.Origins(s.amount), s.amount) {
			if p, ok := core.Strip(o).(*ssa.Parameter); ok {
				param = p
			}
			if x, _, ok := bigOp(o, "Div"); ok {
				if p, ok := core.Strip(x).(*ssa.Parameter); ok {
					param = p
				}
			}
		}
		if param != nil {
			idx := -1
			for i, p := range s.fn.Params {
				if p == param {
					idx = i
				}
			}
			nCalls, okAll := 0, true
			for _, caller := range c.P.ModuleFuncs(true) {
				for _, call := range core.Calls(caller) {
					if core.StaticCallee(call) != s.fn || idx < 0 {
						continue
					}
					nCalls++
					arg := call.Common().Args[idx]
					okc := false
					for _, d := range all {
						if d.fn != caller {
							continue
						}
						switch d.kind {
						case "debit":
							if derivedFrom(arg, d.amount) && precedesAll(caller, func(in ssa.Instruction) bool { return in == d.in }, func(in ssa.Instruction) bool { return in == call }) {
								okc = true
							}
						case "debit-all":
							// whole balance: the argument is the balance read of the debited account before it was zeroed
							if core.Mentions(arg, func(v ssa.Value) bool {
								cc, ok := v.(*ssa.Call)
								return ok && core.CalleeObj(cc) != nil && core.CalleeObj(cc).Name() == "GetBalance"
							}) && precedesAll(caller, func(in ssa.Instruction) bool { return in == d.in }, func(in ssa.Instruction) bool { return in == call }) {
								okc = true
							}
						}
					}
					if !okc {
						okAll = false
						r.Bad("R14.1", key+" via "+shortFn(caller), c.P.Pos(call.Pos()), "the amount handed to "+shortFn(s.fn)+" is credited there but not debited before this call")
					}
				}
			}
			if nCalls > 0 && okAll {
				r.OK("R14.1", key, pos, fmt.Sprintf("amount is a parameter; debited before the call at all %d call site(s)", nCalls))
				continue
			}
			if nCalls > 0 {
				continue
			}
		}
		r.Bad("R14.1", key, pos, "balance credit without a matching earlier debit of the same amount: value is created")
	}

	// R14.5 the excepted grant is paid only when a registration is approved
	r.Rule("R14.5", "the admin grant is paid once: every call of RoleManager.register (the only excepted unpaired credit) lies behind the edges eventTyp == EventRegister and proposalResult == APPROVED of its caller.")
	if reg := c.fn("R14.5", "internal/executor/contracts.(*RoleManager).register"); reg != nil {
		evReg := constValue(c, "github.com/meshplus/bitxhub-core/governance", "EventRegister")
		appr := constOfPkg(c, "APPROVED")
		if evReg == "" || appr == "" {
			r.Anchor("R14.5", "governance.EventRegister / contracts.APPROVED")
		}
		n := 0
		for _, fn := range c.P.ModuleFuncs(true) {
			isReg := func(in ssa.Instruction) bool {
				call, ok := in.(ssa.CallInstruction)
				return ok && core.StaticCallee(call) == reg
			}
			if len(sites(fn, isReg)) == 0 {
				continue
			}
			mk := func(want string) core.EdgeSet {
				return condEdges(fn, func(f core.Fact, ifi *ssa.If) (bool, int) {
					if f.Kind == core.FEqConst && f.Const == want && f.Field == "" {
						if _, isP := core.Strip(f.Subject).(*ssa.Parameter); isP {
							return true, holdsEdge(f)
						}
					}
					return false, 0
				})
			}
			n += c.behindEdges("R14.5", shortFn(fn), fn, mk(evReg), isReg, "eventTyp == EventRegister", "admin grant (register)")
			c.behindEdges("R14.5", shortFn(fn), fn, mk(appr), isReg, "proposalResult == APPROVED", "admin grant (register)")
		}
		r.Floor("R14.5", "register call sites", n, 2)
	}

	// R14.6 sender-chosen amounts are not negative
	r.Rule("R14.8", "a self-destruct leaves nothing behind: the EVM credits the beneficiary of SELFDESTRUCT with the contract's balance and then calls the ledger's Suiside; in every Suiside implementation of the module's ledgers every path that reports success has set the account's balance to zero (SetBalance of a fresh zero value) - a path that skips it (an early return for an account already marked) leaves the credited amount in the contract as well: value is created.")
	c.c14Suicide()
	r.Rule("R14.6", "no negative amount: the amount of a transfer is parsed from transaction data (big.Int.SetString accepts a sign); every balance write of BlockExecutor.transfer lies behind an edge establishing amount.Sign() >= 0 - a negative amount passes the funds check, moves value from the receiver to the sender and can drive the receiver's balance below zero.")
	if tr := c.fn("R14.6", "internal/executor.(*BlockExecutor).transfer"); tr != nil && len(tr.Params) >= 4 {
		r.Floor("R14.6", "balance writes in transfer", c.transferSignCheck("R14.6", tr), 2)
	}

	r.Rule("R14.7", "a reverted credit is taken back in full (shared with C10 R10.4): "+balanceInPlaceText+" A transfer that is reverted (the fee cannot be paid) then 'restores' the receiver to its balance plus the amount while the sender is restored too: value is created.")
	c.balanceInPlace("R14.7")

	// R14.2
	nDeb := 0
	for _, s := range all {
		if s.kind != "debit" {
			continue
		}
		nDeb++
		key := shortFn(s.fn) + ": debit"
		pos := c.P.Pos(s.in.Pos())
		es := condEdges(s.fn, func(f core.Fact, ifi *ssa.If) (bool, int) {
			bo, ok := ifi.Cond.(*ssa.BinOp)
			if !ok {
				return false, 0
			}
			// x.Cmp(y) <op> k
			if call, ok := core.Strip(bo.X).(*ssa.Call); ok && core.CalleeName(call) == "(*math/big.Int).Cmp" && len(call.Call.Args) == 2 {
				x, y := call.Call.Args[0], call.Call.Args[1]
				if s.base != nil && sameValue(x, s.base) && derivedFromLoose(s.amount, y) {
					k, isK := core.ConstInt(bo.Y)
					if !isK {
						return false, 0
					}
					switch {
					case bo.Op == token.EQL && k == -1, bo.Op == token.LSS && k == 0, bo.Op == token.LEQ && k == -1:
						return true, 1 // insufficient on true edge -> pass on false
					case bo.Op == token.NEQ && k == -1, bo.Op == token.GEQ && k == 0, bo.Op == token.GTR && k == -1:
						return true, 0
					}
				}
			}
			// uint64 compare: balance < cost
			if bo.Op == token.LSS || bo.Op == token.GEQ {
				isBal := core.Mentions(bo.X, func(v ssa.Value) bool {
					cc, ok := v.(*ssa.Call)
					return ok && core.CalleeObj(cc) != nil && core.CalleeObj(cc).Name() == "GetBalance"
				})
				if isBal && core.Mentions(s.amount, func(v ssa.Value) bool { return v == core.Strip(bo.Y) }) {
					if bo.Op == token.LSS {
						return true, 1
					}
					return true, 0
				}
			}
			return false, 0
		})
		// SimpleAccount.SubBalance / ledger wrappers are API plumbing: their callers carry the obligation
		if core.PkgOf(s.fn) == ledgerPkg {
			continue
		}
		c.behindEdges("R14.2", shortFn(s.fn), s.fn, es, func(in ssa.Instruction) bool { return in == s.in }, "balance >= amount", "debit")
		_ = key
		_ = pos
	}
	r.Floor("R14.2", "debit sites", nDeb, 3)

	// R14.3
	nAlias := 0
	for _, fn := range c.P.ModuleFuncs(true) {
		if !nativePkg(core.PkgOf(fn)) {
			continue
		}
		var debits, credits []*balSite
		for _, s := range all {
			if s.fn != fn {
				continue
			}
			if s.kind == "debit" {
				debits = append(debits, s)
			}
			if s.kind == "credit" && s.base != nil {
				credits = append(credits, s)
			}
		}
		for _, d := range debits {
			for _, cr := range credits {
				if sameValue(d.acct, cr.acct) {
					continue
				}
				nAlias++
				// inequality guard?
				// an (in)equality test of the two accounts: for pointer-typed accounts (*types.Address) only a comparison of
				// what they point to counts (String() / Bytes() / Hex() results, bytes.Equal) - `from == to` on pointers
				// is false for two address objects naming the same account (every decoded transaction)
				da, ca := core.Strip(d.acct), core.Strip(cr.acct)
				_, ptrAcct := da.Type().Underlying().(*types.Pointer)
				derived := func(acct ssa.Value) func(ssa.Value) bool {
					return func(v ssa.Value) bool {
						cc, ok := core.Strip(v).(*ssa.Call)
						if !ok || core.CalleeObj(cc) == nil || len(cc.Call.Args) == 0 {
							return false
						}
						switch core.CalleeObj(cc).Name() {
						case "String", "Bytes", "Hex":
							return sameValue(cc.Call.Args[0], acct)
						}
						return false
					}
				}
				var guard core.EdgeSet
				if ptrAcct {
					guard = core.EqualityEdges(fn, derived(da), derived(ca), true)
					for _, b := range fn.Blocks {
						if ifi := core.IfOf(b); ifi != nil {
							f := core.CondFact(ifi.Cond)
							if cc, ok := core.Strip(f.Subject).(*ssa.Call); ok && f.Kind == core.FBool && core.CalleeName(cc) == "bytes.Equal" && len(cc.Call.Args) == 2 {
								x, y := cc.Call.Args[0], cc.Call.Args[1]
								if (core.Mentions(x, derived(da)) && core.Mentions(y, derived(ca))) || (core.Mentions(x, derived(ca)) && core.Mentions(y, derived(da))) {
									guard.Add(b, 0)
								}
							}
						}
					}
				} else {
					guard = core.EqualityEdges(fn, func(v ssa.Value) bool { return v == da }, func(v ssa.Value) bool { return v == ca }, true)
				}
				if guard.Len() > 0 {
					r.OK("R14.3", shortFn(fn)+": debit/credit accounts compared", c.P.Pos(cr.in.Pos()), "an (in)equality test between the two accounts exists")
					continue
				}
				// the balance read feeding the credit must come after the debit
				var read ssa.Instruction
				for _, o := range append(core.Origins(cr.base), cr.base) {
					if cc, ok := core.Strip(o).(*ssa.Call); ok && core.CalleeObj(cc) != nil && core.CalleeObj(cc).Name() == "GetBalance" {
						read = cc
					}
				}
				ok := read != nil && precedesAll(fn, func(in ssa.Instruction) bool { return in == d.in }, func(in ssa.Instruction) bool { return in == read })
				r.Check(ok, "R14.3", shortFn(fn)+": credit reads the balance after the debit", c.P.Pos(cr.in.Pos()), "GetBalance(to) is sequenced after SetBalance(from, ..)",
					"the receiver's balance is read before the sender is debited and the two accounts may be the same: a transfer to oneself writes balance+amount over the debit (value created)")
			}
		}
	}
	r.Floor("R14.3", "debit/credit pairs on possibly aliasing accounts", nAlias, 1)

	// R14.4
	if pa := c.fn("R14.4", execPrefix+"payAdmins"); pa != nil {
		ok := false
		var divisor ssa.Value
		for _, call := range core.Calls(pa) {
			if core.CalleeName(call) == "(*math/big.Int).Div" {
				divisor = call.Common().Args[2]
			}
		}
		var ranged ssa.Value
		for _, b := range pa.Blocks {
			for _, in := range b.Instrs {
				if s := classifyBalanceCall(pa, in); s != nil && s.kind == "credit" {
					// loop slice: the credit's account derives from an IndexAddr of slice S
					core.Mentions(s.acct, func(v ssa.Value) bool {
						if ia, ok := v.(*ssa.IndexAddr); ok {
							ranged = ia.X
						}
						return false
					})
				}
			}
		}
		if divisor != nil && ranged != nil {
			ok = core.Mentions(divisor, func(v ssa.Value) bool {
				cc, isC := v.(*ssa.Call)
				if !isC {
					return false
				}
				b, isB := cc.Call.Value.(*ssa.Builtin)
				return isB && b.Name() == "len" && sameValue(cc.Call.Args[0], ranged)
			})
		}
		r.Check(ok, "R14.4", "payAdmins: divisor is the number of credited admins", c.P.Pos(pa.Pos()), "fee = fees / len(admins), credited once per element of admins", "the fee share is not fees/len(list) of the list that is credited: more than the collected fee can be paid out")
	}
}

// derivedFromLoose: amount and y denote the same value (directly).
func derivedFromLoose(amount, y ssa.Value) bool { return sameValue(amount, y) }

// constValue returns the string value of constant name in package path.
func constValue(c *Ctx, path, name string) string {
	pk := c.P.All[path]
	if pk == nil || pk.Types == nil {
		return ""
	}
	k, ok := pk.Types.Scope().Lookup(name).(*types.Const)
	if !ok {
		return ""
	}
	return strings.Trim(k.Val().ExactString(), "\"")
}

// c14Suicide: R14.8.
func (c *Ctx) c14Suicide() {
	r := c.R
	n := 0
	for _, fn := range c.P.ModuleFuncs(true) {
		if fn.Name() != "Suiside" || fn.Signature.Recv() == nil || len(fn.Blocks) == 0 || fn.Signature.Results().Len() != 1 || !strings.HasPrefix(core.PkgOf(fn), "internal/ledger") {
			continue
		}
		n++
		isZero := c.throughHelpers(func(in ssa.Instruction) bool {
			call, ok := in.(ssa.CallInstruction)
			if !ok || core.CalleeObj(call) == nil {
				return false
			}
			nm := core.CalleeObj(call).Name()
			if nm != "SetBalance" && nm != "setBalance" {
				return false
			}
			args := call.Common().Args
			if len(args) == 0 {
				return false
			}
			// new(big.Int) / big.NewInt(0): a fresh zero
			switch x := core.Strip(args[len(args)-1]).(type) {
			case *ssa.Alloc:
				return true
			case *ssa.Call:
				if core.CalleeName(x) == "math/big.NewInt" {
					z, ok := core.ConstInt(x.Call.Args[0])
					return ok && z == 0
				}
			}
			return false
		})
		rs := core.Reach([]core.Point{core.EntryOf(fn)}, isZero, nil)
		bad := ""
		for _, ret := range core.Returns(fn) {
			if !rs.Has(ret) {
				continue
			}
			for _, o := range core.RetOrigins(ret.Results[0]) {
				if k, isC := core.Strip(o.V).(*ssa.Const); isC && k.Value != nil && k.Value.ExactString() == "false" {
					continue
				}
				bad = "the return at " + c.P.Pos(ret.Pos()) + " can report success without the balance having been zeroed; path (lines): " + rs.Witness(c.P, ret)
			}
		}
		r.Check(bad == "", "R14.8", shortFn(fn)+": success only after the balance is zero", c.P.Pos(fn.Pos()), "every path that returns true passes SetBalance(0)",
			bad+": the EVM has already credited the beneficiary, so the amount exists twice")
	}
	r.Floor("R14.8", "Suiside implementations of the module's ledgers", n, 1)
}
