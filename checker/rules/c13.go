package rules

import (
	"fmt"
	"go/token"
	"sort"
	"strings"

	"bxhlint/core"

	"golang.org/x/tools/go/ssa"
)

func init() { Props["C13"] = C13 }

const acctPrefix = "internal/ledger.(*SimpleAccount)."

// lookupCalls finds, in fn, the read of each storage layer used by GetState-like functions.
// layerList: the Load call consults, one after the other, the sync.Map fields of a literal list it ranges over
// (`for _, m := range []*sync.Map{&o.dirtyState, &o.originState} { if v, ok := m.Load(k); ok { return .. } }`);
// returns the field names in list order, nil for an ordinary Load.
func layerList(call ssa.CallInstruction) []string {
	rv := core.Receiver(call)
	u, ok := rv.(*ssa.UnOp)
	if !ok || u.Op != token.MUL {
		return nil
	}
	ia, ok := u.X.(*ssa.IndexAddr)
	if !ok {
		return nil
	}
	var al *ssa.Alloc
	switch x := ia.X.(type) {
	case *ssa.Slice: // a slice literal: []*sync.Map{..}
		al, _ = x.X.(*ssa.Alloc)
	case *ssa.Alloc: // an array literal: [...]*sync.Map{..}
		al = x
	}
	if al == nil || al.Referrers() == nil {
		return nil
	}
	byIdx := map[int64]string{}
	for _, ref := range *al.Referrers() {
		ea, ok := ref.(*ssa.IndexAddr)
		if !ok || ea.Referrers() == nil {
			continue
		}
		idx, ok := core.ConstInt(ea.Index)
		if !ok {
			continue
		}
		for _, r2 := range *ea.Referrers() {
			if st, ok := r2.(*ssa.Store); ok && st.Addr == ssa.Value(ea) {
				if _, f, _, ok := core.FieldOf(st.Val); ok {
					byIdx[idx] = f
				}
			}
		}
	}
	var out []string
	for i := int64(0); i < int64(len(byIdx)); i++ {
		f, ok := byIdx[i]
		if !ok {
			return nil
		}
		out = append(out, f)
	}
	return out
}

func layerCall(fn *ssa.Function, layer string) *ssa.Call {
	for _, call := range core.Calls(fn) {
		cl, ok := call.(*ssa.Call)
		if !ok {
			continue
		}
		n := core.CalleeName(call)
		switch layer {
		case "dirty", "origin":
			if n == "(*sync.Map).Load" {
				if _, f, _, ok := core.FieldOf(core.Receiver(call)); ok && f == layer+"State" {
					return cl
				}
				for _, f := range layerList(call) {
					if f == layer+"State" {
						return cl
					}
				}
			}
		case "cache":
			if strings.HasSuffix(n, "AccountCache).getState") {
				return cl
			}
		case "db":
			if strings.HasSuffix(n, "storage.Storage).Get") || strings.HasSuffix(n, ".Get") && strings.Contains(n, "storage.") {
				return cl
			}
		}
	}
	return nil
}

// C13: reads return the latest write through dirty set, cache, database and reopen.
func C13(c *Ctx) {
	r := c.R
	r.Rule("R13.1", "lookup order: SimpleAccount.GetState consults dirty set, origin set, account cache and database in this order, each later layer only on the miss edge of the earlier one, and stores what it read from cache/database into the origin set.")
	r.Rule("R13.2", "undo-log discipline: every mutator of SimpleAccount/SimpleLedger that stores to dirty state (dirtyState, dirtyAccount.*, dirtyCode, suicided) appends a state change in the same invocation (or is reachable only from the revert functions / delegates to a caller that appends); the value captured for the undo record is read before the store; the ledger's changer object is never replaced while accounts point to it.")
	r.Rule("R13.3", "prefix query key space: all keys indexing the merge map of SimpleAccount.Query are in one key space (database iterator keys carry the address prefix, dirty keys do not), and entries whose value is nil (deleted) are not emitted.")
	r.Rule("R13.4", "cache fill and purge: FlushDirtyData adds the dirty accounts to the account cache on every path; the cache entry of an account is removed when its creation is reverted; the cache is purged on rollback (C12 R12.2).")
	r.Rule("R13.5", "snapshots: RevertToSnapshot reverts the changer to the index recorded for the found revision and truncates the valid revisions to that revision's position; Snapshot records the current changer length; wherever the revision counter is restarted (nextRevisionId = constant) the recorded revisions are truncated on the same path.")
	r.Rule("R13.6", "tombstones survive the undo: an entry of an account's dirty set, once written in a block, is never removed again (no Delete / LoadAndDelete / CompareAndDelete on dirtyState in internal/ledger) - the undo record holds only the previous value, not whether the key was dirty before, so a removed entry exposes the layers below, which differ from the recorded value whenever that was itself an earlier write or deletion of the block; storageChange.revert stores the recorded previous value (nil included) into the dirty set on every path.")
	r.Rule("R13.8", freshUndoText)
	c.freshUndo("R13.8")
	r.Rule("R13.7", "the undo of a transaction leaves the caches of earlier blocks alone: functions reachable from the stateChange.revert methods remove cache entries only from the account-record cache (the record a reverted creation may have caused to be cached); the storage and code caches hold the writes of flushed, not yet committed blocks and are dropped only by the rollback purge (R12.2).")
	r.NotDecided = append(r.NotDecided, "LRU eviction behaviour; reopen; value-level equality over histories")

	// ---- R13.1
	if gs := c.fn("R13.1", acctPrefix+"GetState"); gs != nil {
		layers := []string{"dirty", "origin", "cache", "db"}
		// a layer may be consulted in GetState itself or in a helper of the account it calls (one level):
		// home[i] is the function holding the lookup, via[i] the call in GetState that leads there (nil = direct)
		calls := make([]*ssa.Call, len(layers))
		home := make([]*ssa.Function, len(layers))
		via := make([]*ssa.Call, len(layers))
		for i, l := range layers {
			if cl := layerCall(gs, l); cl != nil {
				calls[i], home[i] = cl, gs
				continue
			}
			for _, call := range core.Calls(gs) {
				cc, ok := call.(*ssa.Call)
				g := core.StaticCallee(call)
				if !ok || g == nil || len(g.Blocks) == 0 || core.PkgOf(g) != ledgerPkg || g == gs {
					continue
				}
				if cl := layerCall(g, l); cl != nil {
					calls[i], home[i], via[i] = cl, g, cc
					break
				}
			}
			if calls[i] == nil {
				r.Bad("R13.1", "GetState: "+l+" layer consulted", c.P.Pos(gs.Pos()), "GetState does not read the "+l+" layer (neither directly nor in a helper it calls)")
			}
		}
		for i := 1; i < len(calls); i++ {
			prev, cur := calls[i-1], calls[i]
			if prev == nil || cur == nil {
				continue
			}
			// the loop form: one Load consults the fields of a literal list in list order and returns on a hit
			if ll := layerList(prev); ll != nil {
				hit := condEdges(home[i-1], func(fc core.Fact, ifi *ssa.If) (bool, int) {
					if fc.Kind != core.FBool {
						return false, 0
					}
					if ex, ok := fc.Subject.(*ssa.Extract); ok && ex.Tuple == ssa.Value(prev) && ex.Index == 1 {
						return true, holdsEdge(fc)
					}
					return false, 0
				})
				var starts []core.Point
				for b, idxs := range hit {
					for si := range idxs {
						if si < len(b.Succs) {
							starts = append(starts, core.Point{B: b.Succs[si], Idx: 0})
						}
					}
				}
				fromHit := core.Reach(starts, nil, nil)
				key := "GetState: " + layers[i] + " lookup behind " + layers[i-1] + " miss"
				if prev == cur {
					pi, ci := -1, -1
					for k, f := range ll {
						if f == layers[i-1]+"State" {
							pi = k
						}
						if f == layers[i]+"State" {
							ci = k
						}
					}
					r.Check(len(starts) > 0 && pi >= 0 && pi < ci && !fromHit.Has(prev), "R13.1", key, c.P.Pos(cur.Pos()), "the layers are consulted in the order of the literal list ("+strings.Join(ll, ", ")+") and a hit leaves the loop",
						"the list the lookup loop ranges over does not put "+layers[i-1]+" before "+layers[i]+", or a hit does not end the loop")
				} else {
					var curSite ssa.Instruction = cur
					if home[i] != home[i-1] && via[i] != nil {
						curSite = via[i]
					}
					r.Check(len(starts) > 0 && !fromHit.Has(curSite) && !core.InLoop(curSite), "R13.1", key, c.P.Pos(cur.Pos()), "a hit in the lookup loop returns; the "+layers[i]+" lookup follows the loop",
						"the "+layers[i]+" lookup is reachable after a hit in the "+layers[i-1]+" layer (or sits inside the lookup loop)")
				}
				continue
			}
			// the function in which the ordering is decided, and the instruction standing for `cur` there
			f := home[i-1]
			var curSite ssa.Instruction = cur
			if home[i] != f {
				if home[i-1] == gs && via[i] != nil {
					curSite = via[i] // cur lives in a helper called from GetState
				} else {
					r.Unknown("R13.1", "GetState: "+layers[i]+" lookup behind "+layers[i-1]+" miss", c.P.Pos(cur.Pos()), "the two lookups live in different helper functions; ordering not decided")
					continue
				}
			}
			// miss edge of prev: its second result (found/ok) false
			miss := condEdges(f, func(fc core.Fact, ifi *ssa.If) (bool, int) {
				if fc.Kind != core.FBool {
					return false, 0
				}
				if ex, ok := fc.Subject.(*ssa.Extract); ok && ex.Tuple == ssa.Value(prev) && ex.Index == 1 {
					return true, 1 - holdsEdge(fc)
				}
				return false, 0
			})
			c.behindEdges("R13.1", "GetState", f, miss, func(in ssa.Instruction) bool { return in == curSite }, layers[i-1]+" miss", layers[i]+" lookup")
		}
		// stores into originState after reading cache/db
		isOriginStore := func(in ssa.Instruction) bool {
			call, ok := in.(ssa.CallInstruction)
			if !ok || core.CalleeName(call) != "(*sync.Map).Store" {
				return false
			}
			_, f, _, ok2 := core.FieldOf(core.Receiver(call))
			return ok2 && f == "originState"
		}
		if calls[3] != nil {
			r.Check(followsAll(home[3], func(in ssa.Instruction) bool { return in == ssa.Instruction(calls[3]) }, isOriginStore, false), "R13.1", "GetState: database result remembered in the origin set", c.P.Pos(calls[3].Pos()),
				"originState.Store follows the database read on every path", "a value read from the database is not stored into the origin set (later journal/commit decisions compare against a missing origin)")
		}
	}

	// ---- R13.2
	lm := c.Ledger()
	var writers []*ssa.Function
	for fn := range lm.dirtyWriters {
		writers = append(writers, fn)
	}
	sort.Slice(writers, func(i, j int) bool { return core.FnName(writers[i]) < core.FnName(writers[j]) })
	r.Floor("R13.2", "dirty-state writers", len(writers), 8)
	for _, fn := range writers {
		key := shortLedger(fn) + ": journaled"
		pos := c.P.Pos(fn.Pos())
		switch {
		case lm.appends[fn]:
			r.OK("R13.2", key, pos, "writes "+strings.Join(lm.dirtyWriters[fn], ",")+" and appends a state change")
		case lm.revertOnly[fn]:
			r.OKTrivial("R13.2", key, pos, "called only from stateChange.revert (applies the undo record)")
		case njExceptions[core.FnName(fn)] != "":
			r.OKTrivial("R13.2", key, pos, "exception: "+njExceptions[core.FnName(fn)])
		case !lm.nj[fn]:
			r.OK("R13.2", key, pos, "journaled by every caller (each caller appends the state change)")
		case core.FnName(fn) == "(*internal/ledger.SimpleAccount).AddState":
			// not reachable from transaction execution any more (C07 R07.2 checks the callers)
			r.Note("R13.2", shortLedger(fn)+": non-journaled by design", pos, "AddState bypasses the undo log; only block post-processing may use it (C07 R07.2)")
		default:
			r.Bad("R13.2", key, pos, "stores to "+strings.Join(lm.dirtyWriters[fn], ",")+" without appending a state change: RevertToSnapshot cannot restore the previous value")
		}
	}
	// captured-before-store for the four journaling setters
	for _, spec := range []struct{ fn, field, getter string }{
		{"SetState", "dirtyState", "GetState"}, {"SetBalance", "dirtyAccount.Balance", "GetBalance"}, {"SetNonce", "dirtyAccount.Nonce", "GetNonce"}, {"SetCodeAndHash", "dirtyCode", "Code"},
	} {
		fn := c.fn("R13.2", acctPrefix+spec.fn)
		if fn == nil {
			continue
		}
		isGet := func(in ssa.Instruction) bool {
			call, ok := in.(ssa.CallInstruction)
			return ok && core.CalleeObj(call) != nil && core.CalleeObj(call).Name() == spec.getter
		}
		var isStoreD func(in ssa.Instruction, d int) bool
		isStoreD = func(in ssa.Instruction, d int) bool {
			switch x := in.(type) {
			case *ssa.Store:
				_, f, base, ok := core.FieldOf(x.Addr)
				if !ok {
					return false
				}
				if f == spec.field {
					return true
				}
				if _, f2, _, ok2 := core.FieldOf(base); ok2 && "dirtyAccount."+f == spec.field && f2 == "dirtyAccount" {
					return true
				}
			case ssa.CallInstruction:
				if core.CalleeName(x) == "(*sync.Map).Store" {
					_, f, _, ok := core.FieldOf(core.Receiver(x))
					return ok && f == spec.field
				}
				// an unexported setter of the account that performs the store (e.g. setBalance)
				if g := core.StaticCallee(x); g != nil && d <= 1 && len(g.Blocks) > 0 && core.PkgOf(g) == ledgerPkg && g != fn {
					for _, b := range g.Blocks {
						for _, y := range b.Instrs {
							if isStoreD(y, d+1) {
								return true
							}
						}
					}
				}
			}
			return false
		}
		isStore := func(in ssa.Instruction) bool { return isStoreD(in, 0) }
		r.Check(len(sites(fn, isGet)) > 0 && len(sites(fn, isStore)) > 0 && precedesAll(fn, isGet, isStore), "R13.2", shortLedger(fn)+": previous value read before the store", c.P.Pos(fn.Pos()),
			spec.getter+"() precedes the store to "+spec.field, "the undo record of "+spec.fn+" captures the value after it was overwritten (or not at all): a revert restores the new value")
	}
	nst := 0
	for _, fn := range c.P.ModuleFuncs(true) {
		if core.PkgOf(fn) != ledgerPkg {
			continue
		}
		for _, in := range sites(fn, storesToField("SimpleLedger", "changer")) {
			st := in.(*ssa.Store)
			_, _, base, _ := core.FieldOf(st.Addr)
			if _, fresh := core.Strip(base).(*ssa.Alloc); fresh {
				continue
			}
			nst++
			r.Bad("R13.2", shortLedger(fn)+": SimpleLedger.changer reassigned", c.P.Pos(in.Pos()), "the ledger's changer is replaced after construction while loaded accounts keep journaling into the old object: their later changes escape RevertToSnapshot")
		}
	}
	if nst == 0 {
		r.OK("R13.2", "SimpleLedger.changer assigned only at construction", "", "one changer object shared by ledger and accounts")
	}

	// ---- R13.6
	c.c13Undo("R13.6")
	c.c13UndoCaches()

	// ---- R13.3
	if q := c.fn("R13.3", acctPrefix+"Query"); q != nil {
		composite, raw := 0, 0
		var where []string
		for _, f := range core.WithClosures(q) {
			for _, b := range f.Blocks {
				for _, in := range b.Instrs {
					mu, ok := in.(*ssa.MapUpdate)
					if !ok {
						continue
					}
					fromIter := core.Mentions(mu.Key, func(v ssa.Value) bool {
						cc, ok := v.(*ssa.Call)
						return ok && core.CalleeObj(cc) != nil && core.CalleeObj(cc).Name() == "Key" && strings.Contains(core.CalleeName(cc), "storage.")
					})
					stripped := core.Mentions(mu.Key, func(v ssa.Value) bool {
						sl, ok := v.(*ssa.Slice)
						return ok && sl.Low != nil
					})
					switch {
					case fromIter && !stripped:
						composite++
						where = append(where, "iterator key (address-prefixed) at "+c.P.Pos(in.Pos()))
					default:
						raw++
						where = append(where, "raw key at "+c.P.Pos(in.Pos()))
					}
				}
			}
		}
		r.Floor("R13.3", "merge-map updates in Query", composite+raw, 2)
		r.Check(composite == 0 || raw == 0, "R13.3", "Query: one key space in the merge map", c.P.Pos(q.Pos()), "all merge keys are raw state keys",
			"the merge map of Query mixes address-prefixed database keys with raw dirty keys ("+strings.Join(where, "; ")+"): a key overwritten in the current block is returned twice (old and new value) and a deleted key is still returned")
		// nil values skipped
		emitsNil := true
		for _, b := range q.Blocks {
			for _, in := range b.Instrs {
				call, ok := in.(*ssa.Call)
				if !ok {
					continue
				}
				if bn, ok := call.Call.Value.(*ssa.Builtin); !ok || bn.Name() != "append" {
					continue
				}
				// append(ret, val) inside the loop over the merge map
				if _, isMap, inLoop := enclosingRange(call); !inLoop || !isMap {
					continue
				}
				es := condEdges(q, func(f core.Fact, ifi *ssa.If) (bool, int) {
					if f.Kind == core.FNil {
						return true, 1 - holdsEdge(f)
					}
					if f.Kind == core.FEqConst && f.Const == "0" {
						if cc, ok := f.Subject.(*ssa.Call); ok {
							if bn, ok := cc.Call.Value.(*ssa.Builtin); ok && bn.Name() == "len" {
								return true, 1 - holdsEdge(f)
							}
						}
					}
					return false, 0
				})
				rs := core.Reach([]core.Point{core.EntryOf(q)}, nil, core.CutOf(es))
				if es.Len() > 0 && !rs.Has(call) {
					emitsNil = false
				}
			}
		}
		r.Check(!emitsNil, "R13.3", "Query: deleted keys are not emitted", c.P.Pos(q.Pos()), "values are appended only when non-nil", "the result of Query includes the nil value of keys deleted in the current block (a deleted key is reported as live)")
	}

	// ---- R13.4
	c.cacheFill("R13.4")

	// ---- R13.5
	if rts := c.fn("R13.5", "internal/ledger.(*SimpleLedger).RevertToSnapshot"); rts != nil {
		// idx := sort.Search(..); validRevisions[idx].changerIndex -> revert; validRevisions = validRevisions[:idx]
		var idx ssa.Value
		for _, call := range core.Calls(rts) {
			if core.CalleeName(call) == "sort.Search" {
				idx = call.Value()
				continue
			}
			// a helper of the ledger that returns the position found by sort.Search
			if g := core.StaticCallee(call); g != nil && len(g.Blocks) > 0 && core.PkgOf(g) == ledgerPkg && g.Signature.Results().Len() == 1 {
				fromSearch := false
				for _, ret := range core.Returns(g) {
					for _, o := range core.RetOrigins(ret.Results[0]) {
						if cc, ok := o.V.(*ssa.Call); ok && core.CalleeName(cc) == "sort.Search" {
							fromSearch = true
						}
					}
				}
				if fromSearch && call.Value() != nil {
					idx = call.Value()
				}
			}
		}
		okRevert, okTrunc := false, false
		// a helper that returns both the position and the changer index recorded there:
		// idx, changerIndex := findRevision(revisions, id)
		var pairCall *ssa.Call
		pairIdx, pairChanger := -1, -1
		for _, call := range core.Calls(rts) {
			cl, isCall := call.(*ssa.Call)
			g := core.StaticCallee(call)
			if !isCall || g == nil || len(g.Blocks) == 0 || core.PkgOf(g) != ledgerPkg || g.Signature.Results().Len() != 2 {
				continue
			}
			var search ssa.Value
			for _, gc := range core.Calls(g) {
				if core.CalleeName(gc) == "sort.Search" {
					search = gc.Value()
				}
			}
			if search == nil {
				continue
			}
			pi, ci := -1, -1
			for _, ret := range core.Returns(g) {
				for k := 0; k < 2; k++ {
					if core.Strip(ret.Results[k]) == search {
						pi = k
					} else if core.Mentions(ret.Results[k], func(v ssa.Value) bool {
						ia, ok := v.(*ssa.IndexAddr)
						return ok && core.Strip(ia.Index) == search
					}) && core.Mentions(ret.Results[k], fieldLoad("revision", "changerIndex")) {
						ci = k
					}
				}
			}
			if pi >= 0 && ci >= 0 {
				pairCall, pairIdx, pairChanger = cl, pi, ci
			}
		}
		if pairCall != nil && idx == nil {
			for _, rf := range *pairCall.Referrers() {
				if ex, ok := rf.(*ssa.Extract); ok && ex.Index == pairIdx {
					idx = ex
				}
			}
		}
		for _, call := range core.Calls(rts) {
			if pairCall != nil && strings.HasSuffix(core.CalleeName(call), "stateChanger).revert") {
				if ex, ok := core.Strip(call.Common().Args[2]).(*ssa.Extract); ok && ex.Tuple == ssa.Value(pairCall) && ex.Index == pairChanger {
					okRevert = true
					continue
				}
			}
			if strings.HasSuffix(core.CalleeName(call), "stateChanger).revert") {
				arg := call.Common().Args[2]
				okRevert = okRevert || idx != nil && core.Mentions(arg, func(v ssa.Value) bool {
					ia, ok := v.(*ssa.IndexAddr)
					return ok && core.Strip(ia.Index) == idx
				}) && core.Mentions(arg, fieldLoad("revision", "changerIndex"))
			}
		}
		for _, in := range sites(rts, storesToField("SimpleLedger", "validRevisions")) {
			st := in.(*ssa.Store)
			if sl, ok := st.Val.(*ssa.Slice); ok && sl.High != nil && core.Strip(sl.High) == idx && sl.Low == nil {
				okTrunc = true
			}
		}
		r.Check(idx != nil && okRevert, "R13.5", "RevertToSnapshot: changer reverted to the recorded index", c.P.Pos(rts.Pos()), "changer.revert(l, validRevisions[idx].changerIndex)", "the undo log is not reverted to the position recorded for the requested snapshot")
		r.Check(idx != nil && okTrunc, "R13.5", "RevertToSnapshot: later revisions discarded", c.P.Pos(rts.Pos()), "validRevisions = validRevisions[:idx]", "revisions taken after the reverted snapshot stay valid (a nested snapshot could be reverted to a state that no longer exists)")
	}
	// the two halves of the revision bookkeeping are reset together
	nReset := 0
	for _, fn := range c.P.ModuleFuncs(true) {
		if core.PkgOf(fn) != ledgerPkg || len(fn.Blocks) == 0 {
			continue
		}
		isValid := storesToField("SimpleLedger", "validRevisions")
		for _, in := range sites(fn, storesToField("SimpleLedger", "nextRevisionId")) {
			st := in.(*ssa.Store)
			if _, isConst := st.Val.(*ssa.Const); !isConst {
				continue // the increment of Snapshot
			}
			if _, _, base, _ := core.FieldOf(st.Addr); base != nil {
				if _, fresh := core.Strip(base).(*ssa.Alloc); fresh {
					continue // construction
				}
			}
			nReset++
			before := core.Reach([]core.Point{core.EntryOf(fn)}, isValid, nil)
			after := core.Reach([]core.Point{core.After(in)}, isValid, nil)
			escapes := false
			for _, ret := range core.Returns(fn) {
				if after.Has(ret) {
					escapes = true
				}
			}
			r.Check(!(before.Has(in) && escapes), "R13.5", shortLedger(fn)+": revision ids and revision records are reset together", c.P.Pos(in.Pos()), "every path that restarts nextRevisionId also truncates validRevisions",
				"a path restarts the revision ids (nextRevisionId = 0) without discarding the recorded revisions: the next transaction hands out ids that are still in validRevisions, RevertToSnapshot finds the stale record and reverts to the wrong journal position (writes made before an inner snapshot are lost)")
		}
	}
	r.Floor("R13.5", "resets of the revision counter", nReset, 1)
	if sn := c.fn("R13.5", "internal/ledger.(*SimpleLedger).Snapshot"); sn != nil {
		ok := false
		for _, call := range core.Calls(sn) {
			if strings.HasSuffix(core.CalleeName(call), "stateChanger).length") {
				ok = true
			}
		}
		r.Check(ok, "R13.5", "Snapshot records the changer length", c.P.Pos(sn.Pos()), "revision{id, changer.length()}", "a snapshot does not record the current undo-log position")
	}
	_ = fmt.Sprintf
}

// dirtyStateOp: in is a sync.Map call of one of the named methods on an account's dirtyState.
func dirtyStateOp(in ssa.Instruction, methods ...string) bool {
	call, ok := in.(ssa.CallInstruction)
	if !ok {
		return false
	}
	n := core.CalleeName(call)
	for _, m := range methods {
		if n == "(*sync.Map)."+m {
			_, f, _, ok := core.FieldOf(core.Receiver(call))
			return ok && f == "dirtyState"
		}
	}
	return false
}

// mustStoreDirty: in is a dirtyState.Store, or a call of a ledger function that performs one on every path.
func mustStoreDirty(in ssa.Instruction, depth int) bool {
	if dirtyStateOp(in, "Store") {
		return true
	}
	call, ok := in.(ssa.CallInstruction)
	if !ok || depth >= 3 {
		return false
	}
	g := core.StaticCallee(call)
	if g == nil || len(g.Blocks) == 0 || core.PkgOf(g) != ledgerPkg {
		return false
	}
	p := func(x ssa.Instruction) bool { return mustStoreDirty(x, depth+1) }
	if len(sites(g, p)) == 0 {
		return false
	}
	rs := core.Reach([]core.Point{core.EntryOf(g)}, p, nil)
	for _, ret := range core.Returns(g) {
		if rs.Has(ret) {
			return false
		}
	}
	return true
}

func (c *Ctx) c13Undo(rule string) {
	r := c.R
	n := 0
	for _, fn := range c.P.ModuleFuncs(true) {
		if core.PkgOf(fn) != ledgerPkg {
			continue
		}
		for _, in := range sites(fn, func(in ssa.Instruction) bool { return dirtyStateOp(in, "Delete", "LoadAndDelete", "CompareAndDelete") }) {
			n++
			r.Bad(rule, shortLedger(fn)+": dirty entries are not removed", c.P.Pos(in.Pos()), "removes an entry from the dirty set: the next read falls through to the origin set / cache / database and returns the stored value instead of the value (or deletion) the block had established before; the journal and state root of the block lose the key")
		}
	}
	if n == 0 {
		r.OK(rule, "no function of internal/ledger removes a dirty-state entry", "", "dirtyState is only stored to and ranged over; deletions are nil tombstones")
	}
	rv := c.fn(rule, "internal/ledger.(storageChange).revert")
	if rv == nil {
		return
	}
	p := func(in ssa.Instruction) bool { return mustStoreDirty(in, 0) }
	ss := sites(rv, p)
	rs := core.Reach([]core.Point{core.EntryOf(rv)}, p, nil)
	skipped := false
	for _, ret := range core.Returns(rv) {
		if rs.Has(ret) {
			skipped = true
		}
	}
	r.Check(len(ss) > 0 && !skipped, rule, "storageChange.revert: stores on every path", c.P.Pos(rv.Pos()), "the dirty-set store is on every path of the undo", "some path of the storage undo does not write the dirty set: the reverted write stays visible")
	for _, in := range ss {
		call := in.(ssa.CallInstruction)
		rec := false
		for _, a := range call.Common().Args {
			if core.Mentions(a, fieldLoad("storageChange", "prevalue")) {
				rec = true
			}
		}
		r.Check(rec, rule, "storageChange.revert: stores the recorded previous value", c.P.Pos(in.Pos()), "value argument is the record's prevalue", "the undo stores something other than the recorded previous value")
	}
}

func shortLedger(fn *ssa.Function) string {
	return strings.ReplaceAll(core.FnName(fn), "internal/ledger.", "")
}

// c13UndoCaches: R13.7 - the undo of a transaction never drops what flushed blocks put into the caches.
func (c *Ctx) c13UndoCaches() {
	r := c.R
	// functions of the ledger reachable from the stateChange.revert methods
	reach := map[*ssa.Function]bool{}
	var walk func(fn *ssa.Function, d int)
	walk = func(fn *ssa.Function, d int) {
		if fn == nil || reach[fn] || len(fn.Blocks) == 0 || core.PkgOf(fn) != ledgerPkg || d > 4 {
			return
		}
		reach[fn] = true
		for _, call := range core.Calls(fn) {
			walk(core.StaticCallee(call), d+1)
		}
	}
	nRev := 0
	for _, fn := range c.P.ModuleFuncs(true) {
		if core.PkgOf(fn) == ledgerPkg && fn.Name() == "revert" && fn.Signature.Recv() != nil {
			nRev++
			walk(fn, 0)
		}
	}
	r.Floor("R13.7", "stateChange.revert methods", nRev, 5)
	n := 0
	var fns []*ssa.Function
	for fn := range reach {
		fns = append(fns, fn)
	}
	sort.Slice(fns, func(i, j int) bool { return core.FnName(fns[i]) < core.FnName(fns[j]) })
	for _, fn := range fns {
		for _, call := range core.Calls(fn) {
			o := core.CalleeObj(call)
			if o == nil || (o.Name() != "Remove" && o.Name() != "Purge") || !strings.Contains(core.CalleeName(call), "lru") {
				continue
			}
			_, f, _, ok := core.FieldOf(core.Receiver(call))
			n++
			r.Check(ok && f == "innerAccountCache", "R13.7", fmt.Sprintf("%s: undo touches only the account-record cache (%s.%s)", shortLedger(fn), f, o.Name()), c.P.Pos(call.Pos()), "removes the cached account record of the reverted creation",
				"the undo path ("+shortLedger(fn)+") drops entries of the "+f+" cache: that cache holds the writes of blocks that were flushed but not yet committed to the database, so until their commit lands a read falls through to the stale database value")
		}
	}
	r.Floor("R13.7", "cache removals on the undo path", n, 1)
}

// cacheFill: the write-through account cache receives what the block wrote (C13 R13.4, shared with C10 R10.8).
func (c *Ctx) cacheFill(rule string) {
	r := c.R
	if fl := c.fn(rule, "internal/ledger.(*SimpleLedger).FlushDirtyData"); fl != nil {
		isAdd := func(in ssa.Instruction) bool {
			call, ok := in.(ssa.CallInstruction)
			return ok && strings.HasSuffix(core.CalleeName(call), "AccountCache).add")
		}
		rs := core.Reach([]core.Point{core.EntryOf(fl)}, isAdd, nil)
		bad := false
		for _, ret := range core.Returns(fl) {
			if rs.Has(ret) {
				bad = true
			}
		}
		r.Check(!bad && len(sites(fl, isAdd)) > 0, rule, "FlushDirtyData: dirty accounts enter the cache", c.P.Pos(fl.Pos()), "accountCache.add on every path", "a flushed block's accounts are not added to the account cache on some path: later reads serve the stale cached value")
		// the argument is the dirty account map that is returned
		for _, in := range sites(fl, isAdd) {
			call := in.(ssa.CallInstruction)
			same := false
			for _, ret := range core.Returns(fl) {
				if sameValue(ret.Results[0], call.Common().Args[1]) {
					same = true
				}
			}
			r.Check(same, rule, "FlushDirtyData: cache receives the returned dirty set", c.P.Pos(in.Pos()), "accountCache.add(dirtyAccounts) with the map that is committed", "the cache is filled from a different account set than the one that is committed")
		}
	}
	if ad := c.fn(rule, "internal/ledger.(*AccountCache).add"); ad != nil {
		n := 0
		for _, cb := range core.WithClosures(ad)[1:] {
			isAdd := func(in ssa.Instruction) bool {
				call, ok := in.(ssa.CallInstruction)
				return ok && core.CalleeName(call) == "(*github.com/hashicorp/golang-lru.Cache).Add"
			}
			if len(sites(cb, isAdd)) == 0 {
				continue
			}
			n++
			rs := core.Reach([]core.Point{core.EntryOf(cb)}, isAdd, nil)
			skipped := false
			for _, ret := range core.Returns(cb) {
				if rs.Has(ret) {
					skipped = true
				}
			}
			r.Check(!skipped, rule, "AccountCache.add: every dirty key enters the state cache", c.P.Pos(cb.Pos()), "the Range callback adds the key on every path (deleted keys as nil tombstones)",
				"some dirty keys are not written to the state cache at flush: until the commit reaches the database, a read falls through to the stale database value")
		}
		r.Floor(rule, "state-cache fill callbacks", n, 1)
	}
	if rv := c.fn(rule, "internal/ledger.(createObjectChange).revert"); rv != nil {
		// the removal itself: lru Remove on the account-record cache, directly or through a helper (rmAccount)
		isRemove := c.throughHelpers(func(in ssa.Instruction) bool {
			call, ok := in.(ssa.CallInstruction)
			if !ok || core.CalleeName(call) != "(*github.com/hashicorp/golang-lru.Cache).Remove" {
				return false
			}
			_, f, _, okf := core.FieldOf(core.Receiver(call))
			return okf && f == "innerAccountCache"
		})
		ok := len(sites(rv, isRemove)) > 0
		r.Check(ok, rule, "createObjectChange.revert removes the cached account", c.P.Pos(rv.Pos()), "innerAccountCache.Remove reached", "reverting an account creation leaves its record in the account cache")
	}

}
