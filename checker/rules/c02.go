package rules

import (
	"fmt"
	"go/token"
	"go/types"
	"strings"

	"bxhlint/core"

	"golang.org/x/tools/go/ssa"
)

func init() { Props["C02"] = C02 }

const imPrefix = "internal/executor/contracts.(*InterchainManager)."

var counterFields = map[string]bool{"InterchainCounter": true, "ReceiptCounter": true, "SourceInterchainCounter": true, "SourceReceiptCounter": true}

// counterMapOf: v is (a load of) one of the four counter maps of a pb.Interchain.
func counterMapOf(v ssa.Value) (string, ssa.Value, bool) {
	o, f, base, ok := core.FieldOf(v)
	if ok && counterFields[f] && strings.HasSuffix(o, "pb.Interchain") {
		return f, base, true
	}
	return "", nil, false
}

// C02: IBTPs are accepted in index order, exactly once per ordered pair.
func C02(c *Ctx) {
	r := c.R
	r.Rule("R02.1", "index gate: every path through checkIBTP that returns no error crosses the success edge of checkIndex(counter[dst]+1, ibtp.Index) (InterchainCounter for requests, ReceiptCounter for receipts) or the explicit unordered-destination (isBatch) edge; checkIndex itself returns nil exactly when cur == exp (finite-ordering evaluation of its comparisons).")
	r.Rule("R02.2", "counter writers: every store to an InterchainCounter/ReceiptCounter/SourceInterchainCounter/SourceReceiptCounter element is in a function reachable only from HandleIBTP (static call graph of the contracts package), never from another dispatchable entry; the request counter is advanced by exactly one (counter[k] = counter[k] + 1).")
	r.Rule("R02.3", "processing only after the checks: in HandleIBTP, ProcessIBTP and notifySrcDst lie behind the no-error edges of checkIBTP and of begin/reportTransaction; notifySrcDst is called once (not in a loop) and posts exactly one interchain event per call.")
	r.Rule("R02.4", "coherent counter updates: the (from, to, index) triple handed to setDestInterchain comes from one source - the three fields of one IBTP or the three results of one ParseIBTPID call - so a pair's counter is never set from another pair's index.")
	r.Rule("R02.5", "record windows do not overlap: between loading an interchain record (getInterchain, or receiving it as a parameter) and writing it back (setInterchain, directly or in a helper that receives it), no other interchain record is written; the keys of two records are run-time values that may coincide (source == destination), and then the later write-back restores the stale copy, dropping the counter increment - the index would be accepted twice; a record loaded with getInterchain(k) is written back under the same key k.")
	c.c02Windows()
	r.Rule("R02.6", "acceptance consumes the index: on every path of ProcessIBTP through the request branch (Category() == REQUEST and not a rollback notification) InterchainCounter[to] is advanced and the record is written back before the function returns - also when the target is unavailable and the transaction begins as failed; otherwise checkIBTP keeps expecting the same index and the identical request is accepted again.")
	r.Rule("R02.7", "listed in the accepting block and in no other (shared with C09 R09.9, C01 R01.7): "+perBlockResetText)
	r.Rule("R02.8", childReceiptFSMText)
	r.Rule("R02.9", "a begun transaction names what it was before: the StatusChange that a Begin* entry of the transaction manager marshals for the interchain contract has its PrevStatus assigned on every path from its creation (or its last reset) to the Marshal - with -1 where the record did not exist, with the stored status otherwise. The zero value of PrevStatus is BEGIN: a change BEGIN -> BEGIN raises no notify flag, so an accepted request (counters advanced, index recorded) is listed in no delivery set.")
	c.c02PrevStatus()
	c.c02WrapperMerge()
	r.Rule("R02.10", "exactly once also for unordered destinations (shared with C04 R04.12): see R04.12 - a request id that was accepted before is rejected; otherwise the replay is accepted, counted and delivered a second time.")
	c.requestFreshness("R02.10")
	c.childReceiptThroughFSM("R02.8")
	c.perBlockReset("R02.7")
	c.c02Consumes()
	r.NotDecided = append(r.NotDecided, "that the counters equal the number of accepted IBTPs over a history; block packing; unordered (batch) destinations are outside the property's 'ordered pair' scope")

	check := c.fn("R02.1", imPrefix+"checkIBTP")
	ci := c.fn("R02.1", "internal/executor/contracts.checkIndex")
	if check != nil && ci != nil {
		isBatchLike := func(v ssa.Value) bool {
			for _, o := range append(core.Origins(v), v) {
				if ex, ok := o.(*ssa.Extract); ok && ex.Index == 0 {
					if call, ok := ex.Tuple.(*ssa.Call); ok && strings.HasSuffix(core.CalleeName(call), "checkTargetAvailability") {
						return true
					}
				}
				if core.Mentions(o, fieldLoad("Service", "Ordered")) {
					return true
				}
			}
			return false
		}
		// gated(f): every return of f whose error result may be nil lies behind the success edge of an index guard in
		// f (checkIndex, a checkIndex wrapper, or a call of a helper that is itself gated) or behind the
		// unordered-destination edge - or hands on, as its error, exactly the error of a gated helper. checkIBTP
		// may be split into helpers per category (extract method); the obligation follows the code.
		nIdx, nAccept := 0, 0
		gateMemo := map[*ssa.Function]int{}
		var gated func(f *ssa.Function, d int) bool
		gated = func(f *ssa.Function, d int) bool {
			switch gateMemo[f] {
			case 1:
				return true
			case 2:
				return false
			}
			gateMemo[f] = 2 // recursion: not gated
			res := f.Signature.Results()
			if len(f.Blocks) == 0 || res.Len() == 0 || d > 3 {
				return false
			}
			errIdx := res.Len() - 1
			if !strings.HasSuffix(res.At(errIdx).Type().String(), "BxhError") {
				return false
			}
			name := f.Name()
			var gsites []core.GuardSite
			gatedCall := map[*ssa.Call]bool{}
			guardCall := map[*ssa.Call]bool{}
			var emit []func()
			idx0 := nIdx
			for _, call := range core.Calls(f) {
				cl, ok := call.(*ssa.Call)
				if !ok {
					continue
				}
				g := core.StaticCallee(call)
				if g != nil && g != ci && g != f && core.PkgOf(g) == "internal/executor/contracts" {
					// a wrapper of checkIndex: every nil return is checkIndex's own result or lies behind a bool
					// parameter that the call site fills with the unordered-destination flag
					if okW, batchIdx, inner := indexGuardWrapper(g, ci); okW {
						if batchIdx < 0 || (batchIdx < len(cl.Call.Args) && isBatchLike(cl.Call.Args[batchIdx])) {
							nIdx++
							gsites = append(gsites, core.GuardSite{Call: cl, Conv: core.ConvErrNil, Idx: -1})
							exp, cur := inner.Call.Args[0], inner.Call.Args[1]
							okShape := false
							field := ""
							if bo, ok := exp.(*ssa.BinOp); ok && bo.Op == token.ADD {
								if one, ok := core.ConstInt(bo.Y); ok && one == 1 {
									if lk, ok := bo.X.(*ssa.Lookup); ok {
										if fld, _, ok := counterMapOf(lk.X); ok && (fld == "InterchainCounter" || fld == "ReceiptCounter") {
											okShape, field = true, fld
										}
									}
								}
							}
							if pi := paramIndex(g, cur); pi >= 0 && pi < len(cl.Call.Args) {
								if _, curField, _, okCur := core.FieldOf(cl.Call.Args[pi]); !okCur || curField != "Index" {
									okShape = false
								}
							} else if _, curField, _, okCur := core.FieldOf(cur); !okCur || curField != "Index" {
								okShape = false
							}
							guardCall[cl] = true
							kk, pp, ww := fmt.Sprintf("checkIBTP: checkIndex #%d arguments", nIdx), c.P.Pos(cl.Pos()), "expected index = "+field+"[dst] + 1, current = ibtp.Index (through "+g.Name()+")"
							emit = append(emit, func() {
								r.Check(okShape, "R02.1", kk, pp, ww, "checkIndex is not called with (counter[dst]+1, ibtp.Index)")
							})
						}
						continue
					}
					// a helper that is itself gated (its error result is the last one)
					isIM := g.Signature.Recv() != nil && strings.Contains(core.FnName(g), "InterchainManager")
					if ct := c.Contracts().bvm.ContractOfFn(g); ct != nil && ct.Name == "InterchainManager" {
						isIM = true // also a method of a context struct that carries the interchain manager
					}
					if isIM && gated(g, d+1) {
						gi := g.Signature.Results().Len() - 1
						if g.Signature.Results().Len() == 1 {
							gi = -1
						}
						gsites = append(gsites, core.GuardSite{Call: cl, Conv: core.ConvErrNil, Idx: gi})
						gatedCall[cl] = true
						guardCall[cl] = true
					}
					continue
				}
				if g != ci {
					continue
				}
				nIdx++
				gsites = append(gsites, core.GuardSite{Call: cl, Conv: core.ConvErrNil, Idx: -1})
				exp, cur := cl.Call.Args[0], cl.Call.Args[1]
				okShape := false
				field := ""
				if bo, ok := exp.(*ssa.BinOp); ok && bo.Op == token.ADD {
					if one, ok := core.ConstInt(bo.Y); ok && one == 1 {
						if lk, ok := bo.X.(*ssa.Lookup); ok {
							if fld, _, ok := counterMapOf(lk.X); ok && (fld == "InterchainCounter" || fld == "ReceiptCounter") {
								okShape = true
								field = fld
							}
						}
					}
				}
				_, curField, _, okCur := core.FieldOf(cur)
				if !okCur || curField != "Index" {
					okShape = false
				}
				guardCall[cl] = true
				kk, pp, ww := fmt.Sprintf("checkIBTP: checkIndex #%d arguments", nIdx), c.P.Pos(cl.Pos()), "expected index = "+field+"[dst] + 1, current = ibtp.Index"
				emit = append(emit, func() {
					r.Check(okShape, "R02.1", kk, pp, ww, "checkIndex is not called with (counter[dst]+1, ibtp.Index)")
				})
			}
			es := core.EdgeSet{}
			for b, m := range core.SuccessEdges(f, gsites) {
				for i := range m {
					es.Add(b, i)
				}
			}
			// unordered destination: isBatch (result 0 of checkTargetAvailability, or !srcService.Ordered) true edge
			es.Merge(condEdges(f, func(fc core.Fact, ifi *ssa.If) (bool, int) {
				if fc.Kind != core.FBool {
					return false, 0
				}
				if isBatchLike(fc.Subject) {
					return true, holdsEdge(fc)
				}
				return false, 0
			}))
			// an error variable that collects the results of several guards (one per category): where it is nil, the
			// guard that produced it succeeded - every origin is a guard's error or a value that is never nil
			es.Merge(condEdges(f, func(fc core.Fact, ifi *ssa.If) (bool, int) {
				if fc.Kind != core.FNil {
					return false, 0
				}
				os := core.RetOrigins(fc.Subject)
				if len(os) < 2 {
					return false, 0
				}
				nGuard := 0
				for _, o := range os {
					var from *ssa.Call
					if ex, isEx := core.Strip(o.V).(*ssa.Extract); isEx {
						from, _ = ex.Tuple.(*ssa.Call)
					} else if cc, isC := core.Strip(o.V).(*ssa.Call); isC {
						from = cc
					}
					if from != nil && guardCall[from] {
						nGuard++
						continue
					}
					if core.OriginMayBeSuccess(f, nil, o.V, core.ConvErrNil) {
						return false, 0
					}
				}
				if nGuard == 0 {
					return false, 0
				}
				return true, holdsEdge(fc)
			}))
			cut := core.CutOf(es)
			rs := core.Reach([]core.Point{core.EntryOf(f)}, nil, cut)
			ok := true
			for _, ret := range core.Returns(f) {
				if len(ret.Results) <= errIdx || !core.MayBeSuccess(f, ret, errIdx, core.ConvErrNil) {
					continue
				}
				if f == check {
					nAccept++
				}
				good := !rs.Has(ret)
				why := "reachable only across a checkIndex success edge (or the unordered-destination edge)"
				if !good {
					// forwarding: the error handed on is the error of a gated helper on every path that can carry a nil
					fwd := true
					for _, o := range core.RetOrigins(ret.Results[errIdx]) {
						if !core.OriginMayBeSuccess(f, ret, o.V, core.ConvErrNil) {
							continue
						}
						ex, isEx := core.Strip(o.V).(*ssa.Extract)
						var from *ssa.Call
						if isEx {
							from, _ = ex.Tuple.(*ssa.Call)
						} else if cc, isC := core.Strip(o.V).(*ssa.Call); isC {
							from = cc
						}
						if from == nil || !gatedCall[from] || !core.OriginReachable(rs, cut, ret, o) && false {
							if core.OriginReachable(rs, cut, ret, o) {
								fwd = false
							}
						}
					}
					if fwd {
						good, why = true, "hands on the error of a helper that is itself index-gated"
					}
				}
				key := "checkIBTP: accepting return"
				if f != check {
					key = "checkIBTP/" + name + ": accepting return"
				}
				gg, pp, ww, bb := good, c.P.Pos(ret.Pos()), why, shortFn(f)+" can accept an IBTP without the index check: path (lines) "+rs.Witness(c.P, ret)
				emit = append(emit, func() { r.Check(gg, "R02.1", key, pp, ww, bb) })
				if !good {
					ok = false
				}
			}
			if ok {
				gateMemo[f] = 1
			}
			// a helper that turns out not to be a guard was only probed: nothing is reported for it
			if ok || f == check {
				for _, e := range emit {
					e()
				}
			} else {
				nIdx = idx0
			}
			return ok
		}
		gated(check, 0)
		r.Floor("R02.1", "checkIndex call sites in checkIBTP", nIdx, 2)
		r.Floor("R02.1", "accepting returns of checkIBTP", nAccept, 1)
		// checkIndex semantics by finite orderings
		outs := core.OrderingReturns(ci, ci.Params[0], ci.Params[1])
		okEq, okLt, okGt := false, true, true
		for ord, rets := range outs {
			for _, ret := range rets {
				succ := core.MayBeSuccess(ci, ret, 0, core.ConvErrNil)
				switch ord {
				case "=":
					if succ {
						okEq = true
					}
				case "<":
					if succ {
						okLt = false
					}
				case ">":
					if succ {
						okGt = false
					}
				}
			}
		}
		r.Check(okEq && okLt && okGt, "R02.1", "checkIndex: nil iff cur == exp", c.P.Pos(ci.Pos()), "orderings {exp<cur, exp=cur, exp>cur} evaluated: nil is returned for exp=cur only",
			fmt.Sprintf("checkIndex accepts a wrong index: nil reachable for exp=cur:%v, exp<cur:%v, exp>cur:%v", okEq, !okLt, !okGt))
	}

	// R02.2 writers
	m := c.Contracts()
	handle := c.fn("R02.2", imPrefix+"HandleIBTP")
	writers := map[*ssa.Function][]ssa.Instruction{}
	for _, fn := range m.funcs {
		for _, b := range fn.Blocks {
			for _, in := range b.Instrs {
				if mu, ok := in.(*ssa.MapUpdate); ok {
					if _, _, ok := counterMapOf(mu.Map); ok {
						writers[fn] = append(writers[fn], in)
					}
				}
			}
		}
	}
	r.Floor("R02.2", "functions writing interchain counters", len(writers), 2)
	// callers within the contracts package
	callersOf := func(f *ssa.Function) []*ssa.Function {
		var out []*ssa.Function
		for _, g := range m.funcs {
			for _, call := range core.Calls(g) {
				if core.StaticCallee(call) == f {
					out = append(out, g)
					break
				}
			}
		}
		return out
	}
	for fn, ins := range writers {
		// walk up callers; every root must be HandleIBTP
		seen := map[*ssa.Function]bool{}
		var roots []string
		var up func(f *ssa.Function)
		up = func(f *ssa.Function) {
			if seen[f] {
				return
			}
			seen[f] = true
			if f == handle {
				return // HandleIBTP is the gate; R02.3 checks what precedes
			}
			if f.Parent() != nil {
				// a closure (e.g. the mutation handed to a load-modify-store helper) runs on behalf of the function
				// that creates it
				up(f.Parent())
				return
			}
			cs := callersOf(f)
			// a dispatchable invocable entry is a root as well
			if ct := m.bvm.ContractOfFn(f); ct != nil {
				if e := ct.Entry(f.Name()); e != nil && e.Fn == f && e.Invocable && !m.bvm.FilterExcludes(e) {
					roots = append(roots, e.Key()+" (dispatchable)")
				}
			}
			if len(cs) == 0 {
				roots = append(roots, shortFn(f))
			}
			for _, g := range cs {
				up(g)
			}
		}
		up(fn)
		var bad []string
		for _, rt := range roots {
			if rt != shortFn(handle) {
				bad = append(bad, rt)
			}
		}
		key := shortFn(fn) + ": counter stores"
		r.Check(len(bad) == 0, "R02.2", key, c.P.Pos(ins[0].Pos()), fmt.Sprintf("%d store(s); reachable only through HandleIBTP", len(ins)),
			"interchain counters are written on a path that does not go through HandleIBTP's checks: reachable from "+strings.Join(bad, ", "))
		for _, in := range ins {
			mu := in.(*ssa.MapUpdate)
			f, _, _ := counterMapOf(mu.Map)
			if f != "InterchainCounter" {
				continue
			}
			// counter[k]++ : value = Lookup(same map, same key) + 1
			ok := false
			if bo, isBo := mu.Value.(*ssa.BinOp); isBo && bo.Op == token.ADD {
				if one, isC := core.ConstInt(bo.Y); isC && one == 1 {
					if lk, isLk := bo.X.(*ssa.Lookup); isLk && sameValue(lk.X, mu.Map) && sameValue(lk.Index, mu.Key) {
						ok = true
					}
				}
			}
			r.Check(ok, "R02.2", shortFn(fn)+": InterchainCounter advance", c.P.Pos(in.Pos()), "counter[k] = counter[k] + 1", "the request counter is not advanced by exactly one for the same key")
		}
	}

	// R02.3
	if handle != nil && check != nil {
		proc := c.P.Fn(imPrefix + "ProcessIBTP")
		notify := c.P.Fn(imPrefix + "notifySrcDst")
		begin := c.P.Fn(imPrefix + "beginTransaction")
		report := c.P.Fn(imPrefix + "reportTransaction")
		if proc == nil || notify == nil || begin == nil || report == nil {
			r.Anchor("R02.3", imPrefix+"ProcessIBTP/notifySrcDst/beginTransaction/reportTransaction")
		} else {
			var gs []core.GuardSite
			for _, call := range core.Calls(handle) {
				cl, ok := call.(*ssa.Call)
				if !ok {
					continue
				}
				switch core.StaticCallee(call) {
				case check:
					gs = append(gs, core.GuardSite{Call: cl, Conv: core.ConvErrNil, Idx: 3})
				}
			}
			esCheck := core.EdgeSet{}
			for b, mm := range core.SuccessEdges(handle, gs) {
				for i := range mm {
					esCheck.Add(b, i)
				}
			}
			isProc := func(in ssa.Instruction) bool {
				call, ok := in.(ssa.CallInstruction)
				return ok && (core.StaticCallee(call) == proc || core.StaticCallee(call) == notify)
			}
			n := c.behindEdges("R02.3", "HandleIBTP", handle, esCheck, isProc, "checkIBTP returned no error", "ProcessIBTP/notifySrcDst")
			r.Floor("R02.3", "processing calls in HandleIBTP", n, 2)
			// begin/report error edge: `err` is a phi of both calls' error results
			esTx := condEdges(handle, func(f core.Fact, ifi *ssa.If) (bool, int) {
				if f.Kind != core.FNil {
					return false, 0
				}
				hit := false
				for _, o := range core.Origins(f.Subject) {
					if ex, ok := o.(*ssa.Extract); ok && ex.Index == 1 {
						if call, ok := ex.Tuple.(*ssa.Call); ok && (core.StaticCallee(call) == begin || core.StaticCallee(call) == report) {
							hit = true
						}
					}
				}
				if hit {
					return true, holdsEdge(f)
				}
				return false, 0
			})
			c.behindEdges("R02.3", "HandleIBTP", handle, esTx, isProc, "begin/reportTransaction returned no error", "ProcessIBTP/notifySrcDst")
			// once, not in a loop
			ns := sites(handle, func(in ssa.Instruction) bool {
				call, ok := in.(ssa.CallInstruction)
				return ok && core.StaticCallee(call) == notify
			})
			okOnce := len(ns) == 1 && !core.InLoop(ns[0])
			r.Check(okOnce, "R02.3", "HandleIBTP: notifySrcDst exactly once", c.P.Pos(handle.Pos()), "one call site, not on a cycle", fmt.Sprintf("%d notifySrcDst call sites or inside a loop", len(ns)))
			ps := sites(notify, func(in ssa.Instruction) bool {
				call, ok := in.(ssa.CallInstruction)
				return ok && core.IsStubCall("PostInterchainEvent")(valueOf(call))
			})
			okPost := len(ps) == 1 && !core.InLoop(ps[0])
			if okPost {
				rs := core.Reach([]core.Point{core.EntryOf(notify)}, func(in ssa.Instruction) bool { return in == ps[0] }, nil)
				for _, ret := range core.Returns(notify) {
					if rs.Has(ret) {
						okPost = false
					}
				}
			}
			r.Check(okPost, "R02.3", "notifySrcDst: one interchain event per call", c.P.Pos(notify.Pos()), "single PostInterchainEvent on every path, not in a loop", "notifySrcDst does not post exactly one interchain event on every path")
		}
	}

	// R02.4 coherence of (from,to,index)
	setDest := c.fn("R02.4", imPrefix+"setDestInterchain")
	if setDest != nil {
		n := 0
		for _, fn := range m.funcs {
			for _, call := range core.Calls(fn) {
				if core.StaticCallee(call) != setDest {
					continue
				}
				n++
				args := call.Common().Args // recv, from, to, index, interchain
				src := make([]string, 3)
				for i := 0; i < 3; i++ {
					src[i] = tripleSource(args[1+i])
				}
				ok := src[0] != "" && src[0] == src[1] && src[1] == src[2]
				r.Check(ok, "R02.4", shortFn(fn)+": setDestInterchain(from,to,index)", c.P.Pos(call.Pos()), "all three from "+src[0],
					fmt.Sprintf("receipt counters of a pair are set from mixed sources: from<-%s, to<-%s, index<-%s (another pair's index is written)", orQ(src[0]), orQ(src[1]), orQ(src[2])))
			}
		}
		r.Floor("R02.4", "setDestInterchain call sites", n, 2)
	}
}

func orQ(s string) string {
	if s == "" {
		return "?"
	}
	return s
}

// tripleSource names the object a from/to/index value is taken from: a field
// of an IBTP value, or a result of a ParseIBTPID call.
func tripleSource(v ssa.Value) string {
	v = core.Strip(v)
	if o, f, base, ok := core.FieldOf(v); ok && strings.HasSuffix(o, "pb.IBTP") && (f == "From" || f == "To" || f == "Index") {
		return "IBTP " + core.Strip(base).Name()
	}
	if ex, ok := v.(*ssa.Extract); ok {
		if call, ok := ex.Tuple.(*ssa.Call); ok && strings.HasSuffix(core.CalleeName(call), "pb.ParseIBTPID") {
			return "ParseIBTPID call " + call.Name()
		}
	}
	return ""
}

// sameValue: two SSA values denote the same thing (identical, or loads of the
// same field path / same constant).
func sameValue(a, b ssa.Value) bool {
	a, b = core.Strip(a), core.Strip(b)
	if a == b {
		return true
	}
	// two loads of the same local variable
	if ua, ok := a.(*ssa.UnOp); ok {
		if ub, ok := b.(*ssa.UnOp); ok {
			if _, isAlloc := ua.X.(*ssa.Alloc); isAlloc && ua.X == ub.X {
				return true
			}
		}
	}
	oa, fa, ba, oka := core.FieldOf(a)
	ob, fb, bb, okb := core.FieldOf(b)
	if oka && okb && oa == ob && fa == fb {
		return sameValue(ba, bb)
	}
	ca, okca := a.(*ssa.Const)
	cb, okcb := b.(*ssa.Const)
	if okca && okcb && ca.Value != nil && cb.Value != nil {
		return ca.Value.ExactString() == cb.Value.ExactString()
	}
	return false
}

// indexGuardWrapper: g returns nil only as the result of a checkIndex call or behind the true edge of one
// of its bool parameters (the caller's "destination is unordered" flag). Returns that parameter's index
// (-1 when there is no bypass) and the inner checkIndex call.
func indexGuardWrapper(g, ci *ssa.Function) (bool, int, *ssa.Call) {
	if g == nil || len(g.Blocks) == 0 || g.Signature.Results().Len() != 1 {
		return false, -1, nil
	}
	var inner *ssa.Call
	for _, call := range core.Calls(g) {
		if cl, ok := call.(*ssa.Call); ok && core.StaticCallee(call) == ci {
			if inner != nil {
				return false, -1, nil
			}
			inner = cl
		}
	}
	if inner == nil {
		return false, -1, nil
	}
	batch := -1
	for _, ret := range core.Returns(g) {
		for _, o := range core.RetOrigins(ret.Results[0]) {
			if o.V == ssa.Value(inner) {
				continue
			}
			if !core.IsNilConst(o.V) {
				// a constructed error
				if !core.OriginMayBeSuccess(g, ret, o.V, core.ConvErrNil) {
					continue
				}
				return false, -1, nil
			}
			// nil: must lie behind the true edge of a bool parameter
			es := condEdges(g, func(f core.Fact, ifi *ssa.If) (bool, int) {
				if f.Kind == core.FBool {
					if p, ok := core.Strip(f.Subject).(*ssa.Parameter); ok {
						for i, q := range g.Params {
							if q == p {
								batch = i
							}
						}
						return true, holdsEdge(f)
					}
				}
				return false, 0
			})
			cut := core.CutOf(es)
			rs := core.Reach([]core.Point{core.EntryOf(g)}, nil, cut)
			if core.OriginReachable(rs, cut, ret, o) {
				return false, -1, nil
			}
		}
	}
	return true, batch, inner
}

// c02Windows: R02.5 - the read-modify-write windows of two interchain records do not overlap.
func (c *Ctx) c02Windows() {
	r := c.R
	m := c.Contracts()
	isSet := func(call ssa.CallInstruction) bool {
		return strings.HasSuffix(core.CalleeName(call), "InterchainManager).setInterchain")
	}
	// setsRecord[fn]: fn (transitively, within the contracts package) calls setInterchain
	sets := map[*ssa.Function]bool{}
	for changed := true; changed; {
		changed = false
		for _, fn := range m.funcs {
			if sets[fn] {
				continue
			}
			for _, call := range core.Calls(fn) {
				g := core.StaticCallee(call)
				if isSet(call) || g != nil && sets[g] && !strings.HasSuffix(core.FnName(g), "InterchainManager).setInterchain") {
					sets[fn], changed = true, true
					break
				}
			}
		}
	}
	isRecord := func(v ssa.Value) bool { return strings.HasSuffix(v.Type().String(), "pb.Interchain") }
	n := 0
	for _, fn := range m.funcs {
		if len(fn.Blocks) == 0 || strings.HasSuffix(core.FnName(fn), "InterchainManager).setInterchain") {
			continue
		}
		// windows: (start point, record value)
		type window struct {
			start core.Point
			v     ssa.Value
			what  string
			pos   token.Pos
		}
		var ws []window
		for _, p := range fn.Params {
			if isRecord(p) {
				ws = append(ws, window{core.EntryOf(fn), p, "parameter " + p.Name(), fn.Pos()})
			}
		}
		for _, call := range core.Calls(fn) {
			if call.Value() == nil || call.Value().Referrers() == nil {
				continue
			}
			what := "record loaded by " + shortCallee(call)
			if isRecord(call.Value()) {
				ws = append(ws, window{core.After(call), call.Value(), what, call.Pos()})
			}
			for _, ref := range *call.Value().Referrers() {
				if ex, ok := ref.(*ssa.Extract); ok && isRecord(ex) {
					ws = append(ws, window{core.After(call), ex, what, call.Pos()})
				}
			}
		}
		if len(ws) == 0 {
			continue
		}
		passes := func(call ssa.CallInstruction, v ssa.Value) bool {
			for _, a := range call.Common().Args {
				if core.Strip(a) == v || core.Mentions(a, func(x ssa.Value) bool { return x == v }) {
					return true
				}
			}
			return false
		}
		for wi, w := range ws {
			// closing sites: the record is written back (directly or by a helper that receives it and sets records)
			closes := func(in ssa.Instruction) bool {
				call, ok := in.(ssa.CallInstruction)
				if !ok || !passes(call, w.v) {
					return false
				}
				g := core.StaticCallee(call)
				return isSet(call) || g != nil && sets[g]
			}
			if len(sites(fn, closes)) == 0 {
				continue // read-only use of the record
			}
			n++
			foreign := func(in ssa.Instruction) bool {
				call, ok := in.(ssa.CallInstruction)
				if !ok || passes(call, w.v) {
					return false
				}
				g := core.StaticCallee(call)
				return isSet(call) || g != nil && sets[g]
			}
			inside := core.Reach([]core.Point{w.start}, closes, nil)
			bad := ""
			for _, f := range sites(fn, foreign) {
				if !inside.Has(f) {
					continue
				}
				after := core.Reach([]core.Point{core.After(f)}, nil, nil)
				for _, cl := range sites(fn, closes) {
					if after.Has(cl) {
						bad = c.P.Pos(f.Pos())
					}
				}
			}
			// a record loaded under one key goes back under the same key (Register tests the existence of the record
			// it is about to create: a different key always reports "missing" and the counters are reset)
			if gc, _ := core.CallOf(w.v); gc != nil && strings.HasSuffix(core.CalleeName(gc), "InterchainManager).getInterchain") && len(gc.Call.Args) >= 2 {
				for _, cl := range sites(fn, closes) {
					sc, ok := cl.(ssa.CallInstruction)
					if !ok || !isSet(sc) || len(sc.Common().Args) < 2 {
						continue
					}
					r.Check(sameValue(gc.Call.Args[1], sc.Common().Args[1]), "R02.5", fmt.Sprintf("%s: record of window #%d is loaded and stored under one key", shortFn(fn), wi), c.P.Pos(cl.Pos()), "getInterchain(k) ... setInterchain(k, record)",
						"the record is looked up under one key and written under another: the lookup never finds the stored record, so the existing counters of the service are overwritten with a fresh record (the accepted indices start again at 1)")
				}
			}
			key := fmt.Sprintf("%s: window of %s #%d holds no other record write", shortFn(fn), w.what, wi)
			r.Check(bad == "", "R02.5", key, c.P.Pos(w.pos), "no other interchain record is written between loading this record and writing it back",
				"another interchain record is written at "+bad+" while this record is held loaded and is written back afterwards: when both keys name the same service (a pair with source == destination) the later write restores the stale copy and the counter update of the first write is lost - the same index is accepted again")
		}
	}
	r.Floor("R02.5", "read-modify-write windows of interchain records", n, 3)
}

// c02Consumes: R02.6 - an accepted request consumes its index.
func (c *Ctx) c02Consumes() {
	r := c.R
	pi := c.fn("R02.6", imPrefix+"ProcessIBTP")
	if pi == nil {
		return
	}
	// edges that leave the request branch: Category() != REQUEST, or the notification flag set
	isCategoryCmp := func(ifi *ssa.If) (bool, bool) { // (is comparison, true edge means request)
		bo, ok := ifi.Cond.(*ssa.BinOp)
		if !ok || (bo.Op != token.EQL && bo.Op != token.NEQ) {
			return false, false
		}
		isCat := func(v ssa.Value) bool {
			cc, ok := core.Strip(v).(*ssa.Call)
			return ok && core.CalleeObj(cc) != nil && core.CalleeObj(cc).Name() == "Category"
		}
		isReq := func(v ssa.Value) bool { return enumName(core.Strip(v)) == "IBTP_REQUEST" }
		if (isCat(bo.X) && isReq(bo.Y)) || (isCat(bo.Y) && isReq(bo.X)) {
			return true, bo.Op == token.EQL
		}
		return false, false
	}
	leave := core.EdgeSet{}
	nCat := 0
	for _, b := range pi.Blocks {
		ifi := core.IfOf(b)
		if ifi == nil {
			continue
		}
		if ok, trueIsReq := isCategoryCmp(ifi); ok {
			nCat++
			if trueIsReq {
				leave.Add(b, 1)
			} else {
				leave.Add(b, 0)
			}
			continue
		}
		f := core.CondFact(ifi.Cond)
		if f.Kind == core.FBool {
			if ex, ok := f.Subject.(*ssa.Extract); ok && ex.Index == 0 {
				if cc, ok := ex.Tuple.(*ssa.Call); ok && strings.HasSuffix(core.CalleeName(cc), "checkTxStatusForSourceBxh") {
					leave.Add(b, holdsEdge(f)) // notification: not a fresh request
				}
			}
		}
	}
	r.Floor("R02.6", "request-category tests in ProcessIBTP", nCat, 1)
	if nCat == 0 {
		return
	}
	isConsume := func(in ssa.Instruction) bool {
		mu, ok := in.(*ssa.MapUpdate)
		return ok && core.Mentions(mu.Map, fieldNamed("InterchainCounter"))
	}
	consume := c.throughHelpers(isConsume)
	isWriteBack := func(in ssa.Instruction) bool {
		call, ok := in.(ssa.CallInstruction)
		return ok && strings.HasSuffix(core.CalleeName(call), "InterchainManager).setInterchain")
	}
	for _, step := range []struct {
		name string
		p    InstrPred
		bad  string
	}{
		{"the request counter of the pair is advanced", consume, "a request can be accepted (ProcessIBTP returns) without InterchainCounter[to] being advanced: the same index is expected again, the identical IBTP is accepted a second time and the counters no longer equal the number of accepted requests"},
		{"the advanced record is written back", c.throughHelpers(isWriteBack), "a request can be accepted without the interchain record being written back: the counter increment is lost"},
	} {
		rs := core.Reach([]core.Point{core.EntryOf(pi)}, step.p, core.CutOf(leave))
		bad := ""
		for _, ret := range core.Returns(pi) {
			if rs.Has(ret) {
				bad = c.P.Pos(ret.Pos())
			}
		}
		r.Check(bad == "" && len(sites(pi, step.p)) > 0, "R02.6", "ProcessIBTP: on every path of the request branch "+step.name, c.P.Pos(pi.Pos()), "no return of the request branch is reachable without it", step.bad+" (return at "+bad+")")
	}
}

const childReceiptFSMText = "a receipt reaches its child through the child's state machine: the receipt counters of a one-to-many group are advanced only when the group ends, so until then the index check cannot tell a second receipt for the same child from the first; in changeMultiTxStatus every write of the reporting child's entry (ChildTxInfo[txId]) is therefore preceded by setFSM on the status loaded from that entry - also in the branch that fails the whole group - otherwise a receipt that contradicts an accepted one (FAILURE after SUCCESS for the same child) is accepted and flips a finished child (shared by C02 R02.8 and C05 R05.8)."

// childReceiptThroughFSM: R02.8 / R05.8.
func (c *Ctx) childReceiptThroughFSM(rule string) {
	r := c.R
	fn := c.fn(rule, tmPrefix+"changeMultiTxStatus")
	if fn == nil {
		return
	}
	var txID *ssa.Parameter
	for _, p := range fn.Params {
		if p.Name() == "txId" {
			txID = p
		}
	}
	if txID == nil {
		for _, p := range fn.Params {
			if bt, ok := p.Type().Underlying().(*types.Basic); ok && bt.Kind() == types.String {
				txID = p // the last string parameter: the child id
			}
		}
	}
	if txID == nil {
		r.Unknown(rule, "changeMultiTxStatus: child id parameter", c.P.Pos(fn.Pos()), "no string parameter naming the reporting child")
		return
	}
	isChildMap := func(v ssa.Value) bool {
		_, f, _, ok := core.FieldOf(core.Strip(v))
		return ok && f == "ChildTxInfo"
	}
	isOwnLookup := func(v ssa.Value) bool {
		lk, ok := v.(*ssa.Lookup)
		return ok && isChildMap(lk.X) && core.Strip(lk.Index) == ssa.Value(txID)
	}
	isFSM := func(in ssa.Instruction) bool {
		call, ok := in.(ssa.CallInstruction)
		if !ok || !strings.HasSuffix(core.CalleeName(call), "TransactionManager).setFSM") {
			return false
		}
		args := call.Common().Args
		return len(args) >= 2 && core.Mentions(args[len(args)-2], isOwnLookup)
	}
	rs := core.Reach([]core.Point{core.EntryOf(fn)}, isFSM, nil)
	n := 0
	for _, b := range fn.Blocks {
		for _, in := range b.Instrs {
			mu, ok := in.(*ssa.MapUpdate)
			if !ok || !isChildMap(mu.Map) || core.Strip(mu.Key) != ssa.Value(txID) {
				continue
			}
			n++
			r.Check(!rs.Has(in), rule, fmt.Sprintf("changeMultiTxStatus: write of the reporting child #%d behind its state machine", n), c.P.Pos(in.Pos()), "setFSM(&ChildTxInfo[txId] status, event) precedes the write on every path",
				"the entry of the reporting child is written without its current status having passed the state machine; path (lines): "+rs.Witness(c.P, in)+": a failure receipt for a child that already reported success is accepted while the group is still BEGIN (the index check cannot see the duplicate: the counters move only when the group ends), the finished child flips and the whole group is failed on a replayed / contradicting receipt")
		}
	}
	r.Floor(rule, "writes of the reporting child's entry in changeMultiTxStatus", n, 2)
}

// c02PrevStatus: R02.9.
func (c *Ctx) c02PrevStatus() {
	r := c.R
	m := c.Contracts()
	n := 0
	hasPrevStore := func(a *ssa.Alloc) bool {
		for _, rf := range *a.Referrers() {
			if fa, ok := rf.(*ssa.FieldAddr); ok && fa.X == ssa.Value(a) {
				if _, f, _, ok := core.FieldOf(fa); ok && f == "PrevStatus" {
					for _, rr := range *fa.Referrers() {
						if st, ok := rr.(*ssa.Store); ok && st.Addr == ssa.Value(fa) {
							return true
						}
					}
				}
			}
		}
		return false
	}
	for _, fn := range m.funcs {
		if !strings.Contains(core.FnName(fn), "contracts.TransactionManager).Begin") || fn.Parent() != nil {
			continue
		}
		for _, call := range core.Calls(fn) {
			if !strings.HasSuffix(core.CalleeName(call), "pb.StatusChange).Marshal") || len(call.Common().Args) == 0 {
				continue
			}
			a, ok := call.Common().Args[0].(*ssa.Alloc)
			if !ok {
				continue
			}
			n++
			// instructions that assign PrevStatus of a / that reset a as a whole
			isSet := func(in ssa.Instruction) bool {
				st, ok := in.(*ssa.Store)
				if !ok {
					return false
				}
				if fa, ok := st.Addr.(*ssa.FieldAddr); ok && fa.X == ssa.Value(a) {
					_, f, _, ok := core.FieldOf(fa)
					return ok && f == "PrevStatus"
				}
				if st.Addr == ssa.Value(a) {
					if u, ok := st.Val.(*ssa.UnOp); ok {
						if b, ok := u.X.(*ssa.Alloc); ok {
							return hasPrevStore(b)
						}
					}
					// a value produced elsewhere (a helper's result): assumed complete
					_, isConst := st.Val.(*ssa.Const)
					return !isConst
				}
				return false
			}
			var starts []core.Point
			starts = append(starts, core.After(a))
			for _, b := range fn.Blocks {
				for _, in := range b.Instrs {
					if st, ok := in.(*ssa.Store); ok && st.Addr == ssa.Value(a) && !isSet(in) {
						starts = append(starts, core.After(in))
					}
				}
			}
			rs := core.Reach(starts, isSet, nil)
			key := shortFn(fn) + ": PrevStatus of the marshalled StatusChange assigned on every path"
			if rs.Has(call) {
				r.Bad("R02.9", key, c.P.Pos(call.Pos()), "the StatusChange marshalled at "+c.P.Pos(call.Pos())+" can reach Marshal with PrevStatus never assigned (zero value = BEGIN); path (lines): "+rs.Witness(c.P, call)+": a newly begun transaction is reported as BEGIN -> BEGIN, no notify flag is raised and the accepted request is listed in no delivery set although its index was consumed")
			} else {
				r.OK("R02.9", key, c.P.Pos(call.Pos()), "every path from the creation / reset of the change to Marshal assigns PrevStatus")
			}
		}
	}
	r.Floor("R02.9", "StatusChange values marshalled by Begin* entries", n, 1)
}
