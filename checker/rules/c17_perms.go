package rules

import (
	"fmt"
	"go/token"
	"go/types"
	"sort"
	"strings"

	"bxhlint/core"

	"golang.org/x/tools/go/ssa"
)

// entryPermKinds: the permission kinds a function offers at its checkPermission guards - constant lists at the
// guard itself, or constant lists handed to a helper (basicGovernance) that forwards its parameter to the guard.
func (m *contractsModel) entryPermKinds(fn *ssa.Function) (kinds []string, known bool) {
	set := map[string]bool{}
	known = true
	seen := false
	for _, s := range m.permSites(fn) {
		seen = true
		if !s.permsOK {
			known = false
			continue
		}
		for _, p := range s.perms {
			set[p] = true
		}
	}
	for _, call := range core.Calls(fn) {
		g := core.StaticCallee(call)
		if g == nil || g == fn || len(g.Blocks) == 0 || core.PkgOf(g) != core.PkgOf(fn) {
			continue
		}
		for _, gs := range m.permSites(g) {
			if gs.permsOK {
				continue
			}
			pf := m.perm[core.StaticCallee(gs.call)]
			if pf == nil || pf.regIdx-2 < 0 {
				continue
			}
			arg := core.Strip(gs.call.Call.Args[pf.regIdx-2])
			for pi, gp := range g.Params {
				if ssa.Value(gp) != arg || pi >= len(call.Common().Args) {
					continue
				}
				seen = true
				ps, ok := constStringSlice(call.Common().Args[pi])
				if !ok {
					known = false
					continue
				}
				for _, p := range ps {
					set[p] = true
				}
			}
		}
	}
	if !seen {
		return nil, false
	}
	for k := range set {
		kinds = append(kinds, strings.TrimPrefix(k, "Permission"))
	}
	sort.Strings(kinds)
	return kinds, known
}

// permReference: who may call which entry - the permission kinds each guarded entry offers, confirmed by reading
// the contracts on the repaired tree and frozen here. Self = the object's owner / the admin of the appchain the
// object belongs to (per contract), Admin = an available governance admin, Specific = the listed contracts only.
// A kind that is not in an entry's line widens who may call it and is reported; dropping a kind is not.
var permReference = map[string]string{
	"AppchainManager.ActivateAppchain":                "Admin,Self",
	"AppchainManager.FreezeAppchain":                  "Admin",
	"AppchainManager.LogoutAppchain":                  "Self",
	"AppchainManager.Manage":                          "Specific",
	"AppchainManager.PauseAppchain":                   "Specific",
	"AppchainManager.UnPauseAppchain":                 "Specific",
	"AppchainManager.UpdateAppchain":                  "Self",
	"DappManager.ActivateDapp":                        "Admin,Self",
	"DappManager.ConfirmTransfer":                     "Self",
	"DappManager.FreezeDapp":                          "Admin",
	"DappManager.Manage":                              "Specific",
	"DappManager.TransferDapp":                        "Self",
	"DappManager.UpdateDapp":                          "Self",
	"GovStrategy.Manage":                              "Specific",
	"GovStrategy.UpdateAllProposalStrategy":           "Admin",
	"GovStrategy.UpdateProposalStrategy":              "Admin",
	"GovStrategy.UpdateProposalStrategyByRolesChange": "Specific",
	"Governance.EndObjProposal":                       "Specific",
	"Governance.LockLowPriorityProposal":              "Specific",
	"Governance.SubmitProposal":                       "Specific",
	"Governance.UnLockLowPriorityProposal":            "Specific",
	"Governance.UpdateAvailableElectorateNum":         "Specific",
	"Governance.WithdrawProposal":                     "Self",
	"Governance.ZeroPermission":                       "Specific",
	"InterBroker.InvokeInterchain":                    "Specific",
	"InterBroker.InvokeReceipt":                       "Specific",
	"InterchainManager.DeleteInterchain":              "Specific",
	"NodeManager.BindNode":                            "Specific",
	"NodeManager.LogoutNode":                          "Admin",
	"NodeManager.Manage":                              "Specific",
	"NodeManager.ManageBindNode":                      "Specific",
	"NodeManager.RegisterNode":                        "Admin",
	"NodeManager.UnbindNode":                          "Specific",
	"NodeManager.UpdateNode":                          "Admin,Self",
	"RoleManager.ActivateRole":                        "Admin,Self",
	"RoleManager.BindRole":                            "Admin",
	"RoleManager.FreeAccount":                         "Specific",
	"RoleManager.FreezeRole":                          "Admin",
	"RoleManager.LogoutRole":                          "Admin,Self",
	"RoleManager.Manage":                              "Specific",
	"RoleManager.OccupyAccount":                       "Specific",
	"RoleManager.PauseAuditAdmin":                     "Specific",
	"RoleManager.PauseAuditAdminBinding":              "Specific",
	"RoleManager.RegisterRole":                        "Admin",
	"RoleManager.RestoreAuditAdminBinding":            "Specific",
	"RoleManager.UpdateAppchainAdmin":                 "Specific",
	"RuleManager.ClearRule":                           "Specific",
	"RuleManager.LogoutRule":                          "Self",
	"RuleManager.Manage":                              "Specific",
	"RuleManager.RegisterRule":                        "Self",
	"RuleManager.RegisterRuleFirst":                   "Specific",
	"RuleManager.UpdateMasterRule":                    "Self",
	"ServiceManager.ActivateService":                  "Admin,Self",
	"ServiceManager.FreezeService":                    "Admin",
	"ServiceManager.LogoutService":                    "Self",
	"ServiceManager.Manage":                           "Specific",
	"ServiceManager.RecordInvokeService":              "Specific",
	"ServiceManager.RegisterService":                  "Self",
	"ServiceManager.UnPauseChainService":              "Specific",
	"ServiceManager.UpdateService":                    "Self",
	"ServiceRegistry.Manage":                          "Specific",
}

// c17PermTable: R17.9.
func (c *Ctx) c17PermTable() {
	r := c.R
	m := c.Contracts()
	n := 0
	for _, ct := range m.bvm.Contracts {
		for _, e := range ct.Entries {
			if !e.Own || e.Fn == nil {
				continue
			}
			kinds, known := m.entryPermKinds(e.Fn)
			if kinds == nil && !known {
				continue // no checkPermission guard in this entry (guarded otherwise: R17.2)
			}
			ref, listed := permReference[e.Key()]
			if !listed {
				continue // a new entry: R17.2 demands a guard, the table has no opinion yet
			}
			n++
			allowed := map[string]bool{}
			for _, k := range strings.Split(ref, ",") {
				allowed[k] = true
			}
			var extra []string
			for _, k := range kinds {
				if !allowed[k] {
					extra = append(extra, k)
				}
			}
			switch {
			case !known:
				r.Unknown("R17.9", e.Key()+": permission kinds within the reference", c.P.Pos(e.Fn.Pos()), "a permission list of this entry does not evaluate to constants")
			case len(extra) > 0:
				r.Bad("R17.9", e.Key()+": permission kinds within the reference", c.P.Pos(e.Fn.Pos()), "the entry now also admits "+strings.Join(extra, ",")+" (reference: "+ref+"): callers that were rejected before are let in")
			default:
				r.OK("R17.9", e.Key()+": permission kinds within the reference", c.P.Pos(e.Fn.Pos()), "offers {"+strings.Join(kinds, ",")+"} within {"+ref+"}")
			}
		}
	}
	r.Floor("R17.9", "entries with a permission list in the reference table", n, 30)
}

// DumpPerms prints the table source (used once to freeze the reference).
func DumpPerms(c *Ctx) []string {
	m := c.Contracts()
	var out []string
	for _, ct := range m.bvm.Contracts {
		for _, e := range ct.Entries {
			if !e.Own || e.Fn == nil {
				continue
			}
			kinds, known := m.entryPermKinds(e.Fn)
			if kinds == nil {
				continue
			}
			k := strings.Join(kinds, ",")
			if !known {
				k += " /*unknown*/"
			}
			out = append(out, "\t\""+e.Key()+"\": \""+k+"\",")
		}
	}
	sort.Strings(out)
	return out
}

// ownerField: governed record types that belong to another identity, and the field naming it.
var ownerField = map[string]string{"Service": "ChainID", "Dapp": "OwnerAddr"}

// c17OwnerFromRecord: R17.10.
func (c *Ctx) c17OwnerFromRecord() {
	r := c.R
	m := c.Contracts()
	n := 0
	for _, fn := range c.P.ModuleFuncs(true) {
		if core.PkgOf(fn) != "internal/executor/contracts" || len(fn.Blocks) == 0 {
			continue
		}
		sites := m.permSites(fn)
		if len(sites) == 0 {
			continue
		}
		// records of an owned type that this function loaded: results of calls / type assertions (not literals)
		type rec struct {
			v     ssa.Value
			tn, f string
		}
		var recs []rec
		for _, b := range fn.Blocks {
			for _, in := range b.Instrs {
				v, ok := in.(ssa.Value)
				if !ok {
					continue
				}
				switch in.(type) {
				case *ssa.TypeAssert, *ssa.Call, *ssa.Extract:
				default:
					continue
				}
				pt, ok := v.Type().(*types.Pointer)
				if !ok {
					continue
				}
				nt, ok := pt.Elem().(*types.Named)
				if !ok {
					continue
				}
				if f, ok := ownerField[nt.Obj().Name()]; ok {
					recs = append(recs, rec{v, nt.Obj().Name(), f})
				}
			}
		}
		if len(recs) == 0 {
			continue
		}
		for i, s := range sites {
			if s.permsOK {
				onlySpecific := true
				for _, p := range s.perms {
					if p != "PermissionSpecific" {
						onlySpecific = false
					}
				}
				if onlySpecific {
					continue
				}
			}
			pf := m.perm[core.StaticCallee(s.call)]
			if pf == nil || pf.regIdx-1 < 0 {
				continue
			}
			id := s.call.Call.Args[pf.regIdx-1]
			// the check has to come after the load to be about the loaded record
			var loaded *rec
			for k := range recs {
				if in, ok := recs[k].v.(ssa.Instruction); ok && in.Block().Dominates(s.call.Block()) {
					loaded = &recs[k]
				}
			}
			if loaded == nil {
				continue
			}
			n++
			fromOwner := core.Mentions(id, func(v ssa.Value) bool {
				o, f, _, ok := core.FieldOf(v)
				return ok && f == loaded.f && strings.HasSuffix(o, loaded.tn)
			})
			key := fmt.Sprintf("%s: permission checked against the recorded owner #%d", shortFn(fn), i)
			r.Check(fromOwner, "R17.10", key, c.P.Pos(s.call.Pos()), "the identity is "+loaded.tn+"."+loaded.f+" of the loaded record",
				"the function has loaded the "+loaded.tn+" but checks the caller against an identity that is not the record's "+loaded.f+" (derived from the caller-supplied id instead): for an id whose parsed part names another registered object, that object's admin passes the check and governs something it does not own, while the genuine owner is refused")
		}
	}
	r.Floor("R17.10", "Self/Admin permission checks on a loaded, owned record", n, 2)
}

// c17ReverseIndex: R17.11.
func (c *Ctx) c17ReverseIndex() {
	r := c.R
	stubCall := func(call ssa.CallInstruction, name string) bool {
		o := core.CalleeObj(call)
		return o != nil && o.Name() == name && call.Common().IsInvoke()
	}
	// keyCtor: the static function that built a key argument, and its arguments
	keyCtor := func(v ssa.Value) (*ssa.Function, []ssa.Value) {
		cl, ok := core.Strip(v).(*ssa.Call)
		if !ok {
			return nil, nil
		}
		g := core.StaticCallee(cl)
		if g == nil || g.Signature.Results().Len() != 1 {
			return nil, nil
		}
		return g, cl.Call.Args
	}
	elemOfRangeOver := func(v ssa.Value, slice func(ssa.Value) bool) bool {
		return core.Mentions(v, func(w ssa.Value) bool {
			// element of a slice range: load of IndexAddr(slice, i)
			if u, ok := w.(*ssa.UnOp); ok && u.Op == token.MUL {
				if ia, ok := u.X.(*ssa.IndexAddr); ok && slice(ia.X) {
					return true
				}
			}
			return false
		})
	}
	n := 0
	for _, fn := range c.P.ModuleFuncs(true) {
		if core.PkgOf(fn) != "internal/executor/contracts" || len(fn.Blocks) == 0 {
			continue
		}
		// (i) list stores: SetObject(ListKey(..), <slice parameter>)
		for _, call := range core.Calls(fn) {
			if !stubCall(call, "SetObject") || len(call.Common().Args) != 2 {
				continue
			}
			listCtor, listArgs := keyCtor(call.Common().Args[0])
			lp, isParam := core.Strip(call.Common().Args[1]).(*ssa.Parameter)
			if listCtor == nil || !isParam {
				continue
			}
			if _, isSlice := lp.Type().Underlying().(*types.Slice); !isSlice {
				continue
			}
			isNewList := func(v ssa.Value) bool { return core.Strip(v) == ssa.Value(lp) }
			// (ii) reverse entries written for the elements of the new list
			var entryCtor *ssa.Function
			for _, c2 := range core.Calls(fn) {
				if !stubCall(c2, "SetObject") || len(c2.Common().Args) != 2 || !core.InLoop(c2) {
					continue
				}
				g, args := keyCtor(c2.Common().Args[0])
				if g == nil || g == listCtor {
					continue
				}
				for _, a := range args {
					if elemOfRangeOver(a, isNewList) {
						entryCtor = g
					}
				}
			}
			if entryCtor == nil {
				continue
			}
			n++
			key := shortFn(fn) + ": " + entryCtor.Name() + " entries of the replaced " + listCtor.Name() + " list are deleted"
			// loads of the old list: GetObject(ListKey(same args), ..) here or in a helper that receives the owner
			isOldLoad := func(in ssa.Instruction) bool {
				cc, ok := in.(ssa.CallInstruction)
				if !ok {
					return false
				}
				sameOwner := func(args []ssa.Value, in *ssa.Function, actual []ssa.Value) bool {
					// the key is built by the list constructor from the owner (compared positionally with the store's key)
					if len(args) != len(listArgs) {
						return false
					}
					for i := range args {
						a := args[i]
						if in != fn {
							// inside a helper: a parameter of the helper stands for the caller's argument
							if p, ok := core.Strip(a).(*ssa.Parameter); ok {
								if k := paramIndex(in, p); k >= 0 && k < len(actual) {
									a = actual[k]
								}
							}
						}
						if !sameExpr(a, listArgs[i], 0) {
							return false
						}
					}
					return true
				}
				if stubCall(cc, "GetObject") && len(cc.Common().Args) >= 1 {
					g, args := keyCtor(cc.Common().Args[0])
					return g == listCtor && sameOwner(args, fn, nil)
				}
				if h := core.StaticCallee(cc); h != nil && c.P.InModule(h) && len(h.Blocks) > 0 {
					for _, hc := range core.Calls(h) {
						if stubCall(hc, "GetObject") && len(hc.Common().Args) >= 1 {
							g, args := keyCtor(hc.Common().Args[0])
							if g == listCtor && sameOwner(args, h, cc.Common().Args) {
								return true
							}
						}
					}
				}
				return false
			}
			loads := sites(fn, isOldLoad)
			hasDelete := false
			for _, c2 := range core.Calls(fn) {
				if !stubCall(c2, "Delete") || len(c2.Common().Args) != 1 || !core.InLoop(c2) {
					continue
				}
				if g, _ := keyCtor(c2.Common().Args[0]); g == entryCtor {
					hasDelete = true
				}
			}
			staleRead := false
			rs := core.Reach([]core.Point{core.After(call)}, nil, nil)
			for _, l := range loads {
				if rs.Has(l) && !core.InLoop(call) {
					staleRead = true
				}
			}
			switch {
			case len(loads) == 0 || !hasDelete:
				r.Bad("R17.11", key, c.P.Pos(call.Pos()), "the list stored under "+listCtor.Name()+" is replaced and a "+entryCtor.Name()+" entry is written for every id of the new list, but the entries of the ids of the old list are never deleted (no load of the stored list / no Delete("+entryCtor.Name()+"(..)) in a loop): an id dropped from the list keeps its entry - a replaced appchain admin still passes the PermissionSelf check, which reads exactly this entry")
			case staleRead:
				r.Bad("R17.11", key, c.P.Pos(call.Pos()), "the stored list is read after it was overwritten with the new one: the entries that are deleted are those of the new list, not of the replaced ids")
			default:
				r.OK("R17.11", key, c.P.Pos(call.Pos()), "the old list is loaded before it is overwritten and its "+entryCtor.Name()+" entries are deleted in a loop")
			}
		}
	}
	r.Floor("R17.11", "list + reverse-entry writers", n, 1)
}
