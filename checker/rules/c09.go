package rules

import (
	"fmt"
	"go/token"
	"go/types"
	"sort"
	"strings"

	"bxhlint/core"

	"golang.org/x/tools/go/ssa"
)

func init() { Props["C09"] = C09 }

const chainPrefix = "internal/ledger.(*ChainLedgerImpl)."

// keyPrefixOf: v is compositeKey(<const prefix>, ..) or []byte(<const>): the prefix constant.
func keyPrefixOf(v ssa.Value) (string, bool) {
	v = core.Strip(v)
	if c, ok := v.(*ssa.Call); ok && strings.HasSuffix(core.CalleeName(c), "ledger.compositeKey") {
		if s, ok := core.ConstString(c.Call.Args[0]); ok {
			return s, true
		}
		return "", false
	}
	if cv, ok := v.(*ssa.Convert); ok {
		if s, ok := core.ConstString(cv.X); ok {
			return s, true
		}
	}
	return "", false
}

// hashedFields: the fields of T that method (*T).Hash copies into the hashed message.
func hashedFields(c *Ctx, spec string) map[string]bool {
	fn := c.P.Fn(spec)
	out := map[string]bool{}
	if fn == nil {
		return out
	}
	recv := fn.Params[0]
	for _, b := range fn.Blocks {
		for _, in := range b.Instrs {
			if fa, ok := in.(*ssa.FieldAddr); ok && core.Strip(fa.X) == ssa.Value(recv) {
				_, f, _, _ := core.FieldOf(fa)
				out[f] = true
			}
		}
	}
	return out
}

// C09: stored chain is hash-linked and every index agrees with the executed blocks.
func C09(c *Ctx) {
	r := c.R
	r.Rule("R09.1", "index key tables agree: every key prefix put into the chain-index batch while persisting a block (PersistExecutionResult and callees) is deleted for each rolled-back height by RollbackBlockChain and callees (chain-meta is rewritten instead); every prefix read by the chain ledger is written.")
	r.Rule("R09.2", "hash last: in processExecuteEvent (and genesis) every store to a header field that BlockHeader.Hash covers (field set read from the pinned bitxhub-model source) is sequenced before block.BlockHash = block.Hash(); BlockHash is assigned from Hash() of the same block.")
	r.Rule("R09.3", "parent link: ParentHash is assigned from the executor's currentBlockHash, which is assigned only from the just-persisted block's BlockHash (after PersistBlockData), from the ledger's chain meta at construction, and in rollbackBlocks.")
	r.Rule("R09.4", "roots over what is stored: the transaction root is computed from the block's own transaction slice and the receipt root from the very receipt slice that is stored with the block; no receipt field covered by Receipt.Hash is stored to after the receipt root was computed.")
	r.Rule("R09.7", "indexes and head move together: every index entry of a block (tx meta, block hash / height / tx set) and the chain meta are written through the one batch that PersistExecutionResult / RollbackBlockChain commit; no function on that path writes to the chain store directly.")
	c.chainBatchDiscipline("R09.7")
	if rm := c.fn("R09.8", chainPrefix+"removeChainDataOnBlock"); rm != nil && len(rm.Params) >= 3 {
		h := rm.Params[2]
		var fromLoadedParam func(v ssa.Value) bool
		fromHeight := func(v ssa.Value) bool {
			return core.Mentions(v, func(w ssa.Value) bool {
				if w == ssa.Value(h) {
					return true
				}
				// loaded under that height
				if cc, ok := w.(*ssa.Call); ok && len(cc.Call.Args) > 0 {
					for _, a := range cc.Call.Args {
						if core.Strip(a) == ssa.Value(h) {
							return true
						}
					}
				}
				return false
			}) || fromLoadedParam(v)
		}
		// a parameter of removeChainDataOnBlock other than the height (the block, loaded by the caller): at every call
		// site the argument is loaded under the very height that is passed as the height argument
		fromLoadedParam = func(v ssa.Value) bool {
			hIdx := -1
			for i, q := range rm.Params {
				if q == h {
					hIdx = i
				}
			}
			ss := core.StaticSitesOf(rm)
			if hIdx < 0 || len(ss) == 0 {
				return false
			}
			for pi, q := range rm.Params {
				if pi == 0 || q == h || strings.HasSuffix(q.Type().String(), "storage.Batch") {
					continue
				}
				qq := q
				if !core.Mentions(v, func(w ssa.Value) bool { return w == ssa.Value(qq) }) {
					continue
				}
				all := true
				for _, site := range ss {
					args := site.Common().Args
					if pi >= len(args) || hIdx >= len(args) {
						all = false
						break
					}
					argH := core.Strip(args[hIdx])
					if !core.Mentions(args[pi], func(w ssa.Value) bool {
						cc, ok := w.(*ssa.Call)
						if !ok {
							return false
						}
						for _, a := range cc.Call.Args {
							if core.Strip(a) == argH {
								return true
							}
						}
						return false
					}) {
						all = false
					}
				}
				if all {
					return true
				}
			}
			return false
		}
		fromHead := func(v ssa.Value) bool {
			return core.Mentions(v, func(w ssa.Value) bool {
				if cc, ok := w.(*ssa.Call); ok && core.CalleeObj(cc) != nil && core.CalleeObj(cc).Name() == "GetChainMeta" {
					return true
				}
				_, f, _, ok := core.FieldOf(w)
				return ok && f == "chainMeta"
			})
		}
		nd := 0
		for _, call := range core.Calls(rm) {
			o := core.CalleeObj(call)
			if o == nil || o.Name() != "Delete" || !strings.Contains(core.CalleeName(call), "storage.") || len(call.Common().Args) == 0 {
				continue
			}
			nd++
			key := call.Common().Args[len(call.Common().Args)-1]
			r.Check(fromHeight(key) && !fromHead(key), "R09.8", fmt.Sprintf("removeChainDataOnBlock: delete #%d is keyed by the removed block", nd), c.P.Pos(call.Pos()), "key built from the height / the block loaded under it",
				"an index entry is deleted under a key taken from the chain meta (the head) or from something other than the block being removed: when more than one block is rolled back the entries of the lower blocks stay in the index (a block hash keeps resolving to a height that no longer exists)")
		}
		// deletes moved into a helper of the chain ledger that receives the height / the block (deleteBlockIndex)
		for _, hc := range core.Calls(rm) {
			g := core.StaticCallee(hc)
			if g == nil || g == rm || len(g.Blocks) == 0 || core.PkgOf(g) != core.PkgOf(rm) {
				continue
			}
			for _, call := range core.Calls(g) {
				o := core.CalleeObj(call)
				if o == nil || o.Name() != "Delete" || !strings.Contains(core.CalleeName(call), "storage.") || len(call.Common().Args) == 0 {
					continue
				}
				nd++
				key := call.Common().Args[len(call.Common().Args)-1]
				okKey, badKey := fromHeight(key), fromHead(key) // directly: through the fields of a context struct rm fills
				for pi, gp := range g.Params {
					pp := gp
					if pi >= len(hc.Common().Args) || !core.Mentions(key, func(w ssa.Value) bool {
						if w == ssa.Value(pp) {
							return true
						}
						if cc, ok := w.(*ssa.Call); ok {
							for _, a := range cc.Call.Args {
								if core.Strip(a) == ssa.Value(pp) {
									return true
								}
							}
						}
						return false
					}) {
						continue
					}
					arg := hc.Common().Args[pi]
					if strings.HasSuffix(arg.Type().String(), "storage.Batch") || pi == 0 && g.Signature.Recv() != nil {
						continue
					}
					if fromHeight(arg) {
						okKey = true
					}
					if fromHead(arg) {
						badKey = true
					}
				}
				r.Check(okKey && !badKey, "R09.8", fmt.Sprintf("removeChainDataOnBlock: delete #%d is keyed by the removed block", nd), c.P.Pos(call.Pos()), "key built from the height / the block that "+g.Name()+" receives from removeChainDataOnBlock",
					"an index entry is deleted under a key taken from the chain meta (the head) or from something other than the block being removed: when more than one block is rolled back the entries of the lower blocks stay in the index (a block hash keeps resolving to a height that no longer exists)")
			}
		}
		r.Floor("R09.8", "deletes in removeChainDataOnBlock", nd, 4)
	}
	r.Rule("R09.6", "no stale chain meta: a value read from the old chain meta (height, hash, interchain count) that is stored into the chain meta a function persists / installs (persistChainMeta, UpdateChainMeta) is read after the last update of that field on the path - a copy taken before the removal loop of a rollback misses the loop's subtractions.")
	r.Rule("R09.5", "interchain count: persisting and rolling back adjust InterchainTxCount by the same function of InterchainMeta.Counter: the sum of len(Slice), every addition into the running count being executed for every element (an increment behind a test of the element counts a subset, and the two sides drift apart).")
	r.Rule("R09.8", "a removed block takes its own index entries with it: every key that removeChainDataOnBlock deletes is built from the height it was asked to remove or from the block / interchain meta it loaded under that height - never from the chain meta (the head), whose hash belongs to another block as soon as more than one block is rolled back.")
	r.Rule("R09.10", "an index value is read the way it was written: where the chain ledger stores the text form of a hash under a key prefix ([]byte(h.String())), every reader of that prefix decodes the text (types.NewHashByStr(string(data))) and none takes the bytes as the raw hash (types.NewHash keeps the last 32 bytes of whatever it gets); where it stores the raw bytes, no reader parses text. A reader of the other kind answers every lookup with a wrong, well-formed hash: the BLOCKHASH opcode and GetBlockHash return the ASCII of the last 32 hex digits.")
	c.c09ValueCodec()
	r.Rule("R09.9", "the interchain count counts each request once (shared with C02 R02.7): "+perBlockResetText)
	c.perBlockReset("R09.9")
	r.NotDecided = append(r.NotDecided, "blockfile internals (pinned dependency); value-level equality of stored and recomputed roots")

	cha := core.NewCHA(c.P)
	persist := c.fn("R09.1", chainPrefix+"PersistExecutionResult")
	rollback := c.fn("R09.1", chainPrefix+"RollbackBlockChain")
	if persist != nil && rollback != nil {
		inLedger := func(f *ssa.Function) bool { return core.PkgOf(f) != ledgerPkg }
		collect := func(root *ssa.Function, method string) map[string]string {
			out := map[string]string{}
			for f := range cha.ReachableFrom([]*ssa.Function{root}, inLedger) {
				for _, call := range core.Calls(f) {
					o := core.CalleeObj(call)
					if o == nil || o.Name() != method || !strings.Contains(core.CalleeName(call), "storage.") {
						continue
					}
					if p, ok := keyPrefixOf(core.Arg(call, 0)); ok {
						out[p] = c.P.Pos(call.Pos())
					} else {
						r.Unknown("R09.1", shortFn(f)+": "+method+" with non-constant key prefix", c.P.Pos(call.Pos()), "key of a chain-index "+method+" is not compositeKey(<const>, ..)")
					}
				}
			}
			return out
		}
		written := collect(persist, "Put")
		deleted := collect(rollback, "Delete")
		rewritten := collect(rollback, "Put")
		read := map[string]string{}
		for _, fn := range c.P.ModuleFuncs(true) {
			if core.PkgOf(fn) != ledgerPkg || fn.Signature.Recv() == nil || !strings.Contains(fn.Signature.Recv().Type().String(), "ChainLedgerImpl") {
				continue
			}
			for _, call := range core.Calls(fn) {
				o := core.CalleeObj(call)
				if o == nil || (o.Name() != "Get" && o.Name() != "Has") || !strings.Contains(core.CalleeName(call), "storage.") {
					continue
				}
				if p, ok := keyPrefixOf(core.Arg(call, 0)); ok {
					read[p] = c.P.Pos(call.Pos())
				}
			}
		}
		r.Floor("R09.1", "key prefixes written per block", len(written), 5)
		var ws []string
		for p := range written {
			ws = append(ws, p)
		}
		sort.Strings(ws)
		for _, p := range ws {
			_, del := deleted[p]
			_, rew := rewritten[p]
			r.Check(del || rew, "R09.1", "prefix "+p+" removed on rollback", written[p], "deleted (or rewritten) by RollbackBlockChain",
				"keys with prefix "+p+" are written for every block but not deleted when the block is rolled back: lookups keep answering for heights above the rollback target")
		}
		var rs []string
		for p := range read {
			rs = append(rs, p)
		}
		sort.Strings(rs)
		for _, p := range rs {
			_, ok := written[p]
			r.Check(ok, "R09.1", "prefix "+p+" read is written", read[p], "written by PersistExecutionResult", "the chain ledger reads keys with prefix "+p+" that no persist path writes")
		}
		for p, pos := range deleted {
			if _, ok := written[p]; !ok {
				r.Note("R09.1", "prefix "+p+" deleted but never written", pos, "dead delete")
			}
		}
	}

	// R09.2
	hdrFields := hashedFields(c, "github.com/meshplus/bitxhub-model/pb.(*BlockHeader).Hash")
	r.Floor("R09.2", "header fields covered by BlockHeader.Hash", len(hdrFields), 5)
	for _, spec := range []string{execPrefix + "processExecuteEvent", "internal/ledger/genesis.Initialize"} {
		fn := c.fn("R09.2", spec)
		if fn == nil {
			continue
		}
		isHashAssign := func(in ssa.Instruction) bool {
			st, ok := in.(*ssa.Store)
			if !ok {
				return false
			}
			_, f, _, ok2 := core.FieldOf(st.Addr)
			return ok2 && f == "BlockHash" && core.Mentions(st.Val, func(v ssa.Value) bool {
				cc, ok := v.(*ssa.Call)
				return ok && core.CalleeObj(cc) != nil && core.CalleeObj(cc).Name() == "Hash" && strings.Contains(core.CalleeName(cc), "pb.Block")
			})
		}
		hs := sites(fn, isHashAssign)
		if len(hs) == 0 {
			// genesis may build the block with a literal; only processExecuteEvent is mandatory
			if strings.HasSuffix(spec, "processExecuteEvent") {
				r.Bad("R09.2", shortFnName(spec)+": BlockHash = Hash()", c.P.Pos(fn.Pos()), "the block hash is not assigned from block.Hash()")
			}
			continue
		}
		for _, h := range hs {
			after := core.Reach([]core.Point{core.After(h)}, nil, nil)
			late := ""
			for _, b := range fn.Blocks {
				for _, in := range b.Instrs {
					st, ok := in.(*ssa.Store)
					if !ok || !after.Has(in) {
						continue
					}
					o, f, _, ok2 := core.FieldOf(st.Addr)
					if ok2 && strings.HasSuffix(o, "pb.BlockHeader") && hdrFields[f] {
						late = f + " at " + c.P.Pos(in.Pos())
					}
				}
			}
			r.Check(late == "", "R09.2", shortFnName(spec)+": header complete before hashing", c.P.Pos(h.Pos()), "no hashed header field is assigned after BlockHash = Hash()",
				"header field "+late+" is assigned after the block hash was computed: the stored hash is not the hash of the stored header")
			// same block
			st := h.(*ssa.Store)
			_, _, base, _ := core.FieldOf(st.Addr)
			same := core.Mentions(st.Val, func(v ssa.Value) bool {
				cc, ok := v.(*ssa.Call)
				return ok && len(cc.Call.Args) > 0 && sameValue(cc.Call.Args[0], base)
			})
			r.Check(same, "R09.2", shortFnName(spec)+": hash of the same block", c.P.Pos(h.Pos()), "block.BlockHash = block.Hash()", "BlockHash is assigned from the hash of a different block value")
		}
		// all hashed fields set in processExecuteEvent except those given by the order layer
		if strings.HasSuffix(spec, "processExecuteEvent") {
			for _, f := range []string{"ParentHash", "StateRoot", "TxRoot", "ReceiptRoot"} {
				ss := sites(fn, storesToField("BlockHeader", f))
				r.Check(len(ss) > 0 && precedesAll(fn, func(in ssa.Instruction) bool { return in == ss[0] }, isHashAssign), "R09.2", "processExecuteEvent: "+f+" set before hashing", c.P.Pos(fn.Pos()),
					f+" is assigned on every path before the hash", "header field "+f+" is not assigned before the block hash is computed")
			}
		}
	}

	// R09.3
	if pe := c.P.Fn(execPrefix + "processExecuteEvent"); pe != nil {
		for _, in := range sites(pe, storesToField("BlockHeader", "ParentHash")) {
			st := in.(*ssa.Store)
			_, f, _, ok := core.FieldOf(st.Val)
			r.Check(ok && f == "currentBlockHash", "R09.3", "processExecuteEvent: ParentHash source", c.P.Pos(in.Pos()), "ParentHash = exec.currentBlockHash", "the parent hash is not taken from the executor's last block hash")
			// the value is read where it is current: no call that re-points the head (rollbackBlocks) lies between the
			// load of exec.currentBlockHash and the store into the header
			load, isLoad := core.Strip(st.Val).(*ssa.UnOp)
			if !ok || f != "currentBlockHash" || !isLoad {
				continue
			}
			writes := map[*ssa.Function]bool{}
			for changed := true; changed; {
				changed = false
				for _, g := range c.P.ModuleFuncs(true) {
					if core.PkgOf(g) != "internal/executor" || writes[g] || len(g.Blocks) == 0 {
						continue
					}
					w := len(sites(g, storesToField("BlockExecutor", "currentBlockHash"))) > 0
					for _, call := range core.Calls(g) {
						if h := core.StaticCallee(call); h != nil && writes[h] {
							w = true
						}
					}
					if w {
						writes[g], changed = true, true
					}
				}
			}
			stale := ""
			fromLoad := core.Reach([]core.Point{core.After(load)}, nil, nil)
			for _, call := range core.Calls(pe) {
				h := core.StaticCallee(call)
				if h == nil || !writes[h] || !fromLoad.Has(call) {
					continue
				}
				if core.Reach([]core.Point{core.After(call)}, nil, nil).Has(in) {
					stale = shortFn(h) + " (" + c.P.Pos(call.Pos()) + ")"
				}
			}
			r.Check(stale == "", "R09.3", "processExecuteEvent: ParentHash read after the head was re-pointed", c.P.Pos(load.Pos()), "no writer of currentBlockHash is called between the read and the store into the header",
				"exec.currentBlockHash is read at "+c.P.Pos(load.Pos())+", then "+stale+" may re-point the head (rollback of already executed blocks), and the stale value is stored as ParentHash: the re-executed block is linked to the discarded head instead of the block below it")
		}
		n := 0
		for _, fn := range c.P.ModuleFuncs(true) {
			if core.PkgOf(fn) != "internal/executor" {
				continue
			}
			for _, in := range sites(fn, storesToField("BlockExecutor", "currentBlockHash")) {
				n++
				st := in.(*ssa.Store)
				_, f, _, ok := core.FieldOf(st.Val)
				key := shortFn(fn) + ": currentBlockHash assignment"
				switch {
				case fn == pe:
					okAfter := ok && f == "BlockHash" && precedesAll(fn, callToMethod("PersistBlockData"), func(x ssa.Instruction) bool { return x == in })
					r.Check(okAfter, "R09.3", key, c.P.Pos(in.Pos()), "= block.BlockHash, after PersistBlockData", "currentBlockHash is advanced before the block is persisted or not from the block's hash")
				case fn.Name() == "rollbackBlocks":
					r.Check(ok && f == "BlockHash", "R09.3", key, c.P.Pos(in.Pos()), "= hash of the block rolled back to", "after a rollback the parent link is not the hash of the retained head")
				default:
					r.Check(ok && f == "BlockHash" || fn.Name() == "New", "R09.3", key, c.P.Pos(in.Pos()), "constructor: from chain meta", "unexpected writer of currentBlockHash")
				}
			}
		}
		r.Floor("R09.3", "currentBlockHash writers", n, 2)
		// after a rollback the new head (source of currentHeight/currentBlockHash) is the block at the rollback target
		if rbk := c.P.Fn(execPrefix + "rollbackBlocks"); rbk != nil {
			var target string
			for _, call := range core.Calls(rbk) {
				if o := core.CalleeObj(call); o != nil && o.Name() == "Rollback" {
					target = heightExpr(rbk, core.Arg(call, 0), 0)
				}
			}
			nHead := 0
			for _, in := range sites(rbk, storesToField("BlockExecutor", "currentBlockHash")) {
				st := in.(*ssa.Store)
				_, _, blk, ok := core.FieldOf(st.Val)
				if !ok {
					continue
				}
				nHead++
				head := ""
				for _, v := range varValues(rbk, blk) {
					if cl, idx := core.CallOf(v); cl != nil && idx == 0 && core.CalleeObj(cl) != nil && core.CalleeObj(cl).Name() == "GetBlock" {
						head = heightExpr(rbk, core.Arg(cl, 0), 0)
					}
				}
				r.Check(target != "" && head == target, "R09.3", "rollbackBlocks: new head is the block at the rollback target", c.P.Pos(in.Pos()), "head = GetBlock("+head+"), ledger.Rollback("+target+")",
					"after the ledger is rolled back to height "+target+" the executor continues from the block at height "+head+": the parent hash of the re-executed block is not the hash of the retained head")
			}
			r.Floor("R09.3", "head assignments in rollbackBlocks", nHead, 1)
		}

		// R09.4
		var txArg, applyArg, rcptVal ssa.Value
		var rcptCall ssa.Instruction
		for _, call := range core.Calls(pe) {
			n := core.CalleeName(call)
			switch {
			case strings.HasSuffix(n, ".buildTxMerkleTree"):
				txArg = call.Common().Args[1]
			case strings.HasSuffix(n, ".calcReceiptMerkleRoot"):
				rcptVal = call.Common().Args[1]
				rcptCall = call
			}
			if o := core.CalleeObj(call); o != nil && o.Name() == "ApplyTransactions" {
				applyArg = core.Arg(call, 0)
			}
		}
		okTx := txArg != nil && applyArg != nil && sameValue(txArg, applyArg)
		r.Check(okTx, "R09.4", "processExecuteEvent: tx root over the executed transactions", c.P.Pos(pe.Pos()), "buildTxMerkleTree(block.Transactions.Transactions) - same slice as applied", "the transaction root is not computed over the block's executed transaction slice")
		okR := false
		if rcptVal != nil {
			for _, in := range sites(pe, storesToField("BlockData", "Receipts")) {
				if core.Strip(in.(*ssa.Store).Val) == core.Strip(rcptVal) {
					okR = true
				}
			}
			if cl, _ := core.CallOf(rcptVal); cl == nil || core.CalleeObj(cl) == nil || core.CalleeObj(cl).Name() != "ApplyTransactions" {
				okR = false
			}
		}
		r.Check(okR, "R09.4", "processExecuteEvent: receipt root over the stored receipts", c.P.Pos(pe.Pos()), "calcReceiptMerkleRoot(receipts) with receipts = ApplyTransactions(..) = BlockData.Receipts", "the receipt root is computed over a different receipt slice than the one stored with the block")
		if rcptCall != nil {
			rf := hashedFields(c, "github.com/meshplus/bitxhub-model/pb.(*Receipt).Hash")
			after := core.Reach([]core.Point{core.After(rcptCall)}, nil, nil)
			late := ""
			for in := range after.Instr {
				if st, ok := in.(*ssa.Store); ok {
					if o, f, _, ok2 := core.FieldOf(st.Addr); ok2 && strings.HasSuffix(o, "pb.Receipt") && rf[f] {
						late = f + " at " + c.P.Pos(in.Pos())
					}
				}
			}
			r.Check(late == "" && len(rf) >= 4, "R09.4", "processExecuteEvent: receipts frozen after the root", c.P.Pos(rcptCall.Pos()), fmt.Sprintf("no store to %d hashed receipt fields after calcReceiptMerkleRoot", len(rf)), "receipt field "+late+" changes after the receipt root was computed")
		}
	}

	// R09.5
	if persist != nil {
		gic := c.P.Fn("internal/ledger.getInterchainTxCount")
		shape := func(fn *ssa.Function) bool {
			if fn == nil {
				return false
			}
			// delegating to the function the rollback uses is trivially 'the same way'
			if gic != nil && fn != gic {
				for _, call := range core.Calls(fn) {
					if core.StaticCallee(call) == gic {
						return true
					}
				}
			}
			hasCounter, hasLen := false, false
			for _, b := range fn.Blocks {
				for _, in := range b.Instrs {
					if v, ok := in.(ssa.Value); ok {
						if _, f, _, ok2 := core.FieldOf(v); ok2 && f == "Counter" {
							hasCounter = true
						}
					}
					if call, ok := in.(*ssa.Call); ok {
						if bn, ok := call.Call.Value.(*ssa.Builtin); ok && bn.Name() == "len" && core.Mentions(call.Call.Args[0], fieldLoad("VerifiedIndexSlice", "Slice")) {
							hasLen = true
						}
					}
				}
			}
			if !(hasCounter && hasLen) {
				return false
			}
			// every index counts: each addition into the running count adds len(Slice) or 1, and is executed on
			// every iteration of its loop (an increment behind a test of the element - e.g. idx.Valid - counts a subset)
			var headers []*ssa.BasicBlock
			for _, b := range fn.Blocks {
				for _, in := range b.Instrs {
					if nx, ok := in.(*ssa.Next); ok {
						if rg, ok := nx.Iter.(*ssa.Range); ok && core.Mentions(rg.X, fieldNamed("Counter")) {
							headers = append(headers, nx.Block())
						}
					}
				}
			}
			inCounterLoop := func(b *ssa.BasicBlock) bool {
				for _, h := range headers {
					if blockReach(h, b) && blockReach(b, h) {
						return true
					}
				}
				return false
			}
			for _, b := range fn.Blocks {
				if !inCounterLoop(b) {
					continue
				}
				for _, in := range b.Instrs {
					bo, ok := in.(*ssa.BinOp)
					if !ok || bo.Op != token.ADD {
						continue
					}
					if bt, isB := bo.Type().Underlying().(*types.Basic); !isB || bt.Kind() != types.Uint64 {
						continue
					}
					_, xPhi := bo.X.(*ssa.Phi)
					_, yPhi := bo.Y.(*ssa.Phi)
					if !xPhi && !yPhi {
						continue
					}
					term := bo.Y
					if yPhi && !xPhi {
						term = bo.X
					}
					okTerm := false
					if k, isC := core.ConstInt(term); isC && k == 1 {
						okTerm = true
					}
					if core.Mentions(term, func(v ssa.Value) bool {
						cc, ok := v.(*ssa.Call)
						if !ok {
							return false
						}
						bn, ok := cc.Call.Value.(*ssa.Builtin)
						return ok && bn.Name() == "len" && core.Mentions(cc.Call.Args[0], fieldLoad("VerifiedIndexSlice", "Slice"))
					}) {
						okTerm = true
					}
					// loop counters of `for i := range` are additions too: they add 1 to an int, not uint64 - filtered above
					if !okTerm || !unconditionalInLoop(fn, bo) {
						return false
					}
				}
			}
			return true
		}
		c.staleMetaReads()
		r.Check(shape(persist) && shape(gic), "R09.5", "interchain count: persist and rollback use sum(len(Counter[k].Slice))", c.P.Pos(persist.Pos()), "both sides sum len(Slice) over InterchainMeta.Counter", "persist and rollback do not compute the interchain count the same way")
	}
}

// varValues returns the values a (possibly closure-captured) local variable
// may hold: v itself when it is not a variable load, otherwise every value
// stored to the variable in the function or its closures.
func varValues(fn *ssa.Function, v ssa.Value) []ssa.Value {
	id := core.VarIdentity(v)
	al, ok := id.(*ssa.Alloc)
	if !ok {
		return []ssa.Value{core.Strip(v)}
	}
	var out []ssa.Value
	for _, f := range core.WithClosures(fn) {
		for _, b := range f.Blocks {
			for _, in := range b.Instrs {
				if st, ok := in.(*ssa.Store); ok && core.VarIdentity(st.Addr) == ssa.Value(al) {
					out = append(out, st.Val)
				} else if ok && st.Addr == ssa.Value(al) {
					out = append(out, st.Val)
				}
			}
		}
	}
	if len(out) == 0 {
		return []ssa.Value{core.Strip(v)}
	}
	return out
}

// heightExpr renders a block-height expression canonically, using the axiom
// GetBlock(h).Height() == h: "H(newBlock)-1", "field currentHeight-1", ...
func heightExpr(fn *ssa.Function, v ssa.Value, d int) string {
	if d > 6 || v == nil {
		return "?"
	}
	v = core.Strip(v)
	switch x := v.(type) {
	case *ssa.BinOp:
		return heightExpr(fn, x.X, d+1) + x.Op.String() + heightExpr(fn, x.Y, d+1)
	case *ssa.Const:
		return x.Value.ExactString()
	case *ssa.Parameter:
		return x.Name()
	case *ssa.Call:
		o := core.CalleeObj(x)
		if o != nil && o.Name() == "Height" && len(x.Call.Args) == 1 {
			recv := x.Call.Args[0]
			for _, val := range varValues(fn, recv) {
				if cl, idx := core.CallOf(val); cl != nil && idx == 0 && core.CalleeObj(cl) != nil && core.CalleeObj(cl).Name() == "GetBlock" {
					return heightExpr(fn, core.Arg(cl, 0), d+1)
				}
			}
			// the block comes from a helper of the package that returns GetBlock(<its parameter>) (read with retry)
			for _, val := range varValues(fn, recv) {
				cl, idx := core.CallOf(val)
				if cl == nil || idx > 0 {
					continue
				}
				g := core.StaticCallee(cl)
				if g == nil || len(g.Blocks) == 0 || core.PkgOf(g) != core.PkgOf(fn) {
					continue
				}
				for _, ret := range core.Returns(g) {
					if len(ret.Results) == 0 {
						continue
					}
					for _, rv := range varValues(g, ret.Results[0]) {
						if gcl, gidx := core.CallOf(rv); gcl != nil && gidx == 0 && core.CalleeObj(gcl) != nil && core.CalleeObj(gcl).Name() == "GetBlock" {
							harg := core.Arg(gcl, 0)
							pi := paramIndex(g, harg)
							if pi < 0 {
								// the parameter captured by the retry closure lives in a local slot
								if al, isAl := core.VarIdentity(harg).(*ssa.Alloc); isAl {
									for _, sv := range core.StoresTo(al) {
										if k := paramIndex(g, sv); k >= 0 {
											pi = k
										}
									}
								}
							}
							if pi >= 0 && pi < len(cl.Call.Args) {
								return heightExpr(fn, cl.Call.Args[pi], d+1)
							}
						}
					}
				}
			}
			for _, val := range varValues(fn, recv) {
				if p, ok := core.Strip(val).(*ssa.Parameter); ok {
					return "H(" + p.Name() + ")"
				}
			}
			if p, ok := core.Strip(recv).(*ssa.Parameter); ok {
				return "H(" + p.Name() + ")"
			}
			if fv, ok := core.Strip(recv).(*ssa.FreeVar); ok {
				return "H(" + fv.Name() + ")"
			}
			return "H(?)"
		}
		return core.CalleeName(x)
	}
	if _, f, _, ok := core.FieldOf(v); ok {
		return "field " + f
	}
	return "?"
}

// staleMetaReads: R09.6.
func (c *Ctx) staleMetaReads() {
	r := c.R
	n := 0
	for _, spec := range []string{chainPrefix + "RollbackBlockChain", chainPrefix + "PersistExecutionResult"} {
		fn := c.fn("R09.6", spec)
		if fn == nil {
			continue
		}
		isSink := func(in ssa.Instruction) bool {
			call, ok := in.(ssa.CallInstruction)
			if !ok {
				return false
			}
			n := core.CalleeName(call)
			return strings.HasSuffix(n, ".persistChainMeta") || strings.HasSuffix(n, ".UpdateChainMeta")
		}
		sinks := sites(fn, isSink)
		// field loads of a ChainMeta that feed a store into a field of a freshly allocated ChainMeta
		for _, b := range fn.Blocks {
			for _, in := range b.Instrs {
				st, ok := in.(*ssa.Store)
				if !ok {
					continue
				}
				dfa, ok := st.Addr.(*ssa.FieldAddr)
				if !ok || !strings.HasSuffix(core.RecvTypeName(dfa.X.Type()), "pb.ChainMeta") {
					continue
				}
				if _, fresh := core.Strip(dfa.X).(*ssa.Alloc); !fresh {
					continue
				}
				// loads feeding the stored value
				var loads []*ssa.UnOp
				core.Mentions(st.Val, func(v ssa.Value) bool {
					if u, ok := v.(*ssa.UnOp); ok && u.Op == token.MUL {
						if fa, ok := u.X.(*ssa.FieldAddr); ok && strings.HasSuffix(core.RecvTypeName(fa.X.Type()), "pb.ChainMeta") && core.Strip(fa.X) != core.Strip(dfa.X) {
							loads = append(loads, u)
						}
					}
					return false
				})
				for _, ld := range loads {
					n++
					lfa := ld.X.(*ssa.FieldAddr)
					_, fld, _, _ := core.FieldOf(lfa)
					// a later store to the same field of the same object, before a sink
					after := core.Reach([]core.Point{core.After(ld)}, nil, nil)
					bad := ""
					for _, b2 := range fn.Blocks {
						for _, in2 := range b2.Instrs {
							s2, ok := in2.(*ssa.Store)
							if !ok || !after.Has(in2) {
								continue
							}
							fa2, ok := s2.Addr.(*ssa.FieldAddr)
							if !ok || fa2.Field != lfa.Field || !sameBase(fa2.X, lfa.X) {
								continue
							}
							afterS := core.Reach([]core.Point{core.After(s2)}, nil, nil)
							for _, sk := range sinks {
								if afterS.Has(sk) {
									bad = c.P.Pos(s2.Pos())
								}
							}
						}
					}
					key := shortFn(fn) + ": new chain meta ." + fld + " read after its last update"
					r.Check(bad == "", "R09.6", fmt.Sprintf("%s #%d", key, n), c.P.Pos(ld.Pos()), "no later store to the field before the meta is persisted", "the value copied into the new chain meta is read here, but the field is updated afterwards at "+bad+" and the stale copy is what gets persisted: the chain meta disagrees with the blocks that remain")
				}
			}
		}
	}
	r.Floor("R09.6", "old-meta reads feeding a persisted chain meta", n, 1)
}

// c09ValueCodec: R09.10.
func (c *Ctx) c09ValueCodec() {
	r := c.R
	isHashText := func(v ssa.Value) bool {
		return core.Mentions(v, func(w ssa.Value) bool {
			cc, ok := w.(*ssa.Call)
			return ok && strings.HasSuffix(core.CalleeName(cc), "types.Hash).String")
		})
	}
	isHashRaw := func(v ssa.Value) bool {
		return core.Mentions(v, func(w ssa.Value) bool {
			cc, ok := w.(*ssa.Call)
			return ok && strings.HasSuffix(core.CalleeName(cc), "types.Hash).Bytes")
		})
	}
	written := map[string]string{} // prefix -> "text" | "raw"
	for _, fn := range c.P.ModuleFuncs(true) {
		if core.PkgOf(fn) != ledgerPkg {
			continue
		}
		for _, call := range core.Calls(fn) {
			o := core.CalleeObj(call)
			if o == nil || o.Name() != "Put" || !strings.Contains(core.CalleeName(call), "storage.") || len(call.Common().Args) < 2 {
				continue
			}
			args := call.Common().Args
			pfx, ok := keyPrefixOf(args[len(args)-2])
			if !ok {
				continue
			}
			val := args[len(args)-1]
			switch {
			case isHashText(val):
				written[pfx] = "text"
			case isHashRaw(val):
				written[pfx] = "raw"
			}
		}
	}
	n := 0
	for _, fn := range c.P.ModuleFuncs(true) {
		if core.PkgOf(fn) != ledgerPkg {
			continue
		}
		for _, call := range core.Calls(fn) {
			o := core.CalleeObj(call)
			if o == nil || o.Name() != "Get" || !strings.Contains(core.CalleeName(call), "storage.") || len(call.Common().Args) < 1 {
				continue
			}
			args := call.Common().Args
			pfx, ok := keyPrefixOf(args[len(args)-1])
			kind := written[pfx]
			cv, isCall := call.(*ssa.Call)
			if !ok || kind == "" || !isCall {
				continue
			}
			n++
			// how the value read is decoded: NewHash(data) / NewHashByStr(string(data))
			raw, text := false, false
			for _, other := range core.Calls(fn) {
				cn := core.CalleeName(other)
				uses := false
				for _, a := range other.Common().Args {
					if core.Mentions(a, func(w ssa.Value) bool { return w == ssa.Value(cv) }) {
						uses = true
					}
				}
				if !uses {
					continue
				}
				switch {
				case strings.HasSuffix(cn, "types.NewHashByStr"):
					text = true
				case strings.HasSuffix(cn, "types.NewHash"):
					raw = true
				}
			}
			key := shortFn(fn) + ": value under " + pfx + " decoded as it is stored (" + kind + ")"
			switch {
			case kind == "text" && raw, kind == "raw" && text:
				r.Bad("R09.10", key, c.P.Pos(call.Pos()), "the value stored under "+pfx+" is the "+kind+" form of a hash, but this reader decodes it as the other form: every answer is a well-formed but wrong hash (for the text form: the ASCII of its last 32 hex digits), so the height -> hash index disagrees with the stored blocks")
			default:
				r.OK("R09.10", key, c.P.Pos(call.Pos()), "reader and writer use the same form")
			}
		}
	}
	r.Floor("R09.10", "readers of index entries that hold a hash", n, 1)
}
