package rules

import (
	"fmt"
	"go/token"
	"go/types"
	"sort"
	"strings"

	"bxhlint/core"

	"golang.org/x/tools/go/ssa"
)

func init() { Props["C08"] = C08 }

// recoverDefer returns the Defer instruction of fn that installs a closure
// calling the builtin recover(), and that closure.
func recoverDefer(fn *ssa.Function) (*ssa.Defer, *ssa.Function) {
	for _, b := range fn.Blocks {
		for _, in := range b.Instrs {
			d, ok := in.(*ssa.Defer)
			if !ok {
				continue
			}
			var cl *ssa.Function
			switch v := d.Call.Value.(type) {
			case *ssa.MakeClosure:
				cl, _ = v.Fn.(*ssa.Function)
			case *ssa.Function:
				cl = v
			}
			if cl == nil {
				continue
			}
			for _, call := range core.Calls(cl) {
				if bn, ok := call.Common().Value.(*ssa.Builtin); ok && bn.Name() == "recover" {
					return d, cl
				}
			}
		}
	}
	return nil, nil
}

// mayPanic: instruction kinds that can raise a run-time panic on bad data.
func mayPanic(fn *ssa.Function, in ssa.Instruction) (bool, string) {
	recv := func(v ssa.Value) bool {
		// the method receiver is taken as non-nil
		for i := 0; i < 4; i++ {
			// a receiver captured by a nested closure is spilled into a local: *(&local) with local = receiver
			if u, isU := v.(*ssa.UnOp); isU && u.Op == token.MUL {
				if _, isAl := u.X.(*ssa.Alloc); isAl {
					v = core.Strip(v)
				}
			}
			switch x := v.(type) {
			case *ssa.Parameter:
				return len(fn.Params) > 0 && x == fn.Params[0] && fn.Signature.Recv() != nil
			case *ssa.FieldAddr:
				v = x.X
				if u, isU := v.(*ssa.UnOp); isU && u.Op == token.MUL {
					if _, isAl := u.X.(*ssa.Alloc); isAl {
						v = core.Strip(v)
					}
				}
				if _, isParam := v.(*ssa.Parameter); !isParam {
					return false
				}
			default:
				return false
			}
		}
		return false
	}
	switch x := in.(type) {
	case *ssa.Defer, *ssa.RunDefers, *ssa.Return, *ssa.Jump, *ssa.If, *ssa.DebugRef, *ssa.Phi, *ssa.Alloc, *ssa.MakeClosure, *ssa.Store, *ssa.MakeInterface, *ssa.Extract:
		return false, ""
	case ssa.CallInstruction:
		if bn, ok := x.Common().Value.(*ssa.Builtin); ok {
			switch bn.Name() {
			case "len", "cap", "append", "copy", "delete", "recover", "print", "println", "ssa:wrapnilchk":
				return false, ""
			}
		}
		return true, "call " + shortCallee(x)
	case *ssa.TypeAssert:
		return !x.CommaOk, "type assertion without comma-ok"
	case *ssa.Index, *ssa.IndexAddr, *ssa.Slice:
		return true, "index / slice expression"
	case *ssa.UnOp:
		if x.Op == token.MUL {
			if _, isAlloc := x.X.(*ssa.Alloc); isAlloc {
				return false, ""
			}
			if _, isFree := x.X.(*ssa.FreeVar); isFree {
				return false, ""
			}
			if fa, ok := x.X.(*ssa.FieldAddr); ok && recv(fa.X) {
				return false, ""
			}
			if _, isG := x.X.(*ssa.Global); isG {
				return false, ""
			}
			return true, "pointer dereference"
		}
	case *ssa.FieldAddr:
		if recv(x.X) {
			return false, ""
		}
		if _, isAlloc := x.X.(*ssa.Alloc); isAlloc {
			return false, ""
		}
		return true, "field access through a pointer"
	case *ssa.BinOp:
		if x.Op == token.QUO || x.Op == token.REM {
			if _, isC := x.Y.(*ssa.Const); !isC {
				return true, "division"
			}
		}
	}
	return false, ""
}

// recoversFirst: fn installs a recovering defer before anything that may panic,
// and the recovering closure turns the panic into the function's error result.
func (c *Ctx) recoversFirst(fn *ssa.Function) (bool, string, string) {
	d, cl := recoverDefer(fn)
	if d == nil {
		return false, c.P.Pos(fn.Pos()), "no deferred recover(): a panic below this entry point leaves it and stops the goroutine that called it"
	}
	rs := core.Reach([]core.Point{core.EntryOf(fn)}, func(in ssa.Instruction) bool { return in == ssa.Instruction(d) }, nil)
	for _, b := range fn.Blocks {
		for _, in := range b.Instrs {
			if in == ssa.Instruction(d) || !rs.Has(in) {
				continue
			}
			if p, what := mayPanic(fn, in); p {
				pos := in.Pos()
				if !pos.IsValid() {
					pos = fn.Pos()
				}
				return false, c.P.Pos(pos), what + " executes before the deferred recover() is installed (" + c.P.Pos(d.Pos()) + "): a panic there is not converted into an error"
			}
		}
	}
	// the closure assigns an error result
	assigns := false
	for _, b := range cl.Blocks {
		for _, in := range b.Instrs {
			st, ok := in.(*ssa.Store)
			if !ok {
				continue
			}
			if fv, ok := st.Addr.(*ssa.FreeVar); ok {
				if pt, ok := fv.Type().Underlying().(*types.Pointer); ok && (pt.Elem().String() == "error" || pt.Elem().String() == "bool") {
					assigns = true
				}
			}
		}
	}
	if !assigns {
		return false, c.P.Pos(d.Pos()), "the recovering closure does not set the function's error result: the caller sees a success"
	}
	return true, c.P.Pos(d.Pos()), "defer recover() installed first; the panic becomes the error result"
}

// eventConst returns the name of a pb.Event_EventType constant value.
func eventConst(v ssa.Value) string {
	cst, ok := core.Strip(v).(*ssa.Const)
	if !ok || !strings.HasSuffix(cst.Type().String(), "pb.Event_EventType") {
		return ""
	}
	return enumName(cst)
}

func derefType(t types.Type) types.Type {
	for i := 0; i < 3; i++ {
		if p, ok := t.Underlying().(*types.Pointer); ok {
			t = p.Elem()
			continue
		}
		break
	}
	return t
}

// C08: block execution is total.
func C08(c *Ctx) {
	r := c.R
	r.Rule("R08.1", "recover first: every entry point through which sender-chosen bytes reach contract, guest or validator code (BoltVM.Run, BoltVM.HandleIBTP, WasmVM.Run, VerifyPool.CheckProof) installs a deferred recover() before any instruction that may panic, and the recovering closure sets the error result.")
	r.Rule("R08.2", "no bare goroutine on input: every goroutine started under block execution (verifySign, verifyProofs) either installs its own recover first or calls nothing but recovering entry points of R08.1, synchronisation, logging and error formatting; a goroutine that recovers signals its WaitGroup by a deferred Done registered before anything that may panic (a plain Done is skipped by the swallowed panic and the spawner waits for ever).")
	r.Rule("R08.3", "dispatch only through recovering entries: the executor package reaches contract code only through BoltVM.Run / BoltVM.HandleIBTP / vm.VM.Run (frozen exception: evmInterchain).")
	r.Rule("R08.4", "nil-able transaction parts: applyTransaction tests tx.GetFrom() for nil before any ledger call or defer, and answers with a FAILED receipt; transfer tests both addresses for nil and the amount for a negative sign before touching a balance; the optional callee (vm.Context.Callee, tx.GetTo()) is dereferenced - method call, load, or a helper that does so - only behind its nil test in every function of executor and vm packages that does not recover first.")
	r.Rule("R08.5", "one receipt per transaction, in order: ApplyTransactions appends exactly one receipt per iteration of the loop over the block's transactions and returns that slice; applyTx / applyTransaction return a receipt that is an allocation (never nil) on every path; the receipts persisted are the ones returned.")
	r.Rule("R08.6", "event codec agreement: for every event type that applyTx decodes with a panic on failure, every producer posting that type passes a value of the type the decoder unmarshals into; ledger.AddEvent is called with a raw event only with a type that has no panicking decoder.")
	r.Rule("R08.7", "explicit panics triaged: every explicit panic in the unrecovered part of block execution (executor package, outside the VM entry points) is one of the frozen, classified sites; a new one is a violation until classified.")
	r.Rule("R08.8", "revert at most once: in the executor no snapshot id is handed to RevertToSnapshot twice on one path (the ledger panics on an id that was already reverted); a revert closure that may be invoked more than once guards itself with a once-flag.")
	r.Rule("R08.9", "the one contract that runs unrecovered stays panic-free on sender-chosen strings: in the own bodies of the InterBroker entries (reached from evmInterchain through InvokeBVM, outside the recover of BoltVM.Run) every constant index s[k] into a list obtained from strings.Split / SplitN lies behind a test of len(s) that implies len(s) > k.")
	r.Rule("R08.10", journalResetText)
	c.journalReset("R08.10")
	r.NotDecided = append(r.NotDecided, "implicit run-time panics (nil / bounds) inside dependencies and in ledger code reached with well-formed arguments; blocking and deadlock; resource exhaustion; termination of WASM / EVM code (fuel / gas are trusted); configuration-dependent failures (unknown proof type); panics classified as storage faults; a ledger invariant panic (RevertToSnapshot on a revision that a mid-transaction Finalise discarded: seed C08-r9)")

	// R08.1
	entries := []string{"pkg/vm/boltvm.(*BoltVM).Run", "pkg/vm/boltvm.(*BoltVM).HandleIBTP", "pkg/vm/wasm.(*WasmVM).Run", "pkg/proof.(*VerifyPool).CheckProof"}
	recovering := map[*ssa.Function]bool{}
	for _, spec := range entries {
		fn := c.fn("R08.1", spec)
		if fn == nil {
			continue
		}
		ok, pos, why := c.recoversFirst(fn)
		if ok {
			recovering[fn] = true
		}
		r.Check(ok, "R08.1", shortFn(fn)+": recovers before anything can panic", pos, why, why)
	}
	// every implementation of vm.VM.Run in the module is in the list
	for _, fn := range c.P.ModuleFuncs(false) {
		if fn.Name() != "Run" || fn.Signature.Recv() == nil || fn.Signature.Params().Len() != 2 || fn.Signature.Results().Len() != 3 {
			continue
		}
		if !strings.HasPrefix(core.PkgOf(fn), "pkg/vm/") {
			continue
		}
		if !recovering[fn] {
			found := false
			for _, spec := range entries {
				if strings.HasSuffix(spec, shortFn(fn)) || c.P.Fn(spec) == fn {
					found = true
				}
			}
			r.Check(found, "R08.1", shortFn(fn)+": a vm.VM implementation is a recovering entry", c.P.Pos(fn.Pos()), "listed", "a VM implementation's Run is not among the recovering entry points")
		}
	}

	// R08.2
	safeFn := map[*ssa.Function]int{} // 1 = only safe calls inside, 2 = not, 3 = being evaluated
	var safeCallee func(call ssa.CallInstruction) bool
	safeCallee = func(call ssa.CallInstruction) bool {
		if _, ok := call.Common().Value.(*ssa.Builtin); ok {
			return true
		}
		n := core.CalleeName(call)
		switch {
		case strings.HasPrefix(n, "(*sync."), strings.HasPrefix(n, "(sync."):
			return true
		case strings.Contains(n, "sirupsen/logrus"):
			return true
		case n == "(error).Error", n == "fmt.Sprintf", n == "fmt.Errorf":
			return true
		}
		if o := core.CalleeObj(call); o != nil && o.Name() == "CheckProof" && strings.Contains(n, "pkg/proof.") {
			// interface proof.Verify: its only implementation is the recovering VerifyPool.CheckProof
			impl := c.P.Fn("pkg/proof.(*VerifyPool).CheckProof")
			return impl != nil && recovering[impl]
		}
		if callee := core.StaticCallee(call); callee != nil && recovering[callee] {
			return true
		}
		// a helper of the executor that itself calls nothing but safe callees (e.g. the per-group loop of verifyProofs)
		if callee := core.StaticCallee(call); callee != nil && len(callee.Blocks) > 0 && core.PkgOf(callee) == "internal/executor" {
			switch safeFn[callee] {
			case 1:
				return true
			case 2, 3:
				return false
			}
			safeFn[callee] = 3
			ok := true
			for _, f := range core.WithClosures(callee) {
				for _, cc := range core.Calls(f) {
					if !safeCallee(cc) {
						ok = false
					}
				}
			}
			if ok {
				safeFn[callee] = 1
			} else {
				safeFn[callee] = 2
			}
			return ok
		}
		return false
	}
	nGo := 0
	for _, spec := range []string{"internal/executor.(*BlockExecutor).verifySign", "internal/executor.(*BlockExecutor).verifyProofs"} {
		fn := c.fn("R08.2", spec)
		if fn == nil {
			continue
		}
		for _, b := range fn.Blocks {
			for _, in := range b.Instrs {
				g, ok := in.(*ssa.Go)
				if !ok {
					continue
				}
				nGo++
				key := shortFn(fn) + ": goroutine at " + fmt.Sprint(nGo)
				cl, _ := goBody(g)
				if cl == nil {
					r.Unknown("R08.2", key, c.P.Pos(g.Pos()), "goroutine body is neither a closure literal nor a statically known function of the module")
					continue
				}
				key = shortFn(fn) + ": goroutine " + cl.Name()
				if d, _ := recoverDefer(cl); d != nil {
					ok, pos, why := c.recoversFirstGo(cl, d)
					r.Check(ok, "R08.2", key, pos, why, why)
					// the join survives the swallowed panic: a WaitGroup.Done of a recovering goroutine is deferred, and
					// registered before anything that may panic - a plain call at the end is skipped by the panic and the
					// spawner's Wait never returns
					var dones []ssa.CallInstruction
					for _, f := range core.WithClosures(cl) {
						for _, call := range core.Calls(f) {
							if core.CalleeName(call) == "(*sync.WaitGroup).Done" {
								dones = append(dones, call)
							}
						}
					}
					if len(dones) > 0 {
						badJoin := ""
						for _, dn := range dones {
							df, isDefer := dn.(*ssa.Defer)
							if !isDefer || dn.Parent() != cl {
								badJoin = "WaitGroup.Done at " + c.P.Pos(dn.Pos()) + " is a plain call, not deferred: the panic that the goroutine's recover swallows skips it"
								continue
							}
							jok, _, jwhy := c.recoversFirstGo(cl, df)
							if !jok {
								badJoin = "the deferred WaitGroup.Done is registered too late: " + jwhy
							}
						}
						r.Check(badJoin == "", "R08.2", key+": join survives a swallowed panic", c.P.Pos(g.Pos()), "WaitGroup.Done is deferred before anything that may panic",
							badJoin+"; wg.Wait() of the executor then blocks for ever: one malformed transaction wedges block execution")
					}
					continue
				}
				bad := ""
				for _, f := range core.WithClosures(cl) {
					for _, call := range core.Calls(f) {
						if _, isDefer := call.(*ssa.Defer); isDefer {
							if mc2, ok := call.Common().Value.(*ssa.MakeClosure); ok && mc2 != nil {
								continue
							}
						}
						if !safeCallee(call) {
							bad = shortCallee(call) + " at " + c.P.Pos(call.Pos())
						}
					}
				}
				r.Check(bad == "", "R08.2", key, c.P.Pos(g.Pos()), "calls only recovering entry points / sync / logging", "a goroutine of block execution calls "+bad+" without a recover of its own: a panic on a malformed transaction there cannot be caught by anyone and stops the node")
			}
		}
	}
	r.Floor("R08.2", "goroutines under verifySign / verifyProofs", nGo, 2)

	// R08.3
	allowedBVM := map[string]bool{"Run": true, "HandleIBTP": true}
	frozen := map[string]string{
		"(*BlockExecutor).evmInterchain: InvokeBVM": "reached for an EVM log that carries the reserved InterBroker address - produced by the interchain precompile of the built-in EVM from strings the sender chooses. The invoked InterBroker entry runs without the recover of BoltVM.Run until it cross-invokes (the nested Run recovers); R08.9 therefore demands that the own bodies of the InterBroker entries contain no unguarded index into user-chosen lists (same site as the C07 finding)",
	}
	n3 := 0
	for _, fn := range c.P.ModuleFuncs(true) {
		if core.PkgOf(fn) != "internal/executor" {
			continue
		}
		for _, call := range core.Calls(fn) {
			o := core.CalleeObj(call)
			if o == nil {
				continue
			}
			n := core.CalleeName(call)
			if !strings.Contains(n, "pkg/vm/boltvm.BoltVM).") {
				continue
			}
			n3++
			key := shortFn(fn) + ": " + o.Name()
			if allowedBVM[o.Name()] {
				r.OK("R08.3", key, c.P.Pos(call.Pos()), "recovering entry point")
				continue
			}
			if why, ok := frozen[key]; ok {
				r.Note("R08.3", key, c.P.Pos(call.Pos()), "frozen exception: "+why)
				continue
			}
			r.Bad("R08.3", key, c.P.Pos(call.Pos()), "the executor calls BoltVM."+o.Name()+" directly: contract code runs without the recover of Run / HandleIBTP, a contract panic stops the node")
		}
	}
	r.Floor("R08.3", "BoltVM calls from the executor", n3, 2)

	// R08.4
	if at := c.fn("R08.4", "internal/executor.(*BlockExecutor).applyTransaction"); at != nil {
		nilFrom := condEdges(at, func(f core.Fact, ifi *ssa.If) (bool, int) {
			if f.Kind != core.FNil {
				return false, 0
			}
			cc, ok := core.Strip(f.Subject).(*ssa.Call)
			if !ok || core.CalleeObj(cc) == nil || core.CalleeObj(cc).Name() != "GetFrom" {
				return false, 0
			}
			// the non-nil edge
			return true, 1 - holdsEdge(f)
		})
		if nilFrom.Len() == 0 {
			r.Bad("R08.4", "applyTransaction: sender tested for nil first", c.P.Pos(at.Pos()), "applyTransaction never tests tx.GetFrom() for nil: a transaction without sender makes the ledger dereference a nil address (SetNonce / payGasFee) on the executor goroutine")
		} else {
			rs := core.Reach([]core.Point{core.EntryOf(at)}, nil, core.CutOf(nilFrom))
			bad := ""
			for _, f := range []*ssa.Function{at} {
				for _, b := range f.Blocks {
					for _, in := range b.Instrs {
						if !rs.Has(in) {
							continue
						}
						switch x := in.(type) {
						case *ssa.Defer:
							bad = "a defer is registered at " + c.P.Pos(x.Pos())
						case *ssa.Call:
							n := core.CalleeName(x)
							if strings.Contains(n, "ledger") && !strings.Contains(n, "pb.") {
								bad = "ledger call " + shortCallee(x) + " at " + c.P.Pos(x.Pos())
							}
						}
					}
				}
			}
			// the nil edge returns a FAILED receipt
			okRet := false
			for _, ret := range core.Returns(at) {
				if rs.Has(ret) {
					okRet = true
				}
			}
			r.Check(bad == "" && okRet, "R08.4", "applyTransaction: sender tested for nil first", c.P.Pos(at.Pos()), "GetFrom()==nil returns a receipt before any ledger call / defer", "before the nil test of tx.GetFrom(): "+bad)
		}
	}
	if tr := c.fn("R08.4", "internal/executor.(*BlockExecutor).transfer"); tr != nil && len(tr.Params) >= 4 {
		isBalanceOp := func(in ssa.Instruction) bool {
			call, ok := in.(ssa.CallInstruction)
			if !ok || core.CalleeObj(call) == nil {
				return false
			}
			n := core.CalleeObj(call).Name()
			return n == "GetBalance" || n == "SetBalance"
		}
		for idx, pname := range map[int]string{1: "from", 2: "to"} {
			p := tr.Params[idx]
			nonNil := condEdges(tr, func(f core.Fact, ifi *ssa.If) (bool, int) {
				if f.Kind == core.FNil && core.Strip(f.Subject) == ssa.Value(p) {
					return true, 1 - holdsEdge(f)
				}
				return false, 0
			})
			n := c.behindEdges("R08.4", "transfer: "+pname+" != nil", tr, nonNil, isBalanceOp, pname+" != nil", "balance access")
			r.Floor("R08.4", "balance accesses in transfer", n, 4)
		}
		c.transferSignCheck("R08.4", tr)
	}
	c.c08NilCallee()
	c.c08BrokerIndices()
	c.c08ParsedNumbers()

	// R08.5
	if ap := c.fn("R08.5", "internal/executor.(*SerialExecutor).ApplyTransactions"); ap != nil && len(ap.Params) >= 2 {
		var appends []ssa.Instruction
		for _, call := range core.Calls(ap) {
			if bn, ok := call.Common().Value.(*ssa.Builtin); ok && bn.Name() == "append" {
				if strings.Contains(call.Common().Args[0].Type().String(), "pb.Receipt") {
					appends = append(appends, call)
				}
			}
		}
		ok := len(appends) == 1
		why := fmt.Sprintf("%d receipt appends", len(appends))
		if ok {
			a := appends[0]
			if !core.InLoop(a) || !unconditionalInLoop(ap, a) {
				ok, why = false, "the receipt append is not executed on every iteration of the transaction loop"
			}
			// the loop ranges over the txs parameter
			over := false
			for _, b := range ap.Blocks {
				for _, in := range b.Instrs {
					if l, isLen := in.(*ssa.Call); isLen {
						if bn, isB := l.Call.Value.(*ssa.Builtin); isB && bn.Name() == "len" && core.Strip(l.Call.Args[0]) == ssa.Value(ap.Params[1]) {
							over = true
						}
					}
					if rg, isR := in.(*ssa.Range); isR && core.Strip(rg.X) == ssa.Value(ap.Params[1]) {
						over = true
					}
				}
			}
			if !over {
				ok, why = false, "the loop does not range over the block's transactions"
			}
			// appended value: result of the apply function
			if ok {
				val := a.(*ssa.Call).Call.Args[1]
				fromApply := core.Mentions(val, func(v ssa.Value) bool {
					cc, isC := v.(*ssa.Call)
					return isC && core.Mentions(cc.Call.Value, fieldNamed("applyTxFunc"))
				})
				if !fromApply {
					ok, why = false, "the appended value is not the result of the apply function"
				}
			}
			// the slice returned is the appended one
			if ok {
				for _, ret := range core.Returns(ap) {
					if !core.Mentions(ret.Results[0], func(v ssa.Value) bool { return v == ssa.Value(a.(*ssa.Call)) }) {
						ok, why = false, "the returned slice is not the one receipts are appended to"
					}
				}
			}
		}
		r.Check(ok, "R08.5", "ApplyTransactions: one receipt per transaction, in block order", c.P.Pos(ap.Pos()), "single unconditional append of applyTxFunc(i, tx, ..) in the loop over txs", "the receipts of a block do not correspond one-to-one, in order, to its transactions: "+why)
	}
	var nonNilReturn func(fn *ssa.Function, allowedCalls ...string) (bool, string)
	nonNilDepth := 0
	nonNilReturn = func(fn *ssa.Function, allowedCalls ...string) (bool, string) {
		for _, ret := range core.Returns(fn) {
			for _, o := range core.RetOrigins(ret.Results[0]) {
				switch x := o.V.(type) {
				case *ssa.Alloc:
					continue
				case *ssa.Call:
					okc := false
					for _, a := range allowedCalls {
						if strings.HasSuffix(core.CalleeName(x), a) {
							okc = true
						}
					}
					// a helper of the executor that builds the receipt: all of its returns are allocations
					if g := core.StaticCallee(x); !okc && g != nil && len(g.Blocks) > 0 && core.PkgOf(g) == "internal/executor" && nonNilDepth < 2 {
						nonNilDepth++
						okc, _ = nonNilReturn(g)
						nonNilDepth--
					}
					if okc {
						continue
					}
					return false, "returns the result of " + shortCallee(x) + " at " + c.P.Pos(ret.Pos())
				default:
					return false, fmt.Sprintf("returns %T at %s", o.V, c.P.Pos(ret.Pos()))
				}
			}
		}
		return true, ""
	}
	if fn := c.fn("R08.5", "internal/executor.(*BlockExecutor).applyTransaction"); fn != nil {
		ok, why := nonNilReturn(fn, ".applyEthTransaction")
		r.Check(ok, "R08.5", "applyTransaction: returns an allocated receipt on every path", c.P.Pos(fn.Pos()), "every return operand is &pb.Receipt{..} or applyEthTransaction(..)", "a transaction can end without a receipt: "+why)
	}
	if fn := c.fn("R08.5", "internal/executor.(*BlockExecutor).applyEthTransaction"); fn != nil {
		ok, why := nonNilReturn(fn)
		r.Check(ok, "R08.5", "applyEthTransaction: returns an allocated receipt on every path", c.P.Pos(fn.Pos()), "every return operand is an allocation", "a transaction can end without a receipt: "+why)
	}
	if fn := c.fn("R08.5", "internal/executor.(*BlockExecutor).applyTx"); fn != nil {
		ok, why := nonNilReturn(fn, ".applyTransaction")
		r.Check(ok, "R08.5", "applyTx: returns applyTransaction's receipt on every path", c.P.Pos(fn.Pos()), "every return operand is applyTransaction(..)", "a transaction can end without a receipt: "+why)
	}
	if pe := c.fn("R08.5", "internal/executor.(*BlockExecutor).processExecuteEvent"); pe != nil {
		// BlockData.Receipts = the value returned by ApplyTransactions
		ok := false
		for _, in := range sites(pe, storesToField("BlockData", "Receipts")) {
			st := in.(*ssa.Store)
			if core.Mentions(st.Val, func(v ssa.Value) bool {
				cc, isC := v.(*ssa.Call)
				return isC && core.CalleeObj(cc) != nil && core.CalleeObj(cc).Name() == "ApplyTransactions"
			}) {
				ok = true
			}
		}
		r.Check(ok, "R08.5", "processExecuteEvent: persists the receipts ApplyTransactions returned", c.P.Pos(pe.Pos()), "BlockData.Receipts = ApplyTransactions(..)", "the receipts persisted with the block are not the ones produced by executing its transactions")
	}

	// R08.6
	c.c08Codec()

	// R08.8
	c.c08RevertOnce()

	// R08.7
	c.c08Panics(recovering)

	// R08.11
	c.c08WaitBalance()
}

func recvIs(cc *ssa.Call, p *ssa.Parameter) bool {
	rv := core.Receiver(cc)
	return rv != nil && core.Strip(rv) == ssa.Value(p)
}

// recoversFirstGo: like recoversFirst for a goroutine closure (no error result
// required: the closure must record the failure somewhere, i.e. contain a store or map update).
func (c *Ctx) recoversFirstGo(cl *ssa.Function, d *ssa.Defer) (bool, string, string) {
	rs := core.Reach([]core.Point{core.EntryOf(cl)}, func(in ssa.Instruction) bool { return in == ssa.Instruction(d) }, nil)
	for _, b := range cl.Blocks {
		for _, in := range b.Instrs {
			if in == ssa.Instruction(d) || !rs.Has(in) {
				continue
			}
			if _, isDefer := in.(*ssa.Defer); isDefer {
				continue
			}
			if p, what := mayPanic(cl, in); p {
				return false, c.P.Pos(in.Pos()), what + " executes in the goroutine before its recover is installed"
			}
		}
	}
	return true, c.P.Pos(d.Pos()), "the goroutine installs its own recover first"
}

// verifiedDecoders: the json.Unmarshal calls whose producer/decoder type agreement R08.6 decides.
var verifiedDecoders = map[*ssa.Call]bool{}

func (c *Ctx) c08Codec() {
	r := c.R
	ax := c.fn("R08.6", "internal/executor.(*BlockExecutor).applyTx")
	if ax == nil {
		return
	}
	// decoders: json.Unmarshal(ev.Data, &target) whose error panics
	type decoder struct {
		call   *ssa.Call // the site in applyTx: the Unmarshal itself or the call of the helper that decodes
		target types.Type
	}
	var decs []decoder
	targetOf := func(cl *ssa.Call) types.Type {
		t := derefType(core.Strip(cl.Call.Args[1]).Type())
		if mi, ok := cl.Call.Args[1].(*ssa.MakeInterface); ok {
			t = derefType(mi.X.Type())
		}
		return t
	}
	verifiedDecoders = map[*ssa.Call]bool{}
	for _, call := range core.Calls(ax) {
		cl, ok := call.(*ssa.Call)
		if !ok {
			continue
		}
		if core.CalleeName(call) == "encoding/json.Unmarshal" {
			decs = append(decs, decoder{cl, targetOf(cl)})
			verifiedDecoders[cl] = true
			continue
		}
		// a helper of the executor that decodes the event data it is handed
		g := core.StaticCallee(call)
		if g == nil || len(g.Blocks) == 0 || core.PkgOf(g) != "internal/executor" {
			continue
		}
		passesData := false
		for _, a := range cl.Call.Args {
			if core.Mentions(a, fieldLoad("Event", "Data")) {
				passesData = true
			}
		}
		if !passesData {
			continue
		}
		for _, gc := range core.Calls(g) {
			if gcl, ok := gc.(*ssa.Call); ok && core.CalleeName(gc) == "encoding/json.Unmarshal" {
				decs = append(decs, decoder{cl, targetOf(gcl)})
				verifiedDecoders[gcl] = true
			}
		}
	}
	// event constants guarding each decoder: the case whose true edge reaches it before the next iteration
	guard := map[*ssa.Call][]string{}
	for _, b := range ax.Blocks {
		ifi := core.IfOf(b)
		if ifi == nil {
			continue
		}
		bo, ok := ifi.Cond.(*ssa.BinOp)
		if !ok || bo.Op != token.EQL {
			continue
		}
		k := eventConst(bo.Y)
		if k == "" {
			k = eventConst(bo.X)
		}
		if k == "" {
			continue
		}
		rs := core.Reach([]core.Point{{B: b.Succs[0], Idx: 0}}, func(in ssa.Instruction) bool {
			_, isNext := in.(*ssa.Next)
			if isNext {
				return true
			}
			// a later comparison of the event type ends the case
			if x, ok := in.(*ssa.If); ok {
				if bo2, ok := x.Cond.(*ssa.BinOp); ok && (eventConst(bo2.Y) != "" || eventConst(bo2.X) != "") {
					return true
				}
			}
			return false
		}, nil)
		for _, d := range decs {
			if rs.Has(d.call) {
				guard[d.call] = append(guard[d.call], k)
			}
		}
	}
	decodedAs := map[string]types.Type{}
	for _, d := range decs {
		ks := guard[d.call]
		sort.Strings(ks)
		if len(ks) == 0 {
			r.Unknown("R08.6", "applyTx: decoder at "+c.P.Pos(d.call.Pos()), c.P.Pos(d.call.Pos()), "no event-type case found for this decoder")
			continue
		}
		for _, k := range ks {
			decodedAs[k] = d.target
		}
	}
	r.Floor("R08.6", "panicking event decoders in applyTx", len(decs), 4)
	// producers
	nProd := 0
	for _, fn := range c.P.ModuleFuncs(true) {
		pk := core.PkgOf(fn)
		if !strings.HasPrefix(pk, "internal/executor") && !strings.HasPrefix(pk, "pkg/vm") {
			continue
		}
		for _, call := range core.Calls(fn) {
			o := core.CalleeObj(call)
			if o == nil {
				continue
			}
			var k string
			var val ssa.Value
			switch o.Name() {
			case "PostEvent":
				if len(call.Common().Args) < 2 {
					continue
				}
				args := call.Common().Args
				k, val = eventConst(args[len(args)-2]), args[len(args)-1]
				if k == "" {
					if core.PkgOf(fn) == "pkg/vm/boltvm" {
						continue // the stub forwards its parameter
					}
					r.Unknown("R08.6", shortFn(fn)+": PostEvent with a non-constant type", c.P.Pos(call.Pos()), "event type is not a constant")
					continue
				}
			case "PostInterchainEvent":
				args := call.Common().Args
				k, val = "INTERCHAIN", args[len(args)-1]
				if core.PkgOf(fn) == "pkg/vm/boltvm" {
					continue
				}
			default:
				continue
			}
			k = strings.TrimPrefix(k, "Event_")
			want, decoded := decodedAs[k]
			if !decoded {
				want, decoded = decodedAs["Event_"+k]
			}
			if !decoded {
				continue
			}
			nProd++
			var have types.Type
			if mi, ok := val.(*ssa.MakeInterface); ok {
				have = derefType(mi.X.Type())
			} else {
				have = derefType(val.Type())
			}
			key := shortFn(fn) + ": " + k + " event payload type"
			r.Check(types.Identical(have, want), "R08.6", key, c.P.Pos(call.Pos()), "posts "+have.String(), "the event is posted as "+have.String()+" but applyTx decodes "+k+" events into "+want.String()+" and panics when that fails: the node stops while executing the block")
		}
	}
	r.Floor("R08.6", "event producers with a panicking decoder", nProd, 10)
	// raw AddEvent callers
	for _, fn := range c.P.ModuleFuncs(true) {
		for _, call := range core.Calls(fn) {
			o := core.CalleeObj(call)
			if o == nil || o.Name() != "AddEvent" || strings.HasPrefix(core.PkgOf(fn), "internal/ledger") {
				continue
			}
			if core.PkgOf(fn) == "pkg/vm/boltvm" {
				continue // postEvent: typed producers checked above
			}
			// the event literal's type field
			args := call.Common().Args
			ev := args[len(args)-1]
			k := ""
			if a, ok := core.Strip(ev).(*ssa.Alloc); ok {
				for _, ref := range *a.Referrers() {
					if fa, ok := ref.(*ssa.FieldAddr); ok {
						if _, fld, _, ok := core.FieldOf(fa); ok && fld == "EventType" {
							for _, r2 := range *fa.Referrers() {
								if st, ok := r2.(*ssa.Store); ok {
									k = eventConst(st.Val)
								}
							}
						}
					}
				}
			}
			kk := strings.TrimPrefix(k, "Event_")
			_, dec := decodedAs[kk]
			_, dec2 := decodedAs[k]
			r.Check(k != "" && !dec && !dec2, "R08.6", shortFn(fn)+": raw AddEvent type", c.P.Pos(call.Pos()), "constant type "+k+" without panicking decoder", "guest / sender chosen bytes are stored as an event of a type ("+k+") that applyTx decodes with a panic on failure")
		}
	}
}

// c08Panics: R08.7.
func (c *Ctx) c08Panics(recovering map[*ssa.Function]bool) {
	r := c.R
	classified := map[string]string{
		"rollbackBlocks: panic(error of Retry)":                      "storage fault: the block to replace cannot be read from the ledger",
		"processExecuteEvent: panic(error of rollbackBlocks)":        "storage fault / ordering invariant: rollback of already executed blocks failed",
		"processExecuteEvent: panic(error of buildTxMerkleTree)":     "internal invariant: merkle tree over a non-empty list of hashes",
		"processExecuteEvent: panic(error of calcReceiptMerkleRoot)": "internal invariant: merkle tree over a non-empty list of hashes",
		"processExecuteEvent: panic(error of calcTimeoutL2Root)":     "internal invariant: merkle tree over a non-empty list of ids read from contract state",
		"processExecuteEvent: panic(error of calcMerkleRoot)":        "internal invariant: merkle tree over a non-empty list of hashes",
		"processExecuteEvent: panic(error of getMultiTxIBTPsMap)":    "codec of contract-written state (written by addToMultiTxNotifyMap with the same type)",
		"applyTx: panic(error of Unmarshal)":                         "event codec: decided by R08.6 (producer type = decoder type)",
		"PersistBlockData: panic(error of Commit)":                   "storage fault",
		"PersistBlockData: panic(error of PersistExecutionResult)":   "storage fault",
		"PersistExecutionResult: panic(error of Errorf)":             "storage fault: blockfile append",
		"Commit: panic(error of Marshal)":                            "internal invariant: marshalling an account record",
		"LoadChainMeta: panic(error of loadChainMeta)":               "storage fault",
		"RevertToSnapshot: panic(error of Errorf)":                   "usage invariant: a snapshot id is reverted at most once, innermost first - decided by R08.8",
		"RevertToSnapshotForParallel: panic(error of Errorf)":        "usage invariant: a snapshot id is reverted at most once, innermost first - decided by R08.8",
		"GetAccount: panic(error of Unmarshal)":                      "storage corruption: an account record written by Commit does not decode",
		"getBlockJournal: panic(error of Unmarshal)":                 "storage corruption: a journal record written by Commit does not decode",
		"getDirtyData: panic(error of Marshal)":                      "internal invariant: marshalling an account record",
		"revertJournal: panic(error of Marshal)":                     "internal invariant: marshalling an account record",
	}
	_ = classified
	roots := []string{"internal/executor.(*BlockExecutor).processExecuteEvent", "internal/executor.(*BlockExecutor).verifySign", "internal/executor.(*BlockExecutor).applyTx"}
	// functions of the executor / ledger packages reachable from the roots without crossing a recovering entry
	reach := map[*ssa.Function]bool{}
	var walk func(fn *ssa.Function)
	walk = func(fn *ssa.Function) {
		if fn == nil || reach[fn] || recovering[fn] || len(fn.Blocks) == 0 {
			return
		}
		pk := core.PkgOf(fn)
		if pk != "internal/executor" && pk != "internal/ledger" {
			return
		}
		reach[fn] = true
		for _, f := range core.WithClosures(fn) {
			reach[f] = true
			for _, call := range core.Calls(f) {
				if callee := core.StaticCallee(call); callee != nil {
					walk(callee)
					continue
				}
				// interface calls on the ledger: resolve by name within internal/ledger
				if o := core.CalleeObj(call); o != nil && call.Common().IsInvoke() {
					for _, impl := range c.P.ModuleFuncs(false) {
						if impl.Name() == o.Name() && core.PkgOf(impl) == "internal/ledger" && impl.Signature.Recv() != nil {
							walk(impl)
						}
					}
				}
			}
		}
	}
	for _, spec := range roots {
		walk(c.fn("R08.7", spec))
	}
	n := 0
	seen := map[string]int{}
	var fns []*ssa.Function
	for fn := range reach {
		fns = append(fns, fn)
	}
	sort.Slice(fns, func(i, j int) bool { return core.FnName(fns[i]) < core.FnName(fns[j]) })
	for _, fn := range fns {
		for _, b := range fn.Blocks {
			for _, in := range b.Instrs {
				p, ok := in.(*ssa.Panic)
				if !ok || !p.Pos().IsValid() {
					continue
				}
				n++
				origin := "value"
				var origins []string
				decoderPanic := false
				msgWhy := ""
				panicOrigins := core.Origins(p.X)
				// the panic value is a parameter of a local helper (mustRoot := func(root, err) { if err != nil { panic(err) } }):
				// what it means is decided by what the call sites hand in
				if par, isPar := core.Strip(p.X).(*ssa.Parameter); isPar && par.Parent() == fn {
					if pi := paramIndex(fn, par); pi >= 0 {
						for _, site := range core.StaticSitesOf(fn) {
							if pi < len(site.Common().Args) {
								panicOrigins = append(panicOrigins, core.Origins(site.Common().Args[pi])...)
								panicOrigins = append(panicOrigins, site.Common().Args[pi])
							}
						}
					}
				}
				for _, o := range panicOrigins {
					if cc, _ := core.CallOf(o); cc != nil {
						if ob := core.CalleeObj(cc); ob != nil {
							origin = "error of " + ob.Name()
							origins = append(origins, origin)
							if verifiedDecoders[cc] {
								decoderPanic = true
							}
							// a constructed error: its constant message identifies the panic wherever the code sits
							if (ob.Name() == "Errorf" || ob.Name() == "New") && len(cc.Call.Args) > 0 {
								if msg, ok := core.ConstString(cc.Call.Args[0]); ok {
									if w, okM := classifiedByMessage[msg]; okM {
										msgWhy = w
									}
								}
							}
						}
					}
				}
				top := fn
				for top.Parent() != nil {
					top = top.Parent()
				}
				key := top.Name() + ": panic(" + origin + ")"
				seen[key]++
				why, ok2 := classified[key]
				if !ok2 && msgWhy != "" {
					why, ok2 = msgWhy, true
				}
				if !ok2 && decoderPanic {
					why, ok2 = "event codec: decided by R08.6 (producer type = decoder type)", true
				}
				if !ok2 && len(origins) > 1 {
					// a shared error variable: classified when every possible origin is
					all := true
					for _, og := range origins {
						_, a := classified[top.Name()+": panic("+og+")"]
						_, b := classifiedByOrigin[og]
						if !a && !b {
							all = false
						}
					}
					if all {
						why, ok2 = "shared error variable; every origin classified ("+strings.Join(origins, ", ")+")", true
					}
				}
				if !ok2 && core.PkgOf(top) == "internal/ledger" {
					// the ledger's own records: marshalling / decoding an account record or a journal record means the same
					// thing wherever the code sits inside the ledger package (extract-method refactorings move it)
					for _, o := range core.Origins(p.X) {
						cc, _ := core.CallOf(o)
						if cc == nil || core.CalleeObj(cc) == nil {
							continue
						}
						rt := ""
						if rv := core.Receiver(cc); rv != nil {
							rt = rv.Type().String()
						}
						for _, a := range cc.Common().Args {
							rt += " " + a.Type().String()
						}
						isRecord := strings.Contains(rt, "InnerAccount") || strings.Contains(rt, "blockJournal") || strings.Contains(rt, "BlockJournal")
						switch core.CalleeObj(cc).Name() {
						case "Marshal":
							if isRecord {
								why, ok2 = "internal invariant: marshalling an account / journal record of the ledger", true
							}
						case "Unmarshal":
							if isRecord {
								why, ok2 = "storage corruption: a record written by Commit does not decode", true
							}
						}
					}
				}
				if !ok2 {
					// errors of these repository functions are classified wherever the panic sits
					// (moving the code into a helper does not change what the panic means)
					if w, okO := classifiedByOrigin[origin]; okO {
						why, ok2 = w, true
					}
				}
				if ok2 && why != "" {
					if seen[key] == 1 {
						r.OK("R08.7", key, c.P.Pos(p.Pos()), "classified: "+why)
					}
					continue
				}
				r.Bad("R08.7", key, c.P.Pos(p.Pos()), "an explicit panic in the unrecovered part of block execution that is not among the classified sites: if transaction content can reach it, every node executing the block stops")
			}
		}
	}
	r.Floor("R08.7", "explicit panics in the unrecovered region", n, 8)
}

func isRevertCall(in ssa.Instruction) (ssa.Value, bool) {
	call, ok := in.(ssa.CallInstruction)
	if !ok || core.CalleeObj(call) == nil {
		return nil, false
	}
	n := core.CalleeObj(call).Name()
	if n != "RevertToSnapshot" && n != "RevertToSnapshotForParallel" {
		return nil, false
	}
	return core.Arg(call, 0), true
}

// c08RevertOnce: R08.8.
func (c *Ctx) c08RevertOnce() {
	r := c.R
	n := 0
	for _, fn := range c.P.ModuleFuncs(false) {
		if core.PkgOf(fn) != "internal/executor" {
			continue
		}
		type site struct {
			in ssa.Instruction
			id ssa.Value
			f  *ssa.Function
		}
		var ss []site
		for _, f := range core.WithClosures(fn) {
			for _, b := range f.Blocks {
				for _, in := range b.Instrs {
					if id, ok := isRevertCall(in); ok {
						ss = append(ss, site{in, id, f})
					}
				}
			}
		}
		for _, a := range ss {
			n++
			key := shortFn(fn) + ": revert at " + a.f.Name()
			if a.f != fn {
				// inside a closure: needs the once-flag: a captured bool tested before and set before the call
				guarded := false
				for _, b := range a.f.Blocks {
					ifi := core.IfOf(b)
					if ifi == nil {
						continue
					}
					fc := core.CondFact(ifi.Cond)
					if fc.Kind != core.FBool {
						continue
					}
					u, ok := fc.Subject.(*ssa.UnOp)
					if !ok {
						continue
					}
					fv, ok := u.X.(*ssa.FreeVar)
					if !ok {
						continue
					}
					// on the edge where the flag is false, the flag is stored true before the revert
					setBefore := false
					rs := core.Reach([]core.Point{core.EntryOf(a.f)}, func(in ssa.Instruction) bool {
						st, ok := in.(*ssa.Store)
						if ok && st.Addr == ssa.Value(fv) {
							if cst, ok := st.Val.(*ssa.Const); ok && cst.Value != nil && cst.Value.String() == "true" {
								return true
							}
						}
						return false
					}, nil)
					if !rs.Has(a.in) {
						setBefore = true
					}
					// and the true edge of the flag does not reach the revert
					cut := core.EdgeSet{}
					cut.Add(b, 1-holdsEdge(fc))
					rs2 := core.Reach([]core.Point{core.EntryOf(a.f)}, nil, core.CutOf(cut))
					if setBefore && !rs2.Has(a.in) {
						guarded = true
					}
				}
				r.Check(guarded, "R08.8", key, c.P.Pos(a.in.Pos()), "closure guarded by a once-flag", "a revert closure that can be invoked twice (failed execution, then failed fee payment) hands the same snapshot id to the ledger twice: the second call panics on the executor goroutine")
				continue
			}
			again := ""
			rs := core.Reach([]core.Point{core.After(a.in)}, nil, nil)
			for _, b := range ss {
				if b.f == fn && rs.Has(b.in) && (sameValue(a.id, b.id) || core.VarIdentity(a.id) != nil && core.VarIdentity(a.id) == core.VarIdentity(b.id)) {
					again = c.P.Pos(b.in.Pos())
				}
			}
			r.Check(again == "", "R08.8", fmt.Sprintf("%s #%d", key, n), c.P.Pos(a.in.Pos()), "no second revert of the same id on any path", "the same snapshot id can be reverted again at "+again+": the ledger panics on the executor goroutine")
		}
	}
	r.Floor("R08.8", "revert sites in the executor", n, 3)
}

// transferSignCheck: every balance write of transfer lies behind an edge establishing amount >= 0.
func (c *Ctx) transferSignCheck(rule string, tr *ssa.Function) int {
	// sign test
	nonNeg := condEdges(tr, func(f core.Fact, ifi *ssa.If) (bool, int) {
		bo, ok := ifi.Cond.(*ssa.BinOp)
		if !ok {
			return false, 0
		}
		cc, ok := core.Strip(bo.X).(*ssa.Call)
		if !ok || core.CalleeObj(cc) == nil {
			return false, 0
		}
		k, isC := core.ConstInt(bo.Y)
		if !isC {
			return false, 0
		}
		switch core.CalleeObj(cc).Name() {
		case "Sign":
			switch {
			case bo.Op == token.LSS && k == 0:
				return true, 1
			case bo.Op == token.GEQ && k == 0, bo.Op == token.GTR && k == 0:
				return true, 0
			case bo.Op == token.EQL && k == -1:
				return true, 1
			}
		case "Cmp":
			// value.Cmp(zero) < 0 / == -1
			switch {
			case bo.Op == token.LSS && k == 0, bo.Op == token.EQL && k == -1:
				if recvIs(cc, tr.Params[3]) {
					return true, 1
				}
			case bo.Op == token.GTR && k == 0, bo.Op == token.EQL && k == 1:
				if recvIs(cc, tr.Params[3]) {
					return true, 0
				}
			}
		}
		return false, 0
	})
	isSet := func(in ssa.Instruction) bool {
		call, ok := in.(ssa.CallInstruction)
		return ok && core.CalleeObj(call) != nil && core.CalleeObj(call).Name() == "SetBalance"
	}
	return c.behindEdges(rule, "transfer: amount not negative", tr, nonNeg, isSet, "value.Sign() >= 0", "balance write")
}

var classifiedByOrigin = map[string]string{
	"error of rollbackBlocks":         "storage fault / ordering invariant: rollback of already executed blocks failed",
	"error of buildTxMerkleTree":      "internal invariant: merkle tree over a non-empty list of hashes",
	"error of calcReceiptMerkleRoot":  "internal invariant: merkle tree over a non-empty list of hashes",
	"error of calcTimeoutL2Root":      "internal invariant: merkle tree over a non-empty list of ids read from contract state",
	"error of calcMerkleRoot":         "internal invariant: merkle tree over a non-empty list of hashes",
	"error of getMultiTxIBTPsMap":     "codec of contract-written state (written by addToMultiTxNotifyMap with the same type)",
	"error of PersistExecutionResult": "storage fault",
	"error of loadChainMeta":          "storage fault",
	"error of Retry":                  "storage fault: the block to replace cannot be read from the ledger",
	"error of Rollback":               "storage fault: the ledger rollback failed",
	"error of GetBlock":               "storage fault: a block of the local ledger cannot be read",
}

var classifiedByMessage = map[string]string{
	"revision id %v cannod be reverted":                   "usage invariant: a snapshot id is reverted at most once, innermost first - decided by R08.8",
	"append block with height %d to blockfile failed: %w": "storage fault: blockfile append",
}

// c08NilCallee: R08.4 (second part) - the callee of a transaction is optional (a deployment has none): outside
// recovering functions every dereference of vm.Context.Callee / tx.GetTo() lies behind its nil test.
func (c *Ctx) c08NilCallee() {
	r := c.R
	isSource := func(v ssa.Value) bool {
		v = core.Strip(v)
		if _, f, _, ok := core.FieldOf(v); ok && f == "Callee" {
			if u, isLoad := v.(*ssa.UnOp); isLoad && u.Op == token.MUL {
				return true
			}
		}
		if cc, ok := v.(*ssa.Call); ok && core.CalleeObj(cc) != nil && core.CalleeObj(cc).Name() == "GetTo" {
			return true
		}
		return false
	}
	// paramDerefs[fn][i]: parameter i of fn is dereferenced (method call / load / field) on a path without its nil test
	memo := map[*ssa.Function]map[int]bool{}
	var unguardedUses func(fn *ssa.Function, same func(ssa.Value) bool, depth int) []ssa.Instruction
	var paramSink func(g *ssa.Function, i int, depth int) bool
	paramSink = func(g *ssa.Function, i int, depth int) bool {
		if g == nil || len(g.Blocks) == 0 || !c.P.InModule(g) || i >= len(g.Params) || depth > 2 {
			return false
		}
		if m, ok := memo[g]; ok {
			if v, ok := m[i]; ok {
				return v
			}
		} else {
			memo[g] = map[int]bool{}
		}
		memo[g][i] = false
		p := g.Params[i]
		res := len(unguardedUses(g, func(v ssa.Value) bool { return core.Strip(v) == ssa.Value(p) }, depth+1)) > 0
		memo[g][i] = res
		return res
	}
	unguardedUses = func(fn *ssa.Function, same func(ssa.Value) bool, depth int) []ssa.Instruction {
		nonNil := condEdges(fn, func(f core.Fact, ifi *ssa.If) (bool, int) {
			if f.Kind == core.FNil && same(f.Subject) {
				return true, 1 - holdsEdge(f)
			}
			return false, 0
		})
		rs := core.Reach([]core.Point{core.EntryOf(fn)}, nil, core.CutOf(nonNil))
		var out []ssa.Instruction
		for _, b := range fn.Blocks {
			for _, in := range b.Instrs {
				if !rs.Has(in) {
					continue
				}
				sink := false
				switch x := in.(type) {
				case ssa.CallInstruction:
					cm := x.Common()
					if cm.IsInvoke() {
						break
					}
					g := core.StaticCallee(x)
					for i, a := range cm.Args {
						if !same(a) {
							continue
						}
						if g != nil && g.Signature.Recv() != nil && i == 0 {
							if _, ptr := g.Signature.Recv().Type().Underlying().(*types.Pointer); ptr && !c.P.InModule(g) {
								sink = true // pointer-receiver method of a dependency (types.Address): dereferences its receiver
								continue
							}
						}
						if paramSink(g, i, depth) {
							sink = true
						}
					}
				case *ssa.UnOp:
					sink = x.Op == token.MUL && same(x.X)
				case *ssa.FieldAddr:
					sink = same(x.X)
				}
				if sink {
					out = append(out, in)
				}
			}
		}
		return out
	}
	// functions of the executor and vm packages reachable from block execution without crossing a recovering function
	reach := map[*ssa.Function]bool{}
	var walk func(fn *ssa.Function)
	walk = func(fn *ssa.Function) {
		if fn == nil || reach[fn] || len(fn.Blocks) == 0 {
			return
		}
		switch core.PkgOf(fn) {
		case "internal/executor", "pkg/vm", "pkg/vm/wasm", "pkg/vm/boltvm":
		default:
			return
		}
		if ok, _, _ := c.recoversFirst(fn); ok {
			return
		}
		for _, f := range core.WithClosures(fn) {
			reach[f] = true
			for _, call := range core.Calls(f) {
				walk(core.StaticCallee(call))
			}
		}
	}
	for _, spec := range []string{"internal/executor.(*BlockExecutor).processExecuteEvent", "internal/executor.(*BlockExecutor).verifySign", "internal/executor.(*BlockExecutor).applyTx"} {
		walk(c.fn("R08.4", spec))
	}
	var fns []*ssa.Function
	for fn := range reach {
		fns = append(fns, fn)
	}
	sort.Slice(fns, func(i, j int) bool { return core.FnName(fns[i]) < core.FnName(fns[j]) })
	n := 0
	for _, fn := range fns {
		// distinct sources of the function
		var srcs []ssa.Value
		for _, b := range fn.Blocks {
			for _, in := range b.Instrs {
				if v, ok := in.(ssa.Value); ok && isSource(v) {
					dup := false
					for _, s := range srcs {
						if sameValue(s, v) {
							dup = true
						}
					}
					if !dup {
						srcs = append(srcs, v)
					}
				}
			}
		}
		if len(srcs) == 0 {
			continue
		}
		rec := false
		for si, s := range srcs {
			s := s
			uses := unguardedUses(fn, func(v ssa.Value) bool { return types.Identical(v.Type(), s.Type()) && sameValue(v, s) }, 0)
			n++
			key := fmt.Sprintf("%s: optional callee #%d dereferenced only behind its nil test", shortFn(fn), si)
			switch {
			case len(uses) == 0:
				r.OK("R08.4", key, c.P.Pos(s.Pos()), "every method call / dereference (also in helpers) lies behind != nil")
			case rec:
				r.OKTrivial("R08.4", key, c.P.Pos(s.Pos()), "dereference without nil test, but the function recovers first: the panic becomes its error result")
			default:
				r.Bad("R08.4", key, c.P.Pos(uses[0].Pos()), "the callee of a transaction may be absent (deployment, transaction without `to`); here it is dereferenced without a nil test in a function that does not recover: the nil-pointer panic stops the executor goroutine")
			}
		}
	}
	r.Floor("R08.4", "uses of the optional callee", n, 2)
}

// c08BrokerIndices: R08.9.
func (c *Ctx) c08BrokerIndices() {
	r := c.R
	m := c.Contracts()
	n := 0
	for _, ct := range m.bvm.Contracts {
		if ct.Name != "InterBroker" {
			continue
		}
		for _, e := range ct.Entries {
			if !e.Own || e.Fn == nil || len(e.Fn.Blocks) == 0 {
				continue
			}
			fn := e.Fn
			for _, b := range fn.Blocks {
				for _, in := range b.Instrs {
					ia, ok := in.(*ssa.IndexAddr)
					if !ok {
						continue
					}
					k, isConst := core.ConstInt(ia.Index)
					src, _ := core.CallOf(ia.X)
					if !isConst || src == nil || !(strings.HasSuffix(core.CalleeName(src), "strings.Split") || strings.HasSuffix(core.CalleeName(src), "strings.SplitN")) {
						continue
					}
					n++
					// strings.Split (and SplitN with a non-zero count) never returns an empty list
					if k == 0 {
						atLeastOne := strings.HasSuffix(core.CalleeName(src), "strings.Split")
						if !atLeastOne && len(src.Call.Args) == 3 {
							if cnt, okc := core.ConstInt(src.Call.Args[2]); okc && cnt != 0 {
								atLeastOne = true
							}
						}
						if atLeastOne {
							r.OKTrivial("R08.9", fmt.Sprintf("%s: index [%d] into a split list #%d behind its length test", e.Key(), k, n), c.P.Pos(ia.Pos()), "a split list has at least one element")
							continue
						}
					}
					// edges on which len(s) > k is established
					long := condEdges(fn, func(f core.Fact, ifi *ssa.If) (bool, int) {
						bo, ok := ifi.Cond.(*ssa.BinOp)
						if !ok {
							return false, 0
						}
						isLen := func(v ssa.Value) bool {
							cc, ok := core.Strip(v).(*ssa.Call)
							if !ok {
								return false
							}
							bn, ok := cc.Call.Value.(*ssa.Builtin)
							return ok && bn.Name() == "len" && sameValue(cc.Call.Args[0], ia.X)
						}
						op, lenLeft := bo.Op, isLen(bo.X)
						var cv ssa.Value
						switch {
						case lenLeft:
							cv = bo.Y
						case isLen(bo.Y):
							cv = bo.X
							switch op { // c OP len  ->  len OP' c
							case token.LSS:
								op = token.GTR
							case token.LEQ:
								op = token.GEQ
							case token.GTR:
								op = token.LSS
							case token.GEQ:
								op = token.LEQ
							}
						default:
							return false, 0
						}
						cst, ok := core.ConstInt(cv)
						if !ok {
							return false, 0
						}
						switch op {
						case token.EQL:
							if cst > k {
								return true, 0
							}
						case token.NEQ:
							if cst > k {
								return true, 1
							}
						case token.GEQ:
							if cst > k {
								return true, 0
							}
						case token.GTR:
							if cst+1 > k {
								return true, 0
							}
						case token.LSS:
							if cst > k {
								return true, 1
							}
						case token.LEQ:
							if cst+1 > k {
								return true, 1
							}
						}
						return false, 0
					})
					rs := core.Reach([]core.Point{core.EntryOf(fn)}, nil, core.CutOf(long))
					r.Check(long.Len() > 0 && !rs.Has(ia), "R08.9", fmt.Sprintf("%s: index [%d] into a split list #%d behind its length test", e.Key(), k, n), c.P.Pos(ia.Pos()), fmt.Sprintf("reachable only where len(list) > %d", k),
						fmt.Sprintf("element %d of a list split from a sender-chosen string is read without a length test that guarantees it exists: a shorter list makes this entry panic, and evmInterchain invokes it outside any recover - the executor goroutine dies", k))
				}
			}
		}
	}
	r.Floor("R08.9", "constant indices into split lists in InterBroker entries", n, 3)
}

// c08ParsedNumbers (R08.4): big.Int.SetString returns (nil, false) for text that is not a number; the amount of a
// transfer is such text chosen by the sender. In the executor a value that may be that nil (it reaches the use
// without crossing the parse's ok edge or a nil test) is never the receiver of a big.Int method, and a function
// it is handed to dereferences the parameter only behind its own nil test.
func (c *Ctx) c08ParsedNumbers() {
	r := c.R
	isBigMethod := func(call ssa.CallInstruction) bool {
		return strings.HasPrefix(core.CalleeName(call), "(*math/big.Int).")
	}
	// derefs of parameter p in g that are not behind p != nil
	var unguardedDeref func(g *ssa.Function, pi, d int) string
	unguardedDeref = func(g *ssa.Function, pi, d int) string {
		if g == nil || len(g.Blocks) == 0 || pi >= len(g.Params) || d > 2 {
			return ""
		}
		p := g.Params[pi]
		nonNil := condEdges(g, func(f core.Fact, ifi *ssa.If) (bool, int) {
			if f.Kind == core.FNil && core.Strip(f.Subject) == ssa.Value(p) {
				return true, 1 - holdsEdge(f)
			}
			return false, 0
		})
		rs := core.Reach([]core.Point{core.EntryOf(g)}, nil, core.CutOf(nonNil))
		for _, call := range core.Calls(g) {
			if !rs.Has(call) {
				continue
			}
			args := call.Common().Args
			if isBigMethod(call) && len(args) > 0 {
				for ai, a := range args {
					// receiver, or an operand the method reads (x.Cmp(y), z.Add(x, y))
					if core.Strip(a) == ssa.Value(p) && (ai == 0 || true) {
						return shortFn(g) + " calls " + core.CalleeName(call) + " on it at " + c.P.Pos(call.Pos()) + " without a nil test"
					}
				}
				continue
			}
			if h := core.StaticCallee(call); h != nil && c.P.InModule(h) {
				for ai, a := range args {
					if core.Strip(a) == ssa.Value(p) {
						if w := unguardedDeref(h, ai, d+1); w != "" {
							return w
						}
					}
				}
			}
		}
		return ""
	}
	n := 0
	for _, fn := range c.P.ModuleFuncs(true) {
		if core.PkgOf(fn) != "internal/executor" {
			continue
		}
		for _, pc := range core.Calls(fn) {
			if core.CalleeName(pc) != "(*math/big.Int).SetString" {
				continue
			}
			parse, ok := pc.(*ssa.Call)
			if !ok {
				continue
			}
			n++
			var val, okv ssa.Value
			for _, ref := range *parse.Referrers() {
				if ex, isEx := ref.(*ssa.Extract); isEx {
					if ex.Index == 0 {
						val = ex
					} else {
						okv = ex
					}
				}
			}
			key := shortFn(fn) + ": parsed number used only when the parse succeeded"
			if val == nil {
				r.OK("R08.4", key, c.P.Pos(parse.Pos()), "the parsed value is not used")
				continue
			}
			protect := condEdges(fn, func(f core.Fact, ifi *ssa.If) (bool, int) {
				if f.Kind == core.FBool && okv != nil && core.Strip(f.Subject) == okv {
					return true, holdsEdge(f)
				}
				if f.Kind == core.FNil {
					for _, o := range core.RetOrigins(f.Subject) {
						if o.V == val {
							return true, 1 - holdsEdge(f)
						}
					}
				}
				return false, 0
			})
			cut := core.CutOf(protect)
			rs := core.Reach([]core.Point{core.After(parse)}, nil, cut)
			carries := func(x ssa.Value) bool {
				for _, o := range core.RetOrigins(x) {
					if o.V != val {
						continue
					}
					if o.Via == nil {
						return true
					}
					if len(o.Via.Instrs) == 0 || !rs.Has(o.Via.Instrs[len(o.Via.Instrs)-1]) {
						continue
					}
					for i, sb := range o.Via.Succs {
						if sb == o.To && !cut(o.Via, i) {
							return true
						}
					}
				}
				return false
			}
			bad := ""
			for _, call := range core.Calls(fn) {
				if call == ssa.CallInstruction(parse) || !rs.Has(call) {
					continue
				}
				for ai, a := range call.Common().Args {
					if !carries(a) {
						continue
					}
					if isBigMethod(call) {
						bad = core.CalleeName(call) + " at " + c.P.Pos(call.Pos()) + " is applied to it"
					} else if h := core.StaticCallee(call); h != nil && c.P.InModule(h) {
						if w := unguardedDeref(h, ai, 0); w != "" {
							bad = "it is handed to " + shortFn(h) + " at " + c.P.Pos(call.Pos()) + "; " + w
						}
					}
				}
			}
			r.Check(bad == "", "R08.4", key, c.P.Pos(parse.Pos()), "the value is used behind the ok result / a nil test, or only by code that tests it for nil",
				"the result of big.Int.SetString on transaction data is nil when the text is not a number (\"1e3\", \"0x10\", empty); here it can reach a use without crossing the ok result or a nil test: "+bad+": the nil dereference happens outside any recover and stops the executor on every node")
		}
	}
	r.Floor("R08.4", "numbers parsed from transaction data in the executor", n, 1)
}
