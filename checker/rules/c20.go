package rules

import (
	"fmt"
	"go/token"
	"sort"
	"strings"

	"bxhlint/core"

	"golang.org/x/tools/go/ssa"
)

func init() { Props["C20"] = C20 }

var unsafePoolMethods = map[string]bool{"GetTransaction": true, "ProcessTransactions": true, "GenerateBlock": true, "CommitTransactions": true,
	"RemoveAliveTimeoutTxs": true, "GetTimeoutTransactions": true, "HasPendingRequest": true, "SetBatchSeqNo": true}

// lastExecPlusOneEdges: edges on which some value is known equal to <x>.lastExec + 1.
func lastExecPlusOneEdges(fn *ssa.Function) core.EdgeSet {
	isNext := func(v ssa.Value) bool {
		bo, ok := core.Strip(v).(*ssa.BinOp)
		if !ok || bo.Op != token.ADD {
			return false
		}
		one, ok := core.ConstInt(bo.Y)
		return ok && one == 1 && core.Mentions(bo.X, fieldNamed("lastExec"))
	}
	return condEdges(fn, func(f core.Fact, ifi *ssa.If) (bool, int) {
		if f.Kind != core.FCmp || (f.Op != token.EQL && f.Op != token.NEQ) {
			return false, 0
		}
		if isNext(f.Subject) || isNext(f.Other) {
			return true, holdsEdge(f)
		}
		return false, 0
	})
}

func isLastExecUpdate(in ssa.Instruction) bool {
	if storesToField("Node", "lastExec")(in) {
		return true
	}
	call, ok := in.(ssa.CallInstruction)
	return ok && strings.HasSuffix(core.CalleeName(call), ".setLastExec")
}

// C20: ordering delivers each height once, in order.
func C20(c *Ctx) {
	r := c.R
	r.Rule("R20.1", "delivery guard: every send of a commit event on commitC (raft mint via publishEntries, raft snapshot recovery, solo proposal loop) lies behind the edge height == lastExec+1 and is followed, before the next possible send, by the update of lastExec.")
	r.Rule("R20.2", "skip rule: in publishEntries a block is minted only when the recorded applied index is below the entry's index; the durable applied index is written only by reportState, which is reachable only from the stateC receive of the raft main loop (after the executor reported the block persisted).")
	r.Rule("R20.3", "leader reset: on justElected the mempool's batch sequence number is reset to lastExec in the Ready handling; every batch-generation site of the raft node is behind an isLeader() test; the pool's SetBatchSeqNo takes over its argument on every path (also a lower one).")
	r.Rule("R20.4", "applied-index value: the index persisted by reportState is the one looked up in blockAppliedIndex under the reported state's height, and publishEntries records (batch height -> index of the entry that carried it).")
	r.Rule("R20.5", "pool confinement: the transaction pool's unsynchronised methods (GetTransaction, ProcessTransactions, GenerateBlock, CommitTransactions, ...) are called from exactly one goroutine root per ordering node (the main event loop).")
	r.Rule("R20.7", "the snapshot names the log position it is paired with: the payload handed to TakeSnapshot(appliedIndex, ..) carries the height minted from the entries up to that index (n.lastExec), set in getSnapshot from that field and from nothing the executor or the ledger reports - their height lags behind the minted height under load, and a follower restored from such a snapshot would re-mint heights it already has or skip blocks.")
	r.Rule("R20.10", "a snapshot covers only what the executor has persisted: lastExec / appliedIndex advance when a block is handed to the executor, not when it is durable; the raft log below a snapshot is never replayed after a restart, so the position handed to TakeSnapshot in maybeTriggerSnapshot is bounded by state that reportState (the executor's acknowledgement) maintains - it derives from a Node field assigned on the reportState path, or the call lies behind a comparison with such a field. Otherwise a crash between minting the snapshot height and persisting it loses those blocks for ever (the entries are below the snapshot; every later entry is dropped as Height != lastExec+1).")
	c.c20SnapshotBound()
	c.c20SeqBase()
	c.c20LastExecOwner()
	r.Rule("R20.8", "state sync delivers every height: in StateSyncer.SyncCFTBlocks a range whose fetch failed is not skipped - the retry of the fetch is unbounded (no strategy.Limit), or the error after the retry ends the sync with an error instead of being logged while the loop goes on to the next range; a skipped range is a gap in the heights handed to the executor.")
	r.Rule("R20.9", batchedMarkText)
	c.batchedMarks("R20.9")
	r.Rule("R20.6", "commit notifications: every chain-state report received by an ordering node reaches mempool.CommitTransactions on every path (raft reportState and the solo loop agree).")
	r.NotDecided = append(r.NotDecided, "Raft safety (dependency), message faults and crash points, identical content across replicas, the arithmetic of sync ranges (calcRangeHeight), whether generated batches can be nil (value-level)")

	type sendSite struct {
		fn *ssa.Function
		in *ssa.Send
	}
	var sends []sendSite
	for _, fn := range c.P.ModuleFuncs(true) {
		pk := core.PkgOf(fn)
		if pk != "pkg/order/etcdraft" && pk != "pkg/order/solo" {
			continue
		}
		for _, b := range fn.Blocks {
			for _, in := range b.Instrs {
				if sd, ok := in.(*ssa.Send); ok && core.Mentions(sd.Chan, fieldNamed("commitC")) && !core.IsNilConst(sd.X) {
					sends = append(sends, sendSite{fn, sd})
				}
			}
		}
	}
	r.Floor("R20.1", "commit event sends", len(sends), 3)
	for _, s := range sends {
		key := core.PkgOf(s.fn)[strings.LastIndex(core.PkgOf(s.fn), "/")+1:] + "." + shortFn(s.fn)
		pos := c.P.Pos(s.in.Pos())
		fn := s.fn
		var site ssa.Instruction = s.in
		es := lastExecPlusOneEdges(fn)
		rs := core.Reach([]core.Point{core.EntryOf(fn)}, nil, core.CutOf(es))
		guarded := es.Len() > 0 && !rs.Has(site)
		updated := followsAll(fn, func(in ssa.Instruction) bool { return in == site }, isLastExecUpdate, false)
		if !guarded || !updated {
			// lift to the callers of a pure sender helper (mint)
			top := fn
			for top.Parent() != nil {
				top = top.Parent()
			}
			liftedOK, n := true, 0
			for _, caller := range c.P.ModuleFuncs(true) {
				for _, call := range core.Calls(caller) {
					if core.StaticCallee(call) != top || fn != top {
						continue
					}
					n++
					ces := lastExecPlusOneEdges(caller)
					crs := core.Reach([]core.Point{core.EntryOf(caller)}, nil, core.CutOf(ces))
					// each half may be established inside the helper or at the call site
					g := guarded || ces.Len() > 0 && !crs.Has(call)
					u := updated || followsInIteration(caller, call, isLastExecUpdate)
					if !g || !u {
						liftedOK = false
						r.Bad("R20.1", key+" via "+shortFn(caller), c.P.Pos(call.Pos()), fmt.Sprintf("a block is delivered to the executor without the height == lastExec+1 test (guarded=%v) or without advancing lastExec before the next delivery (updated=%v)", g, u))
					}
				}
			}
			if n > 0 && liftedOK {
				r.OK("R20.1", key, pos, fmt.Sprintf("sender helper: all %d call site(s) lie behind height == lastExec+1 and advance lastExec", n))
				continue
			}
			if n > 0 {
				continue
			}
			r.Bad("R20.1", key, pos, fmt.Sprintf("a block is delivered to the executor without the height == lastExec+1 test (guarded=%v) or without advancing lastExec afterwards (updated=%v)", guarded, updated))
			continue
		}
		r.OK("R20.1", key, pos, "send lies behind height == lastExec+1 and lastExec is advanced on every path after it")
	}

	// R20.2
	if pe := c.fn("R20.2", "pkg/order/etcdraft.(*Node).publishEntries"); pe != nil {
		skipPick := func(f core.Fact, ifi *ssa.If) (bool, int) {
			bo, ok := ifi.Cond.(*ssa.BinOp)
			if !ok {
				return false, 0
			}
			isApplied := func(v ssa.Value) bool {
				cc, ok := core.Strip(v).(*ssa.Call)
				return ok && strings.HasSuffix(core.CalleeName(cc), ".getBlockAppliedIndex")
			}
			isIdx := func(v ssa.Value) bool { _, fld, _, ok := core.FieldOf(v); return ok && fld == "Index" }
			switch {
			case bo.Op == token.GEQ && isApplied(bo.X) && isIdx(bo.Y):
				return true, 1
			case bo.Op == token.LSS && isApplied(bo.X) && isIdx(bo.Y):
				return true, 0
			case bo.Op == token.LEQ && isIdx(bo.X) && isApplied(bo.Y):
				return true, 1
			case bo.Op == token.GTR && isIdx(bo.X) && isApplied(bo.Y):
				return true, 0
			}
			return false, 0
		}
		n := c.behindEdgesDeep("R20.2", "publishEntries", pe, skipPick, func(in ssa.Instruction) bool {
			call, ok := in.(ssa.CallInstruction)
			return ok && strings.HasSuffix(core.CalleeName(call), ".mint")
		}, "recorded applied index < entry index", "mint")
		r.Floor("R20.2", "mint calls", n, 1)
	}
	// writeAppliedIndex callers
	{
		var callers []string
		for _, fn := range c.P.ModuleFuncs(true) {
			for _, call := range core.Calls(fn) {
				if strings.HasSuffix(core.CalleeName(call), "etcdraft.Node).writeAppliedIndex") {
					callers = append(callers, shortFn(fn))
				}
			}
		}
		sort.Strings(callers)
		ok := len(callers) == 1 && strings.HasSuffix(callers[0], ".reportState")
		r.Check(ok, "R20.2", "writeAppliedIndex only from reportState", "", "callers: "+strings.Join(callers, ","), "the durable applied index is written outside reportState ("+strings.Join(callers, ",")+"): an entry can be recorded as applied before the executor persisted its block, and is then skipped after a restart")
		var rcallers []string
		fromStateC := false
		for _, fn := range c.P.ModuleFuncs(true) {
			for _, call := range core.Calls(fn) {
				if strings.HasSuffix(core.CalleeName(call), "etcdraft.Node).reportState") {
					rcallers = append(rcallers, shortFn(fn))
					// the argument is received from stateC
					if core.Mentions(call.Common().Args[1], func(v ssa.Value) bool {
						switch x := v.(type) {
						case *ssa.UnOp:
							return x.Op == token.ARROW && core.Mentions(x.X, fieldNamed("stateC"))
						case *ssa.Select:
							for _, st := range x.States {
								if core.Mentions(st.Chan, fieldNamed("stateC")) {
									return true
								}
							}
						}
						return false
					}) {
						fromStateC = true
					}
				}
			}
		}
		r.Check(len(rcallers) == 1 && fromStateC, "R20.2", "reportState only from the stateC receive", "", "caller: "+strings.Join(rcallers, ","), "reportState is called without a state received from the executor ("+strings.Join(rcallers, ",")+")")
	}

	// R20.3
	if lr := c.fn("R20.3", "pkg/order/etcdraft.(*Node).listenRaftMsg"); lr != nil {
		jeEdges := func(fn *ssa.Function) core.EdgeSet {
			return condEdges(fn, func(f core.Fact, ifi *ssa.If) (bool, int) {
				if f.Kind == core.FBool && f.Field == "justElected" {
					return true, holdsEdge(f)
				}
				return false, 0
			})
		}
		isReset := func(in ssa.Instruction) bool {
			call, ok := in.(ssa.CallInstruction)
			if !ok || core.CalleeObj(call) == nil || core.CalleeObj(call).Name() != "SetBatchSeqNo" {
				return false
			}
			return core.Mentions(core.Arg(call, 0), fieldNamed("lastExec"))
		}
		_ = jeEdges
		n := c.behindEdgesDeep("R20.3", "listenRaftMsg", lr, func(f core.Fact, ifi *ssa.If) (bool, int) {
			if f.Kind == core.FBool && f.Field == "justElected" {
				return true, holdsEdge(f)
			}
			return false, 0
		}, isReset, "justElected", "SetBatchSeqNo(lastExec)")
		r.Floor("R20.3", "leader reset sites", n, 1)
	}
	// the reset is effective: SetBatchSeqNo stores its argument on every path (a lower value too - a re-elected
	// leader resets to lastExec, which is below the number its dropped batches had reached)
	if sb := c.fn("R20.3", "pkg/order/mempool.(*mempoolImpl).SetBatchSeqNo"); sb != nil && len(sb.Params) >= 2 {
		arg := sb.Params[1]
		isSet := func(in ssa.Instruction) bool {
			st, ok := in.(*ssa.Store)
			if !ok {
				return false
			}
			_, f, _, okf := core.FieldOf(st.Addr)
			return okf && f == "batchSeqNo" && core.Strip(st.Val) == ssa.Value(arg)
		}
		rs := core.Reach([]core.Point{core.EntryOf(sb)}, isSet, nil)
		skipped := false
		for _, ret := range core.Returns(sb) {
			if rs.Has(ret) {
				skipped = true
			}
		}
		r.Check(!skipped && len(sites(sb, isSet)) > 0, "R20.3", "SetBatchSeqNo assigns its argument on every path", c.P.Pos(sb.Pos()), "batchSeqNo = batchSeq unconditionally",
			"SetBatchSeqNo can return without taking over the given number (e.g. it ignores a lower value): the reset of a re-elected leader to lastExec is dropped, its next batch carries a height above lastExec+1 and every replica discards it - ordering stops delivering")
	}
	nGen := 0
	for _, name := range []string{"processBatchTimeout", "processGenerateBlockTimeout", "processTransactions"} {
		fn := c.fn("R20.3", "pkg/order/etcdraft.(*Node)."+name)
		if fn == nil {
			continue
		}
		leader := condEdges(fn, func(f core.Fact, ifi *ssa.If) (bool, int) {
			if f.Kind == core.FBool {
				if call, ok := f.Subject.(*ssa.Call); ok && strings.HasSuffix(core.CalleeName(call), ".isLeader") {
					return true, holdsEdge(f)
				}
			}
			return false, 0
		})
		isGen := func(in ssa.Instruction) bool {
			call, ok := in.(ssa.CallInstruction)
			return ok && strings.HasSuffix(core.CalleeName(call), ".postProposal")
		}
		nGen += c.behindEdges("R20.3", name, fn, leader, isGen, "isLeader()", "proposal of a generated batch")
		usesJE := false
		for _, b := range fn.Blocks {
			for _, in := range b.Instrs {
				if v, ok := in.(ssa.Value); ok && fieldNamed("justElected")(v) {
					usesJE = true
				}
			}
		}
		if !usesJE {
			r.Note("R20.3", name+": does not consult justElected", c.P.Pos(fn.Pos()), "a just-elected leader with in-flight entries may generate batches; their heights are rejected by the height == lastExec+1 test")
		}
	}
	r.Floor("R20.3", "batch proposal sites", nGen, 3)

	// R20.5 confinement
	for _, pk := range []string{"pkg/order/etcdraft", "pkg/order/solo"} {
		var fns []*ssa.Function
		for _, fn := range c.P.ModuleFuncs(true) {
			if core.PkgOf(fn) == pk {
				fns = append(fns, fn)
			}
		}
		callersOf := map[*ssa.Function][]*ssa.Function{}
		goStarted := map[*ssa.Function]bool{}
		for _, fn := range fns {
			for _, call := range core.Calls(fn) {
				g := core.StaticCallee(call)
				if g == nil {
					continue
				}
				if _, isGo := call.(*ssa.Go); isGo {
					goStarted[g] = true
					continue
				}
				callersOf[g] = append(callersOf[g], fn)
			}
		}
		roots := map[string][]string{}
		nCalls := 0
		for _, fn := range fns {
			for _, call := range core.Calls(fn) {
				o := core.CalleeObj(call)
				if o == nil || !unsafePoolMethods[o.Name()] || !strings.Contains(core.CalleeName(call), "pkg/order/mempool.") {
					continue
				}
				nCalls++
				seen := map[*ssa.Function]bool{}
				var up func(f *ssa.Function)
				up = func(f *ssa.Function) {
					if seen[f] {
						return
					}
					seen[f] = true
					if goStarted[f] {
						roots["go "+shortFn(f)] = append(roots["go "+shortFn(f)], o.Name())
						return
					}
					cs := callersOf[f]
					if f.Parent() != nil && len(cs) == 0 {
						// closure invoked inline by its parent (not via go): belongs to the parent
						up(f.Parent())
						return
					}
					if len(cs) == 0 {
						roots[shortFn(f)] = append(roots[shortFn(f)], o.Name())
						return
					}
					for _, g := range cs {
						up(g)
					}
				}
				up(fn)
			}
		}
		var names []string
		for k, v := range roots {
			sort.Strings(v)
			names = append(names, k+"{"+strings.Join(dedup(v), ",")+"}")
		}
		sort.Strings(names)
		short := pk[strings.LastIndex(pk, "/")+1:]
		r.Floor("R20.5", short+": unsynchronised pool calls", nCalls, 5)
		// constructor-time calls (Start / NewNode) happen before the loops run
		loopRoots := 0
		for k := range roots {
			if !strings.HasSuffix(k, ".Start") && !strings.Contains(k, "NewNode") {
				loopRoots++
			}
		}
		r.Check(loopRoots == 1, "R20.5", short+": one goroutine owns the pool", "", "roots: "+strings.Join(names, " | "),
			"the unsynchronised transaction pool is used from "+fmt.Sprint(loopRoots)+" goroutine roots ("+strings.Join(names, " | ")+"): concurrent map access between them (Go aborts the process on a concurrent map read and write)")
	}

	// R20.6 commit notification
	if rsf := c.fn("R20.6", "pkg/order/etcdraft.(*Node).reportState"); rsf != nil {
		isCommitCall := func(in ssa.Instruction) bool {
			call, ok := in.(ssa.CallInstruction)
			return ok && core.CalleeObj(call) != nil && core.CalleeObj(call).Name() == "CommitTransactions"
		}
		// also a helper of the node that commits on every one of its paths (the stateC case extracted into a method)
		isCommit := func(in ssa.Instruction) bool {
			if isCommitCall(in) {
				return true
			}
			call, ok := in.(ssa.CallInstruction)
			if !ok {
				return false
			}
			h := core.StaticCallee(call)
			if h == nil || len(h.Blocks) == 0 || core.PkgOf(h) != core.PkgOf(in.Parent()) || h.Parent() != nil {
				return false
			}
			if len(sites(h, isCommitCall)) == 0 {
				return false
			}
			rs := core.Reach([]core.Point{core.EntryOf(h)}, isCommitCall, nil)
			for _, ret := range core.Returns(h) {
				if rs.Has(ret) {
					return false
				}
			}
			return true
		}
		rs := core.Reach([]core.Point{core.EntryOf(rsf)}, isCommit, nil)
		var bad *ssa.Return
		for _, ret := range core.Returns(rsf) {
			if rs.Has(ret) {
				bad = ret
			}
		}
		if len(sites(rsf, isCommit)) == 0 {
			r.Bad("R20.6", "etcdraft.reportState: commits to the pool", c.P.Pos(rsf.Pos()), "the raft node does not forward chain-state reports to the pool")
		} else if bad != nil {
			r.Bad("R20.6", "etcdraft.reportState: commits to the pool", c.P.Pos(bad.Pos()), "reportState can return (line "+c.P.Pos(bad.Pos())+") without CommitTransactions(state): the transactions of a block that was executed without a recorded raft entry (state sync after a snapshot) stay in the pool and are proposed again when this replica leads; path: "+rs.Witness(c.P, bad))
		} else {
			r.OK("R20.6", "etcdraft.reportState: commits to the pool", c.P.Pos(rsf.Pos()), "every path of reportState passes CommitTransactions(state)")
		}
		// R20.4: the persisted index is the one recorded for the reported height
		n4 := 0
		for _, call := range core.Calls(rsf) {
			if !strings.HasSuffix(core.CalleeName(call), ".writeAppliedIndex") {
				continue
			}
			n4++
			arg := core.Arg(call, 0)
			fromLoad := core.Mentions(arg, func(v ssa.Value) bool {
				cc, ok := v.(*ssa.Call)
				if !ok || core.CalleeName(cc) != "(*sync.Map).Load" || !core.Mentions(cc.Call.Args[0], fieldNamed("blockAppliedIndex")) {
					return false
				}
				return core.Mentions(cc.Call.Args[1], func(w ssa.Value) bool {
					_, fld, base, ok := core.FieldOf(w)
					return ok && fld == "Height" && len(rsf.Params) > 1 && core.Strip(base) == ssa.Value(rsf.Params[1])
				})
			})
			r.Check(fromLoad, "R20.4", "reportState: persisted index = blockAppliedIndex[state.Height]", c.P.Pos(call.Pos()), "writeAppliedIndex(blockAppliedIndex.Load(state.Height))",
				"the applied index written to the order DB is not the raft index recorded for the reported (persisted) height: if it is the index of a later, not yet executed block, a restart skips that block's log entry (publishEntries treats it as applied) and the block is never delivered")
		}
		r.Floor("R20.4", "durable applied-index writes in reportState", n4, 1)
		// and the recorded pair is (minted height, entry index)
		if pe := c.fn("R20.4", "pkg/order/etcdraft.(*Node).publishEntries"); pe != nil {
			n := 0
			var peCalls []ssa.CallInstruction
			for _, rf := range c.regionOf(pe, 2) {
				peCalls = append(peCalls, core.Calls(rf.fn)...)
			}
			for _, call := range peCalls {
				if core.CalleeName(call) != "(*sync.Map).Store" || !core.Mentions(call.Common().Args[0], fieldNamed("blockAppliedIndex")) {
					continue
				}
				n++
				k, v := call.Common().Args[1], call.Common().Args[2]
				okK := core.Mentions(k, func(w ssa.Value) bool { _, fld, _, ok := core.FieldOf(w); return ok && fld == "Height" })
				okV := core.Mentions(v, func(w ssa.Value) bool { _, fld, _, ok := core.FieldOf(w); return ok && fld == "Index" })
				r.Check(okK && okV, "R20.4", "publishEntries: records (batch height -> entry index)", c.P.Pos(call.Pos()), "blockAppliedIndex.Store(requestBatch.Height, ents[i].Index)", "the height -> raft index table is filled with something else than (minted height, its entry's index)")
			}
			r.Floor("R20.4", "applied-index table writes in publishEntries", n, 1)
		}
	}
	if sl := c.fn("R20.6", "pkg/order/solo.(*Node).listenReadyBlock"); sl != nil {
		isCommitCall := func(in ssa.Instruction) bool {
			call, ok := in.(ssa.CallInstruction)
			return ok && core.CalleeObj(call) != nil && core.CalleeObj(call).Name() == "CommitTransactions"
		}
		// also a helper of the node that commits on every one of its paths (the stateC case extracted into a method)
		isCommit := func(in ssa.Instruction) bool {
			if isCommitCall(in) {
				return true
			}
			call, ok := in.(ssa.CallInstruction)
			if !ok {
				return false
			}
			h := core.StaticCallee(call)
			if h == nil || len(h.Blocks) == 0 || core.PkgOf(h) != core.PkgOf(sl) || h.Parent() != nil || len(sites(h, isCommitCall)) == 0 {
				return false
			}
			rs := core.Reach([]core.Point{core.EntryOf(h)}, isCommitCall, nil)
			for _, ret := range core.Returns(h) {
				if rs.Has(ret) {
					return false
				}
			}
			return true
		}
		// from the stateC receive (select case) every path back to the loop head passes CommitTransactions
		ok := false
		for _, in := range sites(sl, isCommit) {
			call := in.(ssa.CallInstruction)
			stateVal := core.Arg(call, 0)
			// the block where the received state is first used: the select-case body; walk up to the block that extracts it
			var caseBlock *ssa.BasicBlock
			for b := in.Block(); b != nil; b = b.Idom() {
				caseBlock = b
				if strings.HasPrefix(b.Comment, "select.body") {
					break
				}
			}
			if caseBlock == nil {
				continue
			}
			rs := core.Reach([]core.Point{{B: caseBlock, Idx: 0}}, isCommit, nil)
			skipped := false
			for _, blk := range sl.Blocks {
				if strings.HasSuffix(blk.Comment, "for.body") || strings.HasSuffix(blk.Comment, "for.loop") {
					if blk.Dominates(caseBlock) && len(blk.Instrs) > 0 && rs.Has(blk.Instrs[0]) {
						skipped = true
					}
				}
			}
			_ = stateVal
			ok = !skipped
		}
		r.Check(ok, "R20.6", "solo: every state report commits to the pool", c.P.Pos(sl.Pos()), "CommitTransactions(state) on every path of the stateC case", "the solo node forwards a chain-state report to the pool only on some paths (e.g. only for heights divisible by 10): committed transactions stay in the pool, are reported as pending and fill it up")
	}
	c.c20Snapshot()
	c.c20SyncRanges()
}

func dedup(in []string) []string {
	var out []string
	for i, s := range in {
		if i == 0 || s != in[i-1] {
			out = append(out, s)
		}
	}
	return out
}

// followsInIteration: after `call`, every path to the next loop head or a
// return passes an instruction satisfying isB.
func followsInIteration(fn *ssa.Function, call ssa.Instruction, isB InstrPred) bool {
	rs := core.Reach([]core.Point{core.After(call)}, func(in ssa.Instruction) bool { return isB(in) }, nil)
	for _, ret := range core.Returns(fn) {
		if rs.Has(ret) {
			return false
		}
	}
	// reaching the call itself again (next iteration) without passing B
	return !rs.Has(call)
}

// c20Snapshot: R20.7.
func (c *Ctx) c20Snapshot() {
	r := c.R
	gs := c.fn("R20.7", "pkg/order/etcdraft.(*Node).getSnapshot")
	if gs == nil {
		return
	}
	n := 0
	for _, call := range core.Calls(gs) {
		o := core.CalleeObj(call)
		if o == nil || o.Name() != "Marshal" {
			continue
		}
		n++
		recv := core.Receiver(call)
		root := rootObject(recv)
		al, isLocal := root.(*ssa.Alloc)
		if !isLocal {
			r.Bad("R20.7", "getSnapshot: payload height is the minted height", c.P.Pos(call.Pos()), "the snapshot payload is not built in getSnapshot from the node's own fields (it is obtained from "+root.String()+"): a chain meta reported by the executor / ledger lags behind the height minted up to appliedIndex")
			continue
		}
		okH, other := false, ""
		for _, b := range gs.Blocks {
			for _, in := range b.Instrs {
				st, isSt := in.(*ssa.Store)
				if !isSt {
					continue
				}
				if st.Addr == ssa.Value(al) {
					// whole-value store: the struct comes from somewhere else
					if cc, _ := core.CallOf(st.Val); cc != nil {
						other = "the chain meta is the result of " + shortCallee(cc)
					}
					continue
				}
				if _, f, base, ok := core.FieldOf(st.Addr); ok && core.Strip(base) == ssa.Value(al) && f == "Height" {
					if core.Mentions(st.Val, fieldLoad("Node", "lastExec")) {
						okH = true
					} else {
						other = "Height is set from something other than n.lastExec"
					}
				}
			}
		}
		r.Check(okH && other == "", "R20.7", "getSnapshot: payload height is the minted height", c.P.Pos(call.Pos()), "ChainMeta{Height: n.lastExec}", "the height in the raft snapshot is not the height minted up to appliedIndex ("+other+"): it is paired with appliedIndex in TakeSnapshot, so a follower installed from it resumes from the wrong height")
	}
	r.Floor("R20.7", "snapshot payloads", n, 1)
}

// c20SyncRanges: R20.8.
func (c *Ctx) c20SyncRanges() {
	r := c.R
	fn := c.fn("R20.8", "pkg/order/syncer.(*StateSyncer).SyncCFTBlocks")
	if fn == nil {
		return
	}
	n := 0
	top := fn
	type rcall struct {
		f    *ssa.Function
		call ssa.CallInstruction
	}
	var rcalls []rcall
	for _, rf := range c.regionOf(top, 2) {
		for _, call := range core.Calls(rf.fn) {
			rcalls = append(rcalls, rcall{rf.fn, call})
		}
	}
	for _, rc := range rcalls {
		call, fn := rc.call, rc.f
		cl, ok := call.(*ssa.Call)
		if !ok || !strings.HasSuffix(core.CalleeName(call), "retry.Retry") {
			continue
		}
		n++
		limited := false
		for _, a := range call.Common().Args {
			if core.Mentions(a, func(v ssa.Value) bool {
				cc, ok := v.(*ssa.Call)
				return ok && strings.HasSuffix(core.CalleeName(cc), "strategy.Limit")
			}) {
				limited = true
			}
		}
		key := fmt.Sprintf("SyncCFTBlocks: fetch of a range #%d cannot be skipped", n)
		if !limited {
			r.OK("R20.8", key, c.P.Pos(call.Pos()), "the retry has no Limit strategy: it ends only when the range was fetched")
			continue
		}
		// bounded retry: the failure edge must end the function with an error
		okEdges := core.EdgeSet{}
		for b, m := range core.SuccessEdges(fn, []core.GuardSite{{Call: cl, Conv: core.ConvErrNil, Idx: -1}}) {
			for i := range m {
				okEdges.Add(b, i)
			}
		}
		rs := core.Reach([]core.Point{core.After(cl)}, nil, core.CutOf(okEdges))
		bad := okEdges.Len() == 0
		for _, ret := range core.Returns(fn) {
			if rs.Has(ret) && core.MayBeSuccess(fn, ret, 0, core.ConvErrNil) {
				bad = true
			}
		}
		// reaching the next retry (the loop) on the failure edge is skipping, too
		if rs.Has(cl) {
			bad = true
		}
		r.Check(!bad, "R20.8", key, c.P.Pos(call.Pos()), "bounded retry whose failure ends the sync with an error",
			"the fetch of a block range is retried a bounded number of times and its failure is only logged: the loop goes on with the next range and the sync reports success - the heights of the failed range are never delivered to the executor, which then waits for ever for the next height (or the node serves a chain with a gap)")
	}
	r.Floor("R20.8", "range fetches in SyncCFTBlocks", n, 1)
}

// c20SnapshotBound: R20.10.
func (c *Ctx) c20SnapshotBound() {
	r := c.R
	mt := c.fn("R20.10", "pkg/order/etcdraft.(*Node).maybeTriggerSnapshot")
	rs := c.fn("R20.10", "pkg/order/etcdraft.(*Node).reportState")
	if mt == nil || rs == nil {
		return
	}
	acked := map[string]bool{}
	for _, rf := range c.regionOf(rs, 2) {
		for _, b := range rf.fn.Blocks {
			for _, in := range b.Instrs {
				if st, ok := in.(*ssa.Store); ok {
					if o, f, _, ok := core.FieldOf(st.Addr); ok && strings.HasSuffix(o, "etcdraft.Node") {
						acked[f] = true
					}
				}
			}
		}
	}
	mentionsAcked := func(v ssa.Value) bool {
		return core.Mentions(v, func(w ssa.Value) bool {
			o, f, _, ok := core.FieldOf(w)
			return ok && strings.HasSuffix(o, "etcdraft.Node") && acked[f]
		})
	}
	n := 0
	for _, rf := range c.regionOf(mt, 1) {
		for _, call := range core.Calls(rf.fn) {
			if !strings.HasSuffix(core.CalleeName(call), "RaftStorage).TakeSnapshot") || len(call.Common().Args) < 2 {
				continue
			}
			n++
			idx := call.Common().Args[1]
			ok := mentionsAcked(idx)
			if !ok {
				bounded := condEdges(rf.fn, func(f core.Fact, ifi *ssa.If) (bool, int) {
					if mentionsAcked(ifi.Cond) {
						return true, 0
					}
					return false, 0
				})
				both := core.EdgeSet{}
				for b, mm := range bounded {
					_ = mm
					both.Add(b, 0)
					both.Add(b, 1)
				}
				if both.Len() > 0 {
					reach := core.Reach([]core.Point{core.EntryOf(rf.fn)}, nil, core.CutOf(both))
					ok = !reach.Has(call)
				}
			}
			key := "maybeTriggerSnapshot: snapshot position bounded by what the executor acknowledged"
			r.Check(ok, "R20.10", key, c.P.Pos(call.Pos()), "the index derives from / is compared with state maintained by reportState",
				"TakeSnapshot(appliedIndex, ..) is called for a position the executor may not have persisted yet (appliedIndex and lastExec advance when a block is put on the commit channel): kill the process after the snapshot and before the executor persists its height - the restart opens the log at the snapshot, never replays the missing blocks and drops every later entry (Height != lastExec+1); a single replica loses the blocks, a replica of a larger cluster stalls for ever")
		}
	}
	r.Floor("R20.10", "TakeSnapshot calls on the snapshot trigger path", n, 1)
}
