package rules

import (
	"fmt"
	"go/token"
	"go/types"
	"strings"

	"bxhlint/core"

	"golang.org/x/tools/go/ssa"
)

// InstrPred selects instructions.
type InstrPred func(ssa.Instruction) bool

// fn resolves an anchor or records an unresolved-anchor failure.
func (c *Ctx) fn(rule, spec string) *ssa.Function {
	f := c.P.Fn(spec)
	if f == nil || f.Blocks == nil {
		c.R.Anchor(rule, spec)
		return nil
	}
	return f
}

// callTo: instruction is a call whose canonical callee name is one of names.
func callTo(names ...string) InstrPred {
	return func(in ssa.Instruction) bool {
		c, ok := in.(ssa.CallInstruction)
		return ok && core.NameIs(c, names...)
	}
}

// callToMethod: instruction calls a method with this name (any receiver).
func callToMethod(name string) InstrPred {
	return func(in ssa.Instruction) bool {
		c, ok := in.(ssa.CallInstruction)
		if !ok {
			return false
		}
		o := core.CalleeObj(c)
		return o != nil && o.Name() == name && o.Type().(*types.Signature).Recv() != nil
	}
}

// callReaching: instruction is a static call to fn or to a module function
// from which fn is reachable through static calls (helper lifting, bounded).
func (c *Ctx) callReaching(targets ...*ssa.Function) InstrPred {
	tset := map[*ssa.Function]bool{}
	for _, t := range targets {
		if t != nil {
			tset[t] = true
		}
	}
	memo := map[*ssa.Function]bool{}
	var reaches func(f *ssa.Function, d int) bool
	reaches = func(f *ssa.Function, d int) bool {
		if f == nil {
			return false
		}
		if tset[f] {
			return true
		}
		if v, ok := memo[f]; ok {
			return v
		}
		memo[f] = false
		if d > 8 || f.Blocks == nil || !c.P.InModule(f) {
			return false
		}
		for _, call := range core.Calls(f) {
			if g := core.StaticCallee(call); g != nil && reaches(g, d+1) {
				memo[f] = true
				return true
			}
		}
		for _, a := range f.AnonFuncs {
			if reaches(a, d+1) {
				memo[f] = true
				return true
			}
		}
		return false
	}
	return func(in ssa.Instruction) bool {
		call, ok := in.(ssa.CallInstruction)
		if !ok {
			return false
		}
		return reaches(core.StaticCallee(call), 0)
	}
}

func or(ps ...InstrPred) InstrPred {
	return func(in ssa.Instruction) bool {
		for _, p := range ps {
			if p(in) {
				return true
			}
		}
		return false
	}
}

// sites lists the instructions of fn satisfying p (in block order).
func sites(fn *ssa.Function, p InstrPred) []ssa.Instruction {
	var out []ssa.Instruction
	for _, b := range fn.Blocks {
		for _, in := range b.Instrs {
			if p(in) {
				out = append(out, in)
			}
		}
	}
	return out
}

// mustPrecede: every path from fn's entry to a B-site passes an A-site.
// Reports one obligation per B-site. Returns the number of B sites.
func (c *Ctx) mustPrecede(rule, key string, fn *ssa.Function, isA, isB InstrPred, aName, bName string) int {
	if fn == nil {
		return 0
	}
	rs := core.Reach([]core.Point{core.EntryOf(fn)}, func(in ssa.Instruction) bool { return isA(in) }, nil)
	bs := sites(fn, isB)
	for _, b := range bs {
		k := fmt.Sprintf("%s: %s before %s", key, aName, bName)
		if rs.Has(b) {
			c.R.Bad(rule, k, c.P.Pos(b.Pos()), fmt.Sprintf("%s at %s is reachable from the entry of %s without passing %s; path (lines): %s", bName, c.P.Pos(b.Pos()), core.FnName(fn), aName, rs.Witness(c.P, b)))
		} else {
			c.R.OK(rule, k, c.P.Pos(b.Pos()), fmt.Sprintf("every path to %s passes %s", bName, aName))
		}
	}
	return len(bs)
}

// mustFollow: every path from an A-site to a normal return of fn passes a
// B-site. One obligation per A-site. Panicking exits do not count.
func (c *Ctx) mustFollow(rule, key string, fn *ssa.Function, isA, isB InstrPred, aName, bName string) int {
	if fn == nil {
		return 0
	}
	as := sites(fn, isA)
	for _, a := range as {
		rs := core.Reach([]core.Point{core.After(a)}, func(in ssa.Instruction) bool { return isB(in) }, nil)
		k := fmt.Sprintf("%s: %s after %s", key, bName, aName)
		var bad *ssa.Return
		for _, r := range core.Returns(fn) {
			if rs.Has(r) {
				bad = r
				break
			}
		}
		if bad != nil {
			c.R.Bad(rule, k, c.P.Pos(a.Pos()), fmt.Sprintf("after %s at %s, %s can return (line %s) without passing %s", aName, c.P.Pos(a.Pos()), core.FnName(fn), c.P.Pos(bad.Pos()), bName))
		} else {
			c.R.OK(rule, k, c.P.Pos(a.Pos()), fmt.Sprintf("every path from %s to a return passes %s", aName, bName))
		}
	}
	return len(as)
}

// behindEdges: every B-site is unreachable once the given edges are cut
// (i.e. lies behind one of the edges). One obligation per B-site.
func (c *Ctx) behindEdges(rule, key string, fn *ssa.Function, es core.EdgeSet, isB InstrPred, edgeName, bName string) int {
	if fn == nil {
		return 0
	}
	rs := core.Reach([]core.Point{core.EntryOf(fn)}, nil, core.CutOf(es))
	bs := sites(fn, isB)
	for _, b := range bs {
		k := fmt.Sprintf("%s: %s behind %s", key, bName, edgeName)
		if es.Len() == 0 {
			c.R.Bad(rule, k, c.P.Pos(b.Pos()), fmt.Sprintf("no %s found in %s", edgeName, core.FnName(fn)))
			continue
		}
		if rs.Has(b) {
			c.R.Bad(rule, k, c.P.Pos(b.Pos()), fmt.Sprintf("%s at %s is reachable in %s without crossing %s; path (lines): %s", bName, c.P.Pos(b.Pos()), core.FnName(fn), edgeName, rs.Witness(c.P, b)))
		} else {
			c.R.OK(rule, k, c.P.Pos(b.Pos()), fmt.Sprintf("%s only reachable across %s (%d edge(s))", bName, edgeName, es.Len()))
		}
	}
	return len(bs)
}

// condEdges collects, over fn's conditionals, the edge selected by pick:
// pick returns (true, edgeIndex) for a conditional whose edge should be in the set.
func condEdges(fn *ssa.Function, pick func(f core.Fact, ifi *ssa.If) (bool, int)) core.EdgeSet {
	es := core.EdgeSet{}
	for _, b := range fn.Blocks {
		ifi := core.IfOf(b)
		if ifi == nil {
			continue
		}
		if ok, i := pick(core.CondFact(ifi.Cond), ifi); ok {
			es.Add(b, i)
		}
	}
	return es
}

// trueEdge / falseEdge of a fact taking negation into account: the edge on
// which the un-negated fact holds.
func holdsEdge(f core.Fact) int {
	if f.Negated {
		return 1
	}
	return 0
}

// fieldLoad: v is a load of field `field` of a struct type named owner ("pkg.T" short form).
func fieldLoad(owner, field string) func(ssa.Value) bool {
	return func(v ssa.Value) bool {
		o, f, _, ok := core.FieldOf(v)
		return ok && f == field && (owner == "" || o == owner || strings.HasSuffix(o, "."+owner))
	}
}

// storesToField: instruction stores to field `field` of owner type.
func storesToField(owner, field string) InstrPred {
	return func(in ssa.Instruction) bool {
		st, ok := in.(*ssa.Store)
		if !ok {
			return false
		}
		fa, ok := st.Addr.(*ssa.FieldAddr)
		if !ok {
			return false
		}
		o, f, _, ok2 := core.FieldOf(fa)
		return ok2 && f == field && (owner == "" || o == owner || strings.HasSuffix(o, "."+owner))
	}
}

// isConstNamed: v is a constant whose type's name is typ and whose value prints as val.
func constInt(v ssa.Value) (int64, bool) { return core.ConstInt(v) }

// cmpFact describes a BinOp comparison for reports.
func cmpString(f core.Fact) string {
	op := f.Op.String()
	if f.Negated {
		switch f.Op {
		case token.EQL:
			op = "!="
		case token.NEQ:
			op = "=="
		}
	}
	return op
}

// enumName resolves an integer constant of a named type to its identifier in
// the type's package (e.g. pb.TransactionStatus 1 -> "TransactionStatus_BEGIN_FAILURE").
func enumName(v ssa.Value) string {
	c, ok := v.(*ssa.Const)
	if !ok || c.Value == nil {
		return ""
	}
	nt, ok := c.Type().(*types.Named)
	if !ok || nt.Obj().Pkg() == nil {
		return ""
	}
	sc := nt.Obj().Pkg().Scope()
	for _, n := range sc.Names() {
		if k, ok := sc.Lookup(n).(*types.Const); ok && types.Identical(k.Type(), nt) && k.Val().ExactString() == c.Value.ExactString() {
			return n
		}
	}
	return ""
}

// precedesAll: every path from entry to each B-site passes an A-site (quiet).
func precedesAll(fn *ssa.Function, isA, isB InstrPred) bool {
	rs := core.Reach([]core.Point{core.EntryOf(fn)}, func(in ssa.Instruction) bool { return isA(in) }, nil)
	for _, b := range sites(fn, isB) {
		if rs.Has(b) {
			return false
		}
	}
	return true
}

// followsAll: every path from each A-site to a return passes a B-site (quiet).
// onlySuccess: only returns whose last result may be a nil error / non-error count.
func followsAll(fn *ssa.Function, isA, isB InstrPred, onlySuccess bool) bool {
	for _, a := range sites(fn, isA) {
		rs := core.Reach([]core.Point{core.After(a)}, func(in ssa.Instruction) bool { return isB(in) }, nil)
		for _, r := range core.Returns(fn) {
			if !rs.Has(r) {
				continue
			}
			if onlySuccess {
				if conv, idx, ok := core.ResultConv(fn.Signature); ok && len(r.Results) > idx && !core.MayBeSuccess(fn, r, idx, conv) {
					continue
				}
			}
			return false
		}
	}
	return true
}

// callReachingAny is callReaching for a slice of targets.
func (c *Ctx) callReachingAny(targets []*ssa.Function) InstrPred { return c.callReaching(targets...) }

// updSite is a map update as seen from an analysed function: either a MapUpdate instruction of the
// function itself, or a call to a module helper that performs the update on its map parameter under a
// key parameter (e.g. appendTxIdAtHeight(m, height, id)). m and k are the values in the analysed
// function (the call's arguments in the second case); inner are the concrete updates.
type updSite struct {
	at      ssa.Instruction
	m, k    ssa.Value
	inner   []*ssa.MapUpdate
	innerFn *ssa.Function
}

func paramIndex(fn *ssa.Function, v ssa.Value) int {
	v = core.Strip(v)
	for i, p := range fn.Params {
		if ssa.Value(p) == v {
			return i
		}
	}
	return -1
}

// mapUpdateSites lists the map updates of fn including those delegated to a helper (one level).
func (c *Ctx) mapUpdateSites(fn *ssa.Function) []updSite {
	var out []updSite
	for _, b := range fn.Blocks {
		for _, in := range b.Instrs {
			switch x := in.(type) {
			case *ssa.MapUpdate:
				out = append(out, updSite{at: in, m: x.Map, k: x.Key, inner: []*ssa.MapUpdate{x}, innerFn: fn})
			case *ssa.Call:
				g := core.StaticCallee(x)
				if g == nil || g == fn || len(g.Blocks) == 0 || !c.P.InModule(g) {
					continue
				}
				// group the helper's updates by (map param, key param)
				type mk struct{ mi, ki int }
				groups := map[mk][]*ssa.MapUpdate{}
				for _, gb := range g.Blocks {
					for _, gin := range gb.Instrs {
						mu, ok := gin.(*ssa.MapUpdate)
						if !ok {
							continue
						}
						mi, ki := paramIndex(g, mu.Map), paramIndex(g, mu.Key)
						if mi < 0 || ki < 0 {
							continue
						}
						groups[mk{mi, ki}] = append(groups[mk{mi, ki}], mu)
					}
				}
				for key, mus := range groups {
					if key.mi < len(x.Call.Args) && key.ki < len(x.Call.Args) {
						out = append(out, updSite{at: in, m: x.Call.Args[key.mi], k: x.Call.Args[key.ki], inner: mus, innerFn: g})
					}
				}
			}
		}
	}
	return out
}

// throughHelpers lifts an instruction predicate over one or two levels of same-module helper calls: the
// result holds for an instruction that satisfies pred itself, or that is a static call to a module
// function (not a closure of another function) whose body contains an instruction for which it holds.
// Use it for predicates that do not depend on the instruction's operands in the caller.
func (c *Ctx) throughHelpers(pred InstrPred) InstrPred {
	memo := map[*ssa.Function]int{}
	var has func(g *ssa.Function, d int) bool
	var lifted func(in ssa.Instruction, d int) bool
	has = func(g *ssa.Function, d int) bool {
		switch memo[g] {
		case 1:
			return true
		case 2, 3:
			return false
		}
		memo[g] = 3
		res := false
		for _, f := range core.WithClosures(g) {
			for _, b := range f.Blocks {
				for _, x := range b.Instrs {
					if lifted(x, d) {
						res = true
					}
				}
			}
		}
		if res {
			memo[g] = 1
		} else {
			memo[g] = 2
		}
		return res
	}
	lifted = func(in ssa.Instruction, d int) bool {
		if pred(in) {
			return true
		}
		call, ok := in.(ssa.CallInstruction)
		if !ok || d >= 2 {
			return false
		}
		g := core.StaticCallee(call)
		if g == nil || len(g.Blocks) == 0 || !c.P.InModule(g) {
			return false
		}
		return has(g, d+1)
	}
	return func(in ssa.Instruction) bool { return lifted(in, 0) }
}
