package rules

import (
	"fmt"
	"go/token"
	"go/types"
	"sort"
	"strings"

	"bxhlint/core"

	"golang.org/x/tools/go/ssa"
)

// InstrPred selects instructions.
type InstrPred func(ssa.Instruction) bool

// fn resolves an anchor or records an unresolved-anchor failure.
func (c *Ctx) fn(rule, spec string) *ssa.Function {
	f := c.P.Fn(spec)
	if f == nil || f.Blocks == nil {
		c.R.Anchor(rule, spec)
		return nil
	}
	return f
}

// callTo: instruction is a call whose canonical callee name is one of names.
func callTo(names ...string) InstrPred {
	return func(in ssa.Instruction) bool {
		c, ok := in.(ssa.CallInstruction)
		return ok && core.NameIs(c, names...)
	}
}

// callToMethod: instruction calls a method with this name (any receiver).
func callToMethod(name string) InstrPred {
	return func(in ssa.Instruction) bool {
		c, ok := in.(ssa.CallInstruction)
		if !ok {
			return false
		}
		o := core.CalleeObj(c)
		return o != nil && o.Name() == name && o.Type().(*types.Signature).Recv() != nil
	}
}

// callReaching: instruction is a static call to fn or to a module function
// from which fn is reachable through static calls (helper lifting, bounded).
func (c *Ctx) callReaching(targets ...*ssa.Function) InstrPred {
	tset := map[*ssa.Function]bool{}
	for _, t := range targets {
		if t != nil {
			tset[t] = true
		}
	}
	memo := map[*ssa.Function]bool{}
	var reaches func(f *ssa.Function, d int) bool
	reaches = func(f *ssa.Function, d int) bool {
		if f == nil {
			return false
		}
		if tset[f] {
			return true
		}
		if v, ok := memo[f]; ok {
			return v
		}
		memo[f] = false
		if d > 8 || f.Blocks == nil || !c.P.InModule(f) {
			return false
		}
		for _, call := range core.Calls(f) {
			if g := core.StaticCallee(call); g != nil && reaches(g, d+1) {
				memo[f] = true
				return true
			}
		}
		for _, a := range f.AnonFuncs {
			if reaches(a, d+1) {
				memo[f] = true
				return true
			}
		}
		return false
	}
	return func(in ssa.Instruction) bool {
		call, ok := in.(ssa.CallInstruction)
		if !ok {
			return false
		}
		return reaches(core.StaticCallee(call), 0)
	}
}

func or(ps ...InstrPred) InstrPred {
	return func(in ssa.Instruction) bool {
		for _, p := range ps {
			if p(in) {
				return true
			}
		}
		return false
	}
}

// sites lists the instructions of fn satisfying p (in block order).
func sites(fn *ssa.Function, p InstrPred) []ssa.Instruction {
	var out []ssa.Instruction
	for _, b := range fn.Blocks {
		for _, in := range b.Instrs {
			if p(in) {
				out = append(out, in)
			}
		}
	}
	return out
}

// mustPrecede: every path from fn's entry to a B-site passes an A-site.
// Reports one obligation per B-site. Returns the number of B sites.
func (c *Ctx) mustPrecede(rule, key string, fn *ssa.Function, isA, isB InstrPred, aName, bName string) int {
	if fn == nil {
		return 0
	}
	rs := core.Reach([]core.Point{core.EntryOf(fn)}, func(in ssa.Instruction) bool { return isA(in) }, nil)
	bs := sites(fn, isB)
	for _, b := range bs {
		k := fmt.Sprintf("%s: %s before %s", key, aName, bName)
		if rs.Has(b) {
			c.R.Bad(rule, k, c.P.Pos(b.Pos()), fmt.Sprintf("%s at %s is reachable from the entry of %s without passing %s; path (lines): %s", bName, c.P.Pos(b.Pos()), core.FnName(fn), aName, rs.Witness(c.P, b)))
		} else {
			c.R.OK(rule, k, c.P.Pos(b.Pos()), fmt.Sprintf("every path to %s passes %s", bName, aName))
		}
	}
	return len(bs)
}

// mustFollow: every path from an A-site to a normal return of fn passes a
// B-site. One obligation per A-site. Panicking exits do not count.
func (c *Ctx) mustFollow(rule, key string, fn *ssa.Function, isA, isB InstrPred, aName, bName string) int {
	if fn == nil {
		return 0
	}
	as := sites(fn, isA)
	for _, a := range as {
		rs := core.Reach([]core.Point{core.After(a)}, func(in ssa.Instruction) bool { return isB(in) }, nil)
		k := fmt.Sprintf("%s: %s after %s", key, bName, aName)
		var bad *ssa.Return
		for _, r := range core.Returns(fn) {
			if rs.Has(r) {
				bad = r
				break
			}
		}
		if bad != nil {
			c.R.Bad(rule, k, c.P.Pos(a.Pos()), fmt.Sprintf("after %s at %s, %s can return (line %s) without passing %s", aName, c.P.Pos(a.Pos()), core.FnName(fn), c.P.Pos(bad.Pos()), bName))
		} else {
			c.R.OK(rule, k, c.P.Pos(a.Pos()), fmt.Sprintf("every path from %s to a return passes %s", aName, bName))
		}
	}
	return len(as)
}

// behindEdges: every B-site is unreachable once the given edges are cut
// (i.e. lies behind one of the edges). One obligation per B-site.
func (c *Ctx) behindEdges(rule, key string, fn *ssa.Function, es core.EdgeSet, isB InstrPred, edgeName, bName string) int {
	if fn == nil {
		return 0
	}
	rs := core.Reach([]core.Point{core.EntryOf(fn)}, nil, core.CutOf(es))
	bs := sites(fn, isB)
	for _, b := range bs {
		k := fmt.Sprintf("%s: %s behind %s", key, bName, edgeName)
		if es.Len() == 0 {
			c.R.Bad(rule, k, c.P.Pos(b.Pos()), fmt.Sprintf("no %s found in %s", edgeName, core.FnName(fn)))
			continue
		}
		if rs.Has(b) {
			c.R.Bad(rule, k, c.P.Pos(b.Pos()), fmt.Sprintf("%s at %s is reachable in %s without crossing %s; path (lines): %s", bName, c.P.Pos(b.Pos()), core.FnName(fn), edgeName, rs.Witness(c.P, b)))
		} else {
			c.R.OK(rule, k, c.P.Pos(b.Pos()), fmt.Sprintf("%s only reachable across %s (%d edge(s))", bName, edgeName, es.Len()))
		}
	}
	return len(bs)
}

// condEdges collects, over fn's conditionals, the edge selected by pick:
// pick returns (true, edgeIndex) for a conditional whose edge should be in the set.
func condEdges(fn *ssa.Function, pick func(f core.Fact, ifi *ssa.If) (bool, int)) core.EdgeSet {
	es := core.EdgeSet{}
	for _, b := range fn.Blocks {
		ifi := core.IfOf(b)
		if ifi == nil {
			continue
		}
		// a materialised chain every operand of which selects the pick's edge on the side the chain does NOT
		// determine: the opposite edge of the If establishes the disjunction of the wanted facts
		// (`ok := s == A || s == B; if !ok { return }`: behind the If one of s == A, s == B holds)
		if edge, parts, isChain := core.LogicalParts(ifi); isChain {
			all := len(parts) > 0
			for _, pt := range parts {
				ok, i := pick(core.CondFact(pt.V), &ssa.If{Cond: pt.V})
				if !ok || (i == 0) == pt.Truth {
					all = false
				}
			}
			if all {
				es.Add(b, 1-edge)
			}
		}
		for n, ef := range core.CondFactsOf(ifi) {
			at := ifi
			if n > 0 {
				at = &ssa.If{Cond: ef.Cond} // operand of a short-circuit condition evaluated as a value
			}
			f := ef.Fact
			if n > 0 {
				f = core.CondFact(ef.Cond) // pick sees the operand as if it were tested by its own If
			}
			ok, i := pick(f, at)
			if !ok {
				continue
			}
			if n == 0 {
				es.Add(b, i)
				continue
			}
			// the operand's own edge i (0: operand true, 1: operand false) corresponds to an edge of this If only
			// on the side the chain determines
			edge, parts, _ := core.LogicalParts(ifi)
			truth := parts[n-1].Truth
			if (i == 0) == truth {
				es.Add(b, edge)
			}
		}
	}
	return es
}

// trueEdge / falseEdge of a fact taking negation into account: the edge on
// which the un-negated fact holds.
func holdsEdge(f core.Fact) int {
	if f.Negated {
		return 1
	}
	return 0
}

// fieldLoad: v is a load of field `field` of a struct type named owner ("pkg.T" short form).
func fieldLoad(owner, field string) func(ssa.Value) bool {
	return func(v ssa.Value) bool {
		o, f, _, ok := core.FieldOf(v)
		return ok && f == field && (owner == "" || o == owner || strings.HasSuffix(o, "."+owner))
	}
}

// storesToField: instruction stores to field `field` of owner type.
func storesToField(owner, field string) InstrPred {
	return func(in ssa.Instruction) bool {
		st, ok := in.(*ssa.Store)
		if !ok {
			return false
		}
		fa, ok := st.Addr.(*ssa.FieldAddr)
		if !ok {
			return false
		}
		o, f, _, ok2 := core.FieldOf(fa)
		return ok2 && f == field && (owner == "" || o == owner || strings.HasSuffix(o, "."+owner))
	}
}

// isConstNamed: v is a constant whose type's name is typ and whose value prints as val.
func constInt(v ssa.Value) (int64, bool) { return core.ConstInt(v) }

// cmpFact describes a BinOp comparison for reports.
func cmpString(f core.Fact) string {
	op := f.Op.String()
	if f.Negated {
		switch f.Op {
		case token.EQL:
			op = "!="
		case token.NEQ:
			op = "=="
		}
	}
	return op
}

// enumName resolves an integer constant of a named type to its identifier in
// the type's package (e.g. pb.TransactionStatus 1 -> "TransactionStatus_BEGIN_FAILURE").
func enumName(v ssa.Value) string {
	c, ok := v.(*ssa.Const)
	if !ok || c.Value == nil {
		return ""
	}
	nt, ok := c.Type().(*types.Named)
	if !ok || nt.Obj().Pkg() == nil {
		return ""
	}
	sc := nt.Obj().Pkg().Scope()
	for _, n := range sc.Names() {
		if k, ok := sc.Lookup(n).(*types.Const); ok && types.Identical(k.Type(), nt) && k.Val().ExactString() == c.Value.ExactString() {
			return n
		}
	}
	return ""
}

// precedesAll: every path from entry to each B-site passes an A-site (quiet).
func precedesAll(fn *ssa.Function, isA, isB InstrPred) bool {
	rs := core.Reach([]core.Point{core.EntryOf(fn)}, func(in ssa.Instruction) bool { return isA(in) }, nil)
	for _, b := range sites(fn, isB) {
		if rs.Has(b) {
			return false
		}
	}
	return true
}

// followsAll: every path from each A-site to a return passes a B-site (quiet).
// onlySuccess: only returns whose last result may be a nil error / non-error count.
func followsAll(fn *ssa.Function, isA, isB InstrPred, onlySuccess bool) bool {
	for _, a := range sites(fn, isA) {
		rs := core.Reach([]core.Point{core.After(a)}, func(in ssa.Instruction) bool { return isB(in) }, nil)
		for _, r := range core.Returns(fn) {
			if !rs.Has(r) {
				continue
			}
			if onlySuccess {
				if conv, idx, ok := core.ResultConv(fn.Signature); ok && len(r.Results) > idx && !core.MayBeSuccess(fn, r, idx, conv) {
					continue
				}
			}
			return false
		}
	}
	return true
}

// callReachingAny is callReaching for a slice of targets.
func (c *Ctx) callReachingAny(targets []*ssa.Function) InstrPred { return c.callReaching(targets...) }

// updSite is a map update as seen from an analysed function: either a MapUpdate instruction of the
// function itself, or a call to a module helper that performs the update on its map parameter under a
// key parameter (e.g. appendTxIdAtHeight(m, height, id)). m and k are the values in the analysed
// function (the call's arguments in the second case); inner are the concrete updates.
type updSite struct {
	at      ssa.Instruction
	m, k    ssa.Value
	inner   []*ssa.MapUpdate
	innerFn *ssa.Function
}

func paramIndex(fn *ssa.Function, v ssa.Value) int {
	v = core.Strip(v)
	for i, p := range fn.Params {
		if ssa.Value(p) == v {
			return i
		}
	}
	return -1
}

// mapUpdateSites lists the map updates of fn including those delegated to a helper (one level).
func (c *Ctx) mapUpdateSites(fn *ssa.Function) []updSite {
	var out []updSite
	for _, b := range fn.Blocks {
		for _, in := range b.Instrs {
			switch x := in.(type) {
			case *ssa.MapUpdate:
				out = append(out, updSite{at: in, m: x.Map, k: x.Key, inner: []*ssa.MapUpdate{x}, innerFn: fn})
			case *ssa.Call:
				g := core.StaticCallee(x)
				if g == nil || g == fn || len(g.Blocks) == 0 || !c.P.InModule(g) {
					continue
				}
				// group the helper's updates by (map param, key param)
				type mk struct{ mi, ki int }
				groups := map[mk][]*ssa.MapUpdate{}
				for _, gb := range g.Blocks {
					for _, gin := range gb.Instrs {
						mu, ok := gin.(*ssa.MapUpdate)
						if !ok {
							continue
						}
						mi, ki := paramIndex(g, mu.Map), paramIndex(g, mu.Key)
						if mi < 0 || ki < 0 {
							continue
						}
						groups[mk{mi, ki}] = append(groups[mk{mi, ki}], mu)
					}
				}
				for key, mus := range groups {
					if key.mi < len(x.Call.Args) && key.ki < len(x.Call.Args) {
						out = append(out, updSite{at: in, m: x.Call.Args[key.mi], k: x.Call.Args[key.ki], inner: mus, innerFn: g})
					}
				}
			}
		}
	}
	return out
}

// throughHelpers lifts an instruction predicate over one or two levels of same-module helper calls: the
// result holds for an instruction that satisfies pred itself, or that is a static call to a module
// function (not a closure of another function) whose body contains an instruction for which it holds.
// Use it for predicates that do not depend on the instruction's operands in the caller.
func (c *Ctx) throughHelpers(pred InstrPred) InstrPred { return c.throughHelpersExcept(pred, nil) }

// throughHelpersExcept is throughHelpers that does not look into the helpers for which stop holds.
func (c *Ctx) throughHelpersExcept(pred InstrPred, stop func(*ssa.Function) bool) InstrPred {
	memo := map[*ssa.Function]int{}
	var has func(g *ssa.Function, d int) bool
	var lifted func(in ssa.Instruction, d int) bool
	has = func(g *ssa.Function, d int) bool {
		switch memo[g] {
		case 1:
			return true
		case 2, 3:
			return false
		}
		memo[g] = 3
		res := false
		for _, f := range core.WithClosures(g) {
			for _, b := range f.Blocks {
				for _, x := range b.Instrs {
					if lifted(x, d) {
						res = true
					}
				}
			}
		}
		if res {
			memo[g] = 1
		} else {
			memo[g] = 2
		}
		return res
	}
	lifted = func(in ssa.Instruction, d int) bool {
		if pred(in) {
			return true
		}
		call, ok := in.(ssa.CallInstruction)
		if !ok || d >= 2 {
			return false
		}
		g := core.StaticCallee(call)
		if g == nil || len(g.Blocks) == 0 || !c.P.InModule(g) || stop != nil && stop(g) {
			return false
		}
		return has(g, d+1)
	}
	return func(in ssa.Instruction) bool { return lifted(in, 0) }
}

const perBlockResetText = "per-block accumulators start empty in every block: the fields of a transaction executor (SerialExecutor: the interchain delivery map, the list of plain transactions) that its Add* methods grow while a block's transactions are applied are re-created on every path through ApplyTransactions before it returns - also for a block without transactions. What survives is attributed to the next block as well: its delivery set and InterchainMeta repeat the previous block's requests, the cumulative interchain count of the chain meta counts them twice, and a node that restarted in between (empty accumulators) computes other metadata than the nodes that ran through."

// perBlockReset emits the shared rule (C02 R02.7, C09 R09.9, C01 R01.7) under the given id.
func (c *Ctx) perBlockReset(rule string) {
	r := c.R
	n := 0
	for _, fn := range c.P.ModuleFuncs(true) {
		if core.PkgOf(fn) != "internal/executor" || fn.Name() != "ApplyTransactions" || fn.Signature.Recv() == nil || len(fn.Blocks) == 0 {
			continue
		}
		recvT := core.RecvTypeName(fn.Params[0].Type())
		// accumulator fields: grown by other methods of the same receiver type (append stored back / map element updated)
		acc := map[string]string{}
		for _, g := range c.P.ModuleFuncs(true) {
			if g == fn || g.Signature.Recv() == nil || len(g.Blocks) == 0 || core.RecvTypeName(g.Params[0].Type()) != recvT {
				continue
			}
			onRecv := func(v ssa.Value) (string, bool) {
				_, f, base, ok := core.FieldOf(v)
				if !ok || core.Strip(base) != ssa.Value(g.Params[0]) {
					return "", false
				}
				return f, true
			}
			for _, b := range g.Blocks {
				for _, in := range b.Instrs {
					switch x := in.(type) {
					case *ssa.Store:
						if f, ok := onRecv(x.Addr); ok {
							if cl, isCall := core.Strip(x.Val).(*ssa.Call); isCall {
								if bn, isB := cl.Call.Value.(*ssa.Builtin); isB && bn.Name() == "append" {
									acc[f] = shortFn(g)
								}
							}
						}
					case *ssa.MapUpdate:
						if f, ok := onRecv(x.Map); ok {
							acc[f] = shortFn(g)
						}
					}
				}
			}
		}
		var fields []string
		for f := range acc {
			fields = append(fields, f)
		}
		sort.Strings(fields)
		for _, f := range fields {
			n++
			field := f
			var resetIn func(h *ssa.Function, d int) func(ssa.Instruction) bool
			mustReset := func(h *ssa.Function, d int) bool {
				if len(h.Blocks) == 0 {
					return false
				}
				rs := core.Reach([]core.Point{core.EntryOf(h)}, resetIn(h, d), nil)
				for _, ret := range core.Returns(h) {
					if rs.Has(ret) {
						return false
					}
				}
				return true
			}
			resetIn = func(h *ssa.Function, d int) func(ssa.Instruction) bool {
				return func(in ssa.Instruction) bool {
					if call, isCall := in.(ssa.CallInstruction); isCall && d < 2 {
						// a helper method of the same object that re-creates the field on all its paths
						if g := core.StaticCallee(call); g != nil && g != h && g.Signature.Recv() != nil && len(call.Common().Args) > 0 &&
							core.Strip(call.Common().Args[0]) == ssa.Value(h.Params[0]) && core.RecvTypeName(g.Params[0].Type()) == recvT {
							return mustReset(g, d+1)
						}
						return false
					}
					st, ok := in.(*ssa.Store)
					if !ok {
						return false
					}
					_, ff, base, ok := core.FieldOf(st.Addr)
					if !ok || ff != field || core.Strip(base) != ssa.Value(h.Params[0]) {
						return false
					}
					switch v := core.Strip(st.Val).(type) {
					case *ssa.MakeMap, *ssa.MakeSlice:
						return true
					case *ssa.Const:
						return v.Value == nil
					case *ssa.Slice:
						// make([]T, 0) of a constant size compiles to a slice of a fresh array
						_, isAlloc := v.X.(*ssa.Alloc)
						return isAlloc
					}
					return false
				}
			}
			rs := core.Reach([]core.Point{core.EntryOf(fn)}, resetIn(fn, 0), nil)
			bad := ""
			for _, ret := range core.Returns(fn) {
				if rs.Has(ret) {
					bad = "return at " + c.P.Pos(ret.Pos()) + " is reachable without re-creating " + recvT + "." + field + " (grown by " + acc[field] + "); path (lines): " + rs.Witness(c.P, ret)
				}
			}
			r.Check(bad == "", rule, shortFn(fn)+": "+field+" re-created on every path", c.P.Pos(fn.Pos()), "every return lies behind a store of a fresh container into "+field, bad+": the entries of the previous block are reported again for this block")
		}
	}
	r.Floor(rule, "per-block accumulator fields of transaction executors", n, 2)
}

// regionOf: fn, its closures, and the helpers of fn's own package that it calls statically (depth levels) - where an
// "extract method" refactoring moves code of an anchored function. via is the call in the parent that leads there.
func (c *Ctx) regionOf(fn *ssa.Function, depth int) []regionFn {
	var out []regionFn
	if fn == nil {
		return nil
	}
	seen := map[*ssa.Function]bool{}
	var walk func(f *ssa.Function, via ssa.CallInstruction, d int)
	walk = func(f *ssa.Function, via ssa.CallInstruction, d int) {
		if seen[f] || len(f.Blocks) == 0 {
			return
		}
		seen[f] = true
		for _, cf := range core.WithClosures(f) {
			out = append(out, regionFn{cf, via})
			if d >= depth {
				continue
			}
			for _, call := range core.Calls(cf) {
				g := core.StaticCallee(call)
				if g == nil || core.PkgOf(g) != core.PkgOf(fn) || !c.P.InModule(g) || g.Parent() != nil {
					continue
				}
				walk(g, call, d+1)
			}
		}
	}
	walk(fn, nil, 0)
	return out
}

// onlyCalledFrom: every static call site of g (an unexported helper) lies in one of the allowed functions or in a
// helper for which the same holds (three levels) - g is then part of the allowed functions' bookkeeping.
func (c *Ctx) onlyCalledFrom(g *ssa.Function, allowed func(*ssa.Function) bool) bool {
	callers := map[*ssa.Function][]*ssa.Function{}
	for _, fn := range c.P.ModuleFuncs(true) {
		if core.PkgOf(fn) != core.PkgOf(g) {
			continue
		}
		top := fn
		for top.Parent() != nil {
			top = top.Parent()
		}
		for _, call := range core.Calls(fn) {
			if h := core.StaticCallee(call); h != nil {
				callers[h] = append(callers[h], top)
			}
		}
		// a method value / function value handed on as a callback (index.Ascend(sweep.visit)): the function that forms
		// the value counts as the caller
		for _, b := range fn.Blocks {
			for _, in := range b.Instrs {
				for _, op := range in.Operands(nil) {
					if op == nil || *op == nil {
						continue
					}
					if _, isMC := (*op).(*ssa.MakeClosure); !isMC {
						if _, isFn := (*op).(*ssa.Function); !isFn {
							continue
						}
					}
					if ci, isCall := in.(ssa.CallInstruction); isCall && ci.Common().Value == *op {
						continue
					}
					if h := core.FuncValueTarget(*op); h != nil && h.Parent() == nil {
						callers[h] = append(callers[h], top)
					}
				}
			}
		}
	}
	var ok func(f *ssa.Function, d int) bool
	ok = func(f *ssa.Function, d int) bool {
		if allowed(f) {
			return true
		}
		if d > 3 || len(callers[f]) == 0 || token.IsExported(f.Name()) {
			return false
		}
		for _, cl := range callers[f] {
			if cl != f && !ok(cl, d+1) {
				return false
			}
		}
		return true
	}
	return ok(g, 0)
}

// behindEdgesDeep is behindEdges for code that an extract-method refactoring may have moved: the B-sites are looked
// for in fn and, through static calls, in helpers of fn's package (two levels). A helper call that itself lies
// behind the edges in the caller discharges the helper's sites; otherwise the same obligation is evaluated inside
// the helper with the edges pick selects there. pick must not depend on values of one particular function.
func (c *Ctx) behindEdgesDeep(rule, key string, fn *ssa.Function, pick func(f core.Fact, ifi *ssa.If) (bool, int), isB InstrPred, edgeName, bName string) int {
	seen := map[*ssa.Function]bool{}
	var walk func(f *ssa.Function, d int) int
	contains := func(h *ssa.Function) bool {
		for _, rf := range c.regionOf(h, 2) {
			if len(sites(rf.fn, isB)) > 0 {
				return true
			}
		}
		return false
	}
	walk = func(f *ssa.Function, d int) int {
		if f == nil || seen[f] {
			return 0
		}
		seen[f] = true
		name := key
		if f != fn {
			name = key + "/" + f.Name()
		}
		es := condEdges(f, pick)
		n := 0
		if len(sites(f, isB)) > 0 {
			n += c.behindEdges(rule, name, f, es, isB, edgeName, bName)
		}
		if d >= 2 {
			return n
		}
		outer := core.Reach([]core.Point{core.EntryOf(f)}, nil, core.CutOf(es))
		for _, cf := range core.WithClosures(f) {
			for _, call := range core.Calls(cf) {
				h := core.StaticCallee(call)
				if h == nil || h == f || len(h.Blocks) == 0 || h.Parent() != nil || core.PkgOf(h) != core.PkgOf(fn) || seen[h] || !contains(h) {
					continue
				}
				if cf == f && es.Len() > 0 && !outer.Has(call) {
					seen[h] = true
					for _, rf := range c.regionOf(h, 2) {
						n += len(sites(rf.fn, isB))
					}
					c.R.OK(rule, fmt.Sprintf("%s: %s behind %s", name, h.Name(), edgeName), c.P.Pos(call.Pos()), "the helper holding the "+bName+" is only called across the edge")
					continue
				}
				n += walk(h, d+1)
			}
		}
		return n
	}
	return walk(fn, 0)
}

// decodesType: call is <typ>.Unmarshal, or a static call of a module function that (up to depth levels down) decodes
// a value of that type and reports failure through an error result - a decode helper like
// `func unmarshalRecord(val []byte) (T, error)`. typ is the short form "pb.TransactionRecord".
func (c *Ctx) decodesType(call ssa.CallInstruction, typ string, depth int) bool {
	if o := core.CalleeObj(call); o != nil && o.Name() == "Unmarshal" && strings.HasSuffix(core.CalleeName(call), typ+").Unmarshal") {
		return true
	}
	if depth == 0 {
		return false
	}
	callee := call.Common().StaticCallee()
	if callee == nil || len(callee.Blocks) == 0 || !c.P.InModule(callee) {
		return false
	}
	res := callee.Signature.Results()
	hasErr := false
	for i := 0; i < res.Len(); i++ {
		if res.At(i).Type().String() == "error" {
			hasErr = true
		}
	}
	if !hasErr {
		return false
	}
	for _, cc := range core.Calls(callee) {
		if c.decodesType(cc, typ, depth-1) {
			return true
		}
	}
	return false
}

const journalResetText = "the undo journal of a transaction is reset only at the transaction's boundary: Finalise / ClearChangerAndRefund of the state ledger (both drop the undo records, the valid snapshot ids and the refund counter) are called by the executor where a transaction ends and by the ledger itself - never from code that runs inside a transaction (VM stubs, contracts, host functions). A reset in the middle makes everything the transaction wrote before it irrevocable (a FAILED receipt keeps those effects), and the first RevertToSnapshot afterwards panics on a snapshot id that is no longer valid - on the executor goroutine, outside every recover (shared by C07 R07.9 and C08 R08.10)."

// journalReset emits the shared rule under the given id.
func (c *Ctx) journalReset(rule string) {
	r := c.R
	n := 0
	for _, fn := range c.P.ModuleFuncs(true) {
		for _, call := range core.Calls(fn) {
			o := core.CalleeObj(call)
			if o == nil || (o.Name() != "Finalise" && o.Name() != "ClearChangerAndRefund") {
				continue
			}
			cn := core.CalleeName(call)
			if !strings.Contains(cn, "ledger.") {
				continue
			}
			n++
			pkg := core.PkgOf(fn)
			top := fn
			for top.Parent() != nil {
				top = top.Parent()
			}
			key := shortFn(top) + ": " + o.Name()
			if pkg == "internal/executor" || pkg == "internal/ledger" || strings.HasPrefix(pkg, "internal/ledger/") {
				r.OK(rule, key, c.P.Pos(call.Pos()), "transaction boundary (executor) / the ledger itself")
				continue
			}
			r.Bad(rule, key, c.P.Pos(call.Pos()), "the state ledger's undo journal is reset inside a running transaction ("+o.Name()+" called from "+pkg+"): what the transaction wrote before this point can no longer be reverted, and the next RevertToSnapshot of the executor panics on an invalid revision id outside every recover")
		}
	}
	r.Floor(rule, "journal reset sites (Finalise / ClearChangerAndRefund)", n, 3)
}

const freshUndoText = "an undo leaves nothing behind: SetBalance / SetNonce / SetCodeAndHash create the account's dirty copy (dirtyAccount) on first use; a writer that can take dirtyAccount from nil to a fresh copy records that fact in the change it journals (a field fed from dirtyAccount == nil), and the revert method of that change can drop dirtyAccount again (stores nil into it). Otherwise a reverted first write - a FAILED transaction touching an address that has no record yet - leaves an empty record {0, 0, nil} dirty: it is journaled, hashed into the state root and committed, and whether the address object was loaded before (by an earlier transaction, or by a balance query on that node) decides the root (shared by C07 R07.10, C13 R13.8 and C01 R01.8)."

// freshUndo emits the shared rule under the given id.
func (c *Ctx) freshUndo(rule string) {
	r := c.R
	n := 0
	isNilTestOfDirty := func(v ssa.Value) bool {
		return core.Mentions(v, func(w ssa.Value) bool {
			bo, ok := w.(*ssa.BinOp)
			if !ok || bo.Op != token.EQL && bo.Op != token.NEQ {
				return false
			}
			for _, side := range [][2]ssa.Value{{bo.X, bo.Y}, {bo.Y, bo.X}} {
				if !core.IsNilConst(side[1]) {
					continue
				}
				if _, f, _, ok := core.FieldOf(side[0]); ok && f == "dirtyAccount" {
					return true
				}
			}
			return false
		})
	}
	dropsDirty := func(fn *ssa.Function) bool {
		for _, rf := range c.regionOf(fn, 1) {
			for _, b := range rf.fn.Blocks {
				for _, in := range b.Instrs {
					st, ok := in.(*ssa.Store)
					if !ok {
						continue
					}
					if _, f, _, ok := core.FieldOf(st.Addr); ok && f == "dirtyAccount" && core.IsNilConst(st.Val) {
						return true
					}
				}
			}
		}
		return false
	}
	for _, fn := range c.P.ModuleFuncs(true) {
		if core.PkgOf(fn) != ledgerPkg || fn.Parent() != nil || len(fn.Blocks) == 0 {
			continue
		}
		// a journaling writer that lazily allocates dirtyAccount
		var app ssa.CallInstruction
		for _, call := range core.Calls(fn) {
			if core.CalleeName(call) == "(*internal/ledger.stateChanger).append" {
				app = call
			}
		}
		allocsIn := func(f *ssa.Function) bool {
			for _, b := range f.Blocks {
				for _, in := range b.Instrs {
					st, ok := in.(*ssa.Store)
					if !ok {
						continue
					}
					if _, fl, _, ok := core.FieldOf(st.Addr); ok && fl == "dirtyAccount" && !core.IsNilConst(st.Val) {
						if cc, isCall := core.Strip(st.Val).(*ssa.Call); isCall && strings.HasSuffix(core.CalleeName(cc), "CopyOrNewIfEmpty") {
							return true
						}
					}
				}
			}
			return false
		}
		// the lazy allocation in the writer itself, or in a get-or-create helper / unjournaled setter it calls (a
		// callee that journals its own write - SetBalance called by Suiside - carries its own obligation)
		var reachesAlloc func(f *ssa.Function, d int) bool
		reachesAlloc = func(f *ssa.Function, d int) bool {
			if allocsIn(f) {
				return true
			}
			if d == 0 {
				return false
			}
			for _, cc := range core.Calls(f) {
				g := core.StaticCallee(cc)
				if g == nil || g == f || len(g.Blocks) == 0 || core.PkgOf(g) != ledgerPkg {
					continue
				}
				journals := false
				for _, gc := range core.Calls(g) {
					if core.CalleeName(gc) == "(*internal/ledger.stateChanger).append" {
						journals = true
					}
				}
				if !journals && reachesAlloc(g, d-1) {
					return true
				}
			}
			return false
		}
		allocs := reachesAlloc(fn, 2)
		if app == nil || !allocs {
			continue
		}
		n++
		args := app.Common().Args
		chg := args[len(args)-1]
		key := shortFn(fn) + ": the journaled change records whether the write created dirtyAccount"
		okFlag := isNilTestOfDirty(chg)
		// the revert method of the change type
		okDrop := false
		tn := ""
		if mi, ok := chg.(*ssa.MakeInterface); ok {
			chg = mi.X
		}
		if named, ok := chg.Type().(*types.Named); ok {
			tn = named.Obj().Name()
		}
		if tn != "" {
			if rv := c.P.Fn("internal/ledger.(" + tn + ").revert"); rv != nil {
				okDrop = dropsDirty(rv)
			}
		}
		r.Check(okFlag && okDrop, rule, key, c.P.Pos(app.Pos()), "the change carries dirtyAccount == nil and its revert can drop dirtyAccount",
			"the writer creates the account's dirty copy on first use but its undo ("+tn+".revert) goes through the lazily allocating setter and never drops the copy: after a reverted first write to an address without a record, an empty record stays dirty, is hashed into the state root and committed - an effect of a FAILED transaction that depends on whether the address object had been loaded before")
	}
	r.Floor(rule, "journaling writers that create dirtyAccount on first use", n, 3)
}
