package rules

import (
	"sort"
	"strings"

	"bxhlint/core"

	"golang.org/x/tools/go/ssa"
)

const ledgerPkg = "internal/ledger"

// ledgerModel: journaling facts about internal/ledger shared by C07 and C13.
type ledgerModel struct {
	c   *Ctx
	cha *core.CHA
	// dirtyWriters: functions of internal/ledger that store to a dirty-state
	// field (dirtyState/dirtyAccount/dirtyCode/suicided/...), with the fields.
	dirtyWriters map[*ssa.Function][]string
	appends      map[*ssa.Function]bool // calls stateChanger.append
	revertOnly   map[*ssa.Function]bool // reachable only from stateChange.revert methods
	nj           map[*ssa.Function]bool // non-journaled writers visible to callers
	njReach      map[*ssa.Function]bool // functions from which an nj writer is reachable
}

var dirtyFields = map[string]bool{"dirtyState": true, "dirtyAccount": true, "dirtyCode": true, "suicided": true}

// njExceptions: writers without journal entry that are not mutations.
var njExceptions = map[string]string{
	"(*internal/ledger.SimpleAccount).Code": "read path: fills dirtyCode with the code just loaded from cache/db (same value as the stored code), not a mutation",
}

func (c *Ctx) Ledger() *ledgerModel {
	if c.lm != nil {
		return c.lm
	}
	m := &ledgerModel{c: c, cha: core.NewCHA(c.P), dirtyWriters: map[*ssa.Function][]string{}, appends: map[*ssa.Function]bool{},
		revertOnly: map[*ssa.Function]bool{}, nj: map[*ssa.Function]bool{}, njReach: map[*ssa.Function]bool{}}
	var lfuncs []*ssa.Function
	for _, fn := range c.P.ModuleFuncs(true) {
		if core.PkgOf(fn) == ledgerPkg {
			lfuncs = append(lfuncs, fn)
		}
	}
	for _, fn := range lfuncs {
		fields := map[string]bool{}
		for _, b := range fn.Blocks {
			for _, in := range b.Instrs {
				switch x := in.(type) {
				case *ssa.Store:
					// o.dirtyX = v  or  o.dirtyAccount.F = v
					if owner, f, base, ok := core.FieldOf(x.Addr); ok {
						// stores into an account object created in this very function
						// are construction / loading, not mutation of ledger state
						if call, _ := core.CallOf(base); call != nil && core.CalleeName(call) == "internal/ledger.newAccount" {
							continue
						}
						if _, isAlloc := core.Strip(base).(*ssa.Alloc); isAlloc {
							continue
						}
						if owner == "internal/ledger.SimpleAccount" && dirtyFields[f] {
							// loading is not mutating: the dirty field receives the very value that the same function
							// stores into the corresponding origin field (code read from cache / database), or a copy
							// made from that origin field - afterwards dirty == origin, nothing is modified
							if strings.HasPrefix(f, "dirty") && loadsOrigin(fn, x, "origin"+strings.TrimPrefix(f, "dirty")) {
								continue
							}
							fields[f] = true
						}
						if _, f2, _, ok2 := core.FieldOf(base); ok2 && f2 == "dirtyAccount" {
							fields["dirtyAccount."+f] = true
						}
					}
				case ssa.CallInstruction:
					n := core.CalleeName(x)
					if n == "(*sync.Map).Store" || n == "(*sync.Map).Delete" {
						if _, f, _, ok := core.FieldOf(core.Receiver(x)); ok && dirtyFields[f] {
							fields[f] = true
						}
					}
					if n == "(*internal/ledger.stateChanger).append" {
						m.appends[fn] = true
					}
				}
			}
		}
		if len(fields) > 0 {
			var fs []string
			for f := range fields {
				fs = append(fs, f)
			}
			sort.Strings(fs)
			m.dirtyWriters[fn] = fs
		}
	}
	// revert-only: callers are exclusively methods named revert (of stateChange types)
	callers := map[*ssa.Function][]*ssa.Function{}
	for _, fn := range c.P.ModuleFuncs(true) {
		for _, call := range core.Calls(fn) {
			for _, g := range m.cha.Callees(call) {
				callers[g] = append(callers[g], fn)
			}
		}
	}
	for fn := range m.dirtyWriters {
		cs := callers[fn]
		if len(cs) == 0 {
			continue
		}
		all := true
		for _, cl := range cs {
			if cl.Name() != "revert" {
				all = false
			}
		}
		m.revertOnly[fn] = all
	}
	// covered: the function journals itself, is the undo path (stateChange.revert methods restore values
	// without journaling them), or is called only from covered functions of the ledger
	covered := map[*ssa.Function]bool{}
	for _, fn := range lfuncs {
		if m.appends[fn] || fn.Name() == "revert" {
			covered[fn] = true
		}
	}
	for changed := true; changed; {
		changed = false
		for _, fn := range lfuncs {
			if covered[fn] || len(callers[fn]) == 0 {
				continue
			}
			all := true
			for _, cl := range callers[fn] {
				if !covered[cl] {
					all = false
				}
			}
			if all {
				covered[fn], changed = true, true
			}
		}
	}
	for fn := range m.dirtyWriters {
		if m.appends[fn] || m.revertOnly[fn] {
			continue
		}
		if _, ok := njExceptions[core.FnName(fn)]; ok {
			continue
		}
		// constructors / loaders that build a fresh account are not mutators of ledger state
		if fn.Signature.Recv() == nil {
			continue
		}
		// journaling done by every caller (e.g. SetSuicided, called by Suicide which appends suicideChange),
		// transitively: a helper of helpers (ensureDirtyAccount <- setNonce <- SetNonce / nonceChange.revert)
		if covered[fn] {
			continue
		}
		m.nj[fn] = true
	}
	// njReach fixpoint over module functions
	for fn := range m.nj {
		m.njReach[fn] = true
	}
	for changed := true; changed; {
		changed = false
		for _, fn := range c.P.ModuleFuncs(true) {
			if m.njReach[fn] {
				continue
			}
			for _, call := range core.Calls(fn) {
				hit := false
				for _, g := range m.cha.Callees(call) {
					if m.njReach[g] {
						hit = true
					}
				}
				if hit {
					m.njReach[fn] = true
					changed = true
					break
				}
			}
		}
	}
	c.lm = m
	return m
}

// boundarySites: calls from outside internal/ledger into a ledger function
// from which a non-journaled writer is reachable.
func (m *ledgerModel) boundarySites(inPkgs ...string) []ssa.CallInstruction {
	var out []ssa.CallInstruction
	for _, fn := range m.c.P.ModuleFuncs(true) {
		pk := core.PkgOf(fn)
		ok := false
		for _, p := range inPkgs {
			if pk == p || strings.HasPrefix(pk, p+"/") {
				ok = true
			}
		}
		if !ok {
			continue
		}
		for _, call := range core.Calls(fn) {
			for _, g := range m.cha.Callees(call) {
				if core.PkgOf(g) == ledgerPkg && m.njReach[g] {
					out = append(out, call)
					break
				}
			}
		}
	}
	return out
}

// loadsOrigin: the stored value of st is also stored, in the same function and on the same object, into the
// origin field originF, or is computed from a load of that origin field.
func loadsOrigin(fn *ssa.Function, st *ssa.Store, originF string) bool {
	_, _, base, _ := core.FieldOf(st.Addr)
	if core.Mentions(st.Val, func(v ssa.Value) bool {
		_, f, b, ok := core.FieldOf(v)
		return ok && f == originF && sameValue(b, base)
	}) {
		return true
	}
	for _, b := range fn.Blocks {
		for _, in := range b.Instrs {
			o, ok := in.(*ssa.Store)
			if !ok || o == st {
				continue
			}
			if _, f, ob, okf := core.FieldOf(o.Addr); okf && f == originF && sameValue(ob, base) && sameValue(o.Val, st.Val) {
				return true
			}
		}
	}
	return false
}
