package rules

import (
	"fmt"
	"go/types"
	"strings"

	"bxhlint/core"

	"golang.org/x/tools/go/ssa"
)

func init() { Props["C07"] = C07 }

const execPrefix = "internal/executor.(*BlockExecutor)."

// vmEntryNames: calls that hand control to a VM / value transfer inside a transaction.
func isVMEntry(in ssa.Instruction) (string, bool) {
	c, ok := in.(*ssa.Call)
	if !ok {
		return "", false
	}
	n := core.CalleeName(c)
	switch n {
	case "(*internal/executor.BlockExecutor).transfer":
		return "transfer", true
	case "(pkg/vm.VM).Run":
		return "vm.Run", true
	case "(*pkg/vm/boltvm.BoltVM).HandleIBTP":
		return "BoltVM.HandleIBTP", true
	case "(*pkg/vm/boltvm.BoltVM).InvokeBVM":
		return "BoltVM.InvokeBVM", true
	case "(*pkg/vm/boltvm.BoltVM).Run":
		return "BoltVM.Run", true
	case "github.com/meshplus/eth-kit/evm.ApplyMessage":
		return "evm.ApplyMessage", true
	}
	return "", false
}

func isRevert(in ssa.Instruction) bool { return isRevertDepth(in, 0) }

// isRevertDepth: a direct RevertToSnapshot call, or a call of a local
// closure / module helper every path of which ... contains such a call
// (helper lifting, depth 2; the helper must call revert on some path that is
// not behind a failing test - we accept helpers whose body contains a revert).
func isRevertDepth(in ssa.Instruction, d int) bool {
	c, ok := in.(ssa.CallInstruction)
	if !ok {
		return false
	}
	if o := core.CalleeObj(c); o != nil && (o.Name() == "RevertToSnapshot" || o.Name() == "RevertToSnapshotForParallel") {
		return true
	}
	if d >= 2 {
		return false
	}
	g := core.StaticCallee(c)
	if g == nil || g.Blocks == nil {
		return false
	}
	if g.Parent() == nil {
		// besides local closures: a method of a small unexported helper type of the executor (txSnapshot.revert)
		ok := false
		if core.PkgOf(g) == "internal/executor" && g.Signature.Recv() != nil {
			rt := g.Signature.Recv().Type()
			if pt, isPtr := rt.(*types.Pointer); isPtr {
				rt = pt.Elem()
			}
			if nt, isNamed := rt.(*types.Named); isNamed && !nt.Obj().Exported() {
				ok = true
			}
		}
		if !ok {
			return false
		}
	}
	for _, b := range g.Blocks {
		for _, x := range b.Instrs {
			if isRevertDepth(x, d+1) {
				return true
			}
		}
	}
	return false
}

func isSnapshot(in ssa.Instruction) bool {
	c, ok := in.(ssa.CallInstruction)
	if !ok {
		return false
	}
	o := core.CalleeObj(c)
	if o != nil && (o.Name() == "Snapshot" || o.Name() == "SnapshotForParallel") {
		return true
	}
	// a helper of the executor that takes the snapshot on every path (takeTxSnapshot returning a snapshot object)
	g := core.StaticCallee(c)
	if g == nil || len(g.Blocks) == 0 || core.PkgOf(g) != "internal/executor" || g.Parent() != nil {
		return false
	}
	direct := func(x ssa.Instruction) bool {
		cc, ok := x.(ssa.CallInstruction)
		if !ok {
			return false
		}
		ob := core.CalleeObj(cc)
		return ob != nil && (ob.Name() == "Snapshot" || ob.Name() == "SnapshotForParallel")
	}
	if len(sites(g, direct)) == 0 {
		return false
	}
	rs := core.Reach([]core.Point{core.EntryOf(g)}, direct, nil)
	for _, ret := range core.Returns(g) {
		if rs.Has(ret) {
			return false
		}
	}
	return true
}

// errResultOf returns the error-typed result value(s) of a call as used in conditions.
func errNilEdges(fn *ssa.Function, call *ssa.Call) core.EdgeSet {
	// success edge(s) = edges on which the error component of call's result is nil
	res := call.Call.Signature().Results()
	idx := -1
	for i := 0; i < res.Len(); i++ {
		if res.At(i).Type().String() == "error" {
			idx = i
		}
	}
	if idx < 0 {
		return core.EdgeSet{}
	}
	site := core.GuardSite{Call: call, Conv: core.ConvErrNil, Idx: idx}
	if res.Len() == 1 {
		site.Idx = -1
	}
	es := core.EdgeSet{}
	for b, m := range core.SuccessEdges(fn, []core.GuardSite{site}) {
		for i := range m {
			es.Add(b, i)
		}
	}
	return es
}

// failPathReverts checks: from after `call` in fn, every path that does not
// cross the err==nil edge reaches a revert before returning. Returns
// (ok, returnsErrToCaller): when the failure path returns without revert and
// fn propagates the error, the obligation is lifted to fn's callers.
func (c *Ctx) failPathReverts(fn *ssa.Function, call *ssa.Call) (bool, *ssa.Return) {
	cut := core.CutOf(errNilEdges(fn, call))
	rs := core.Reach([]core.Point{core.After(call)}, isRevert, cut)
	for _, r := range core.Returns(fn) {
		if rs.Has(r) {
			return false, r
		}
	}
	return true, nil
}

// C07: a failed transaction leaves no effect beyond nonce and fee.
func C07(c *Ctx) {
	r := c.R
	r.Rule("R07.1", "revert on every failing path: after every VM entry (transfer, vm.Run, BoltVM.HandleIBTP/InvokeBVM, evm.ApplyMessage) in the executor, every path on which the entry's error is non-nil passes RevertToSnapshot before the function returns, or the function returns the error to a caller for which the same holds (lifted, depth 3); the snapshot reverted to is taken before the VM entry.")
	r.Rule("R07.2", "revert completeness: no ledger write reachable from transaction execution bypasses the undo journal: calls from VM-side packages (pkg/vm/..., contracts) into internal/ledger functions that store dirty state without stateChanger.append (derived from internal/ledger itself) are violations per call site.")
	r.Rule("R07.3", "no announcement of a failed transaction: in applyTx the interchain counter (delivery set) is fed from a transaction's events only across an edge on which the receipt is known to be successful (or the documented begin-failure notification).")
	r.Rule("R07.5", "read-only execution: in ApplyReadonlyTransactions every applyTransaction is followed by ledger.Clear() on all paths, and nothing reachable from it persists (PersistBlockData, FlushDirtyData, Commit, PersistExecutionResult, account-cache fill, feeds).")
	r.Rule("R07.6", "the undo restores what was recorded (shared with C13 R13.6): no function of internal/ledger removes an entry from an account's dirty set, and storageChange.revert stores the recorded previous value, nil included, on every path - otherwise a reverted transaction leaves the layers below showing through instead of the value the block had before it.")
	r.Rule("R07.10", freshUndoText)
	c.freshUndo("R07.10")
	c.c07AccountRelease()
	c.c07FeeOnRestoredBalance()
	c.c07FailedReceiptClean()
	c.c07NodeEvents()
	r.Rule("R07.9", journalResetText)
	c.journalReset("R07.9")
	c.c13Undo("R07.6")
	r.NotDecided = append(r.NotDecided, "EVM- and wasmtime-internal atomicity; gas arithmetic; that the journal's revert functions restore exact values (C13)")
	// a FAILED transaction has no effect on the timeout bookkeeping either: a failed request is not listed, a failed
	// receipt takes nothing out of the list (decided by the C06 rule set)
	r.Borrow(map[string]string{"R06.2": "R07.7", "R06.8": "R07.8"}, func() { C06(c) })

	// ---- R07.1
	nEntries := 0
	for _, spec := range []string{"applyBxhTransaction", "applyEthTransaction", "evmInterchain", "applyTransaction"} {
		c.fn("R07.1", execPrefix+spec) // anchors: these must exist
	}
	for _, fn := range c.P.ModuleFuncs(true) {
		if core.PkgOf(fn) != "internal/executor" || fn.Parent() != nil {
			continue
		}
		spec := fn.Name()
		for _, b := range fn.Blocks {
			for _, in := range b.Instrs {
				name, ok := isVMEntry(in)
				if !ok {
					continue
				}
				nEntries++
				c.checkRevert(fn, in.(*ssa.Call), name, 0, spec+": "+name)
			}
		}
	}
	r.Floor("R07.1", "VM entries in the executor", nEntries, 5)
	// the fee-failure revert of applyTransaction must undo the transaction's
	// execution: its snapshot has to precede the call that executes the transaction
	if at := c.fn("R07.1", execPrefix+"applyTransaction"); at != nil {
		abt := c.P.Fn(execPrefix + "applyBxhTransaction")
		n := c.mustPrecede("R07.1", "applyTransaction", at, isSnapshot, func(in ssa.Instruction) bool {
			call, ok := in.(ssa.CallInstruction)
			return ok && abt != nil && core.StaticCallee(call) == abt
		}, "Snapshot()", "applyBxhTransaction (execution of the transaction)")
		r.Floor("R07.1", "applyBxhTransaction calls in applyTransaction", n, 1)
		// and every failing exit (fee cannot be paid) reverts
		pay := c.P.Fn(execPrefix + "payGasFee")
		for _, in := range sites(at, func(in ssa.Instruction) bool {
			call, ok := in.(ssa.CallInstruction)
			return ok && pay != nil && core.StaticCallee(call) == pay
		}) {
			call := in.(*ssa.Call)
			// only the payGasFee that follows a Snapshot (the bxh branch) is a revert obligation
			pre := core.Reach([]core.Point{core.EntryOf(at)}, isSnapshot, nil)
			if pre.Has(call) {
				continue
			}
			key := "applyTransaction: fee failure reverts"
			// the retry on the restored balance: every path to this payment has already reverted the transaction
			if !core.Reach([]core.Point{core.EntryOf(at)}, isRevert, nil).Has(call) {
				r.OK("R07.1", key+" (payment tried after the revert)", c.P.Pos(call.Pos()), "every path to this payGasFee passes a revert: nothing of the transaction is left to undo when it fails")
				continue
			}
			ok, ret := c.failPathReverts(at, call)
			if ok && errNilEdges(at, call).Len() > 0 {
				r.OK("R07.1", key, c.P.Pos(call.Pos()), "every path with payGasFee error passes a revert before returning")
			} else {
				w := ""
				if ret != nil {
					w = " (return at " + c.P.Pos(ret.Pos()) + ")"
				}
				r.Bad("R07.1", key, c.P.Pos(call.Pos()), "when the fee cannot be paid the transaction's effects are not reverted"+w)
			}
		}
	}
	// BoltStubImpl.CrossInvokeEVM is a nested VM entry inside a contract
	if fn := c.fn("R07.1", "pkg/vm/boltvm.(*BoltStubImpl).CrossInvokeEVM"); fn != nil {
		for _, in := range sites(fn, func(in ssa.Instruction) bool { _, ok := isVMEntry(in); return ok }) {
			c.checkRevert(fn, in.(*ssa.Call), "evm.ApplyMessage", 0, "CrossInvokeEVM: evm.ApplyMessage")
		}
	}

	// ---- R07.2
	lm := c.Ledger()
	var njNames []string
	for fn := range lm.nj {
		njNames = append(njNames, core.FnName(fn)+" writes "+strings.Join(lm.dirtyWriters[fn], ","))
	}
	r.Note("R07.2", "non-journaled writers of internal/ledger", "", strings.Join(njNames, "; "))
	r.Floor("R07.2", "dirty-state writers found in internal/ledger", len(lm.dirtyWriters), 8)
	nj := 0
	for _, call := range lm.boundarySites("pkg/vm", "internal/executor/contracts") {
		nj++
		fn := call.Parent()
		key := fmt.Sprintf("%s -> %s", shortFn(fn), core.CalleeName(call))
		r.Bad("R07.2", key, c.P.Pos(call.Pos()), "ledger write without undo-journal entry reachable from transaction execution: it survives RevertToSnapshot, so a transaction that fails afterwards (contract error, out of gas, unpayable fee) leaves this state behind")
	}
	// the journal object the accounts write to must stay the ledger's journal
	nst := 0
	for _, fn := range c.P.ModuleFuncs(true) {
		if core.PkgOf(fn) != ledgerPkg {
			continue
		}
		for _, in := range sites(fn, storesToField("SimpleLedger", "changer")) {
			st := in.(*ssa.Store)
			_, _, base, _ := core.FieldOf(st.Addr)
			if _, fresh := core.Strip(base).(*ssa.Alloc); fresh {
				continue // constructor
			}
			nst++
			r.Bad("R07.2", shortFn(fn)+": SimpleLedger.changer reassigned", c.P.Pos(in.Pos()), "the ledger's state changer is replaced after construction, but every loaded SimpleAccount journals into the changer object it was created with: later changes of those accounts escape RevertToSnapshot")
		}
	}
	if nst == 0 {
		r.OK("R07.2", "SimpleLedger.changer assigned only at construction", "", "accounts and ledger share one changer object for the ledger's lifetime")
	}
	// positive control: the journaled path must be seen as journaled
	if st := c.P.Fn("internal/ledger.(*SimpleAccount).SetState"); st == nil || !lm.appends[st] || lm.nj[st] {
		r.Unknown("R07.2", "control:SetState", "", "control failed: SimpleAccount.SetState is not recognised as a journaled writer; the journaling model is broken")
	} else {
		r.OK("R07.2", "control: SimpleAccount.SetState journaled", c.P.Pos(st.Pos()), "stores dirtyState and appends a storageChange")
	}
	if nj == 0 {
		r.OK("R07.2", "VM-side calls into non-journaled ledger writers", "", "none: every ledger write reachable from pkg/vm and the contracts goes through a journaling mutator")
	}

	// ---- R07.3
	if fn := c.fn("R07.3", execPrefix+"applyTx"); fn != nil {
		isCounter := callToMethod("AddInterchainCounter")
		// receipt.Status tests
		okPick := func(f core.Fact, ifi *ssa.If) (bool, int) {
			if f.Kind == core.FEqConst && f.Field == "Status" {
				// Receipt_SUCCESS = 0, Receipt_FAILED = 1
				switch f.Const {
				case "0":
					return true, holdsEdge(f)
				case "1":
					return true, 1 - holdsEdge(f)
				}
			}
			if f.Kind == core.FBool {
				if call, ok := f.Subject.(*ssa.Call); ok {
					if o := core.CalleeObj(call); o != nil && o.Name() == "IsSuccess" {
						return true, holdsEdge(f)
					}
					// documented exception: the begin-failure notification
					// (receipt text contains TargetAppchainNotAvailable) is announced as invalid
					if core.CalleeName(call) == "strings.Contains" && len(call.Call.Args) == 2 {
						if s, ok := core.ConstString(call.Call.Args[1]); ok && s == "target appchain not available" {
							return true, holdsEdge(f)
						}
					}
				}
			}
			return false, 0
		}
		okEdges := condEdges(fn, okPick)
		n := c.behindEdges("R07.3", "applyTx", fn, okEdges, isCounter, "receipt known successful", "AddInterchainCounter")
		// the feeding moved into an executor helper that receives the receipt: the same obligation inside the helper,
		// unless the call itself already lies behind a success edge
		for _, call := range core.Calls(fn) {
			g := core.StaticCallee(call)
			if g == nil || g == fn || len(g.Blocks) == 0 || core.PkgOf(g) != core.PkgOf(fn) || len(sites(g, isCounter)) == 0 {
				continue
			}
			rs := core.Reach([]core.Point{core.EntryOf(fn)}, nil, core.CutOf(okEdges))
			if !rs.Has(call) {
				n += len(sites(g, isCounter))
				r.OK("R07.3", "applyTx: "+g.Name()+" behind receipt known successful", c.P.Pos(call.Pos()), "the helper that feeds the interchain counter is only called across a success edge")
				continue
			}
			n += c.behindEdges("R07.3", g.Name(), g, condEdges(g, okPick), isCounter, "receipt known successful", "AddInterchainCounter")
		}
		r.Floor("R07.3", "interchain counter feeds", n, 1)
	}

	// ---- R07.5
	if fn := c.fn("R07.5", execPrefix+"ApplyReadonlyTransactions"); fn != nil {
		apply := c.P.Fn(execPrefix + "applyTransaction")
		n := c.mustFollow("R07.5", "ApplyReadonlyTransactions", fn, func(in ssa.Instruction) bool {
			call, ok := in.(ssa.CallInstruction)
			return ok && apply != nil && core.StaticCallee(call) == apply
		}, func(in ssa.Instruction) bool {
			call, ok := in.(ssa.CallInstruction)
			if !ok {
				return false
			}
			o := core.CalleeObj(call)
			return o != nil && o.Name() == "Clear"
		}, "applyTransaction", "ledger.Clear()")
		r.Floor("R07.5", "applyTransaction calls in read-only execution", n, 1)
		reach := lm.cha.ReachableFrom([]*ssa.Function{fn}, nil)
		forbidden := map[string]bool{"PersistBlockData": true, "FlushDirtyData": true, "Commit": true, "PersistExecutionResult": true, "UpdateChainMeta": true, "PutBlock": true, "AppendBlock": true}
		bad := ""
		for g := range reach {
			for _, call := range core.Calls(g) {
				o := core.CalleeObj(call)
				if o == nil {
					continue
				}
				if forbidden[o.Name()] || core.CalleeName(call) == "(*internal/ledger.AccountCache).add" {
					bad = fmt.Sprintf("%s calls %s at %s", shortFn(g), core.CalleeName(call), c.P.Pos(call.Pos()))
				}
			}
		}
		r.Count("R07.5 functions reachable from read-only execution", len(reach))
		r.Check(bad == "", "R07.5", "ApplyReadonlyTransactions: no persistence reachable", c.P.Pos(fn.Pos()),
			fmt.Sprintf("%d reachable module functions contain no persist/flush/commit/cache-fill call", len(reach)), "read-only execution can persist: "+bad)
	}
}

// checkRevert handles one VM entry, lifting to callers when the error is returned.
func (c *Ctx) checkRevert(fn *ssa.Function, call *ssa.Call, name string, depth int, key string) {
	pos := c.P.Pos(call.Pos())
	es := errNilEdges(fn, call)
	ok, ret := c.failPathReverts(fn, call)
	if ok && es.Len() > 0 {
		// the snapshot must precede the VM entry
		rs := core.Reach([]core.Point{core.EntryOf(fn)}, isSnapshot, nil)
		if rs.Has(call) {
			c.R.Bad("R07.1", key, pos, "VM entry "+name+" is reachable without a preceding Snapshot() in "+shortFn(fn)+": the revert on its failure path has no snapshot of the pre-state")
			return
		}
		c.R.OK("R07.1", key, pos, fmt.Sprintf("every path with err != nil passes RevertToSnapshot before %s returns; Snapshot() precedes the entry", shortFn(fn)))
		return
	}
	if es.Len() == 0 {
		// error is not tested in fn at all: returned directly?
		ok = false
	}
	// does fn return the error to its caller? then lift
	if ret != nil && depth < 3 {
		errIdx := -1
		res := fn.Signature.Results()
		for i := 0; i < res.Len(); i++ {
			if res.At(i).Type().String() == "error" {
				errIdx = i
			}
		}
		if errIdx >= 0 {
			lifted := 0
			allOK := true
			for _, caller := range c.P.ModuleFuncs(true) {
				if core.PkgOf(caller) != "internal/executor" {
					continue
				}
				for _, cc := range core.Calls(caller) {
					cl, isCall := cc.(*ssa.Call)
					if !isCall || core.StaticCallee(cc) != fn {
						continue
					}
					lifted++
					okc, _ := c.failPathReverts(caller, cl)
					if (!okc || errNilEdges(caller, cl).Len() == 0) && c.errorRevertedUpstream(caller, cl, depth+1) {
						continue // the caller hands the error on to a caller that reverts
					}
					if !okc || errNilEdges(caller, cl).Len() == 0 {
						allOK = false
						c.R.Bad("R07.1", key, pos, fmt.Sprintf("failure of %s is returned by %s (line %s) without RevertToSnapshot, and its caller %s (call at %s) does not revert on the error path either: writes made before the failure survive in a FAILED transaction", name, shortFn(fn), c.P.Pos(ret.Pos()), shortFn(caller), c.P.Pos(cl.Pos())))
					}
				}
			}
			if lifted > 0 && allOK {
				c.R.OK("R07.1", key, pos, fmt.Sprintf("error returned to %d caller(s), each reverting on its error path", lifted))
			}
			if lifted > 0 {
				return
			}
		}
	}
	where := ""
	if ret != nil {
		where = " (return at " + c.P.Pos(ret.Pos()) + ")"
	}
	c.R.Bad("R07.1", key, pos, "after VM entry "+name+" a failing path leaves "+shortFn(fn)+" without RevertToSnapshot"+where)
}

// errorRevertedUpstream: the failure of call (made in fn) is returned by fn to callers, all of which
// revert on their error path or hand the error on in the same way (depth-bounded).
func (c *Ctx) errorRevertedUpstream(fn *ssa.Function, call *ssa.Call, depth int) bool {
	if depth > 3 {
		return false
	}
	okHere, ret := c.failPathReverts(fn, call)
	if okHere && errNilEdges(fn, call).Len() > 0 {
		return true
	}
	// the failing path must leave fn through a return that can carry the error
	hasErr := false
	res := fn.Signature.Results()
	for i := 0; i < res.Len(); i++ {
		if res.At(i).Type().String() == "error" {
			hasErr = true
		}
	}
	if !hasErr || (ret == nil && okHere) {
		return false
	}
	n := 0
	for _, caller := range c.P.ModuleFuncs(true) {
		if core.PkgOf(caller) != "internal/executor" {
			continue
		}
		for _, cc := range core.Calls(caller) {
			cl, isCall := cc.(*ssa.Call)
			if !isCall || core.StaticCallee(cc) != fn {
				continue
			}
			n++
			if !c.errorRevertedUpstream(caller, cl, depth+1) {
				return false
			}
		}
	}
	return n > 0
}
