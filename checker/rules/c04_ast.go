package rules

import (
	"go/ast"
	"strings"

	"bxhlint/core"

	"golang.org/x/tools/go/packages"
)

// collectCallbacks reads the keys of every fsm.Callbacks{...} literal in fd.
func collectCallbacks(ev *core.Evaluator, pkAny interface{}, fdAny interface{}, out map[string]bool) {
	pk, _ := pkAny.(*packages.Package)
	fd, _ := fdAny.(*ast.FuncDecl)
	if pk == nil || fd == nil {
		return
	}
	ast.Inspect(fd.Body, func(n ast.Node) bool {
		cl, ok := n.(*ast.CompositeLit)
		if !ok {
			return true
		}
		t := pk.TypesInfo.TypeOf(cl)
		if t == nil || !strings.HasSuffix(t.String(), "looplab/fsm.Callbacks") {
			return true
		}
		for _, el := range cl.Elts {
			if kv, ok := el.(*ast.KeyValueExpr); ok {
				if s, ok := ev.String(pk, kv.Key); ok {
					out[s] = true
				}
			}
		}
		return false
	})
}
