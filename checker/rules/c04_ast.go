package rules

import (
	"go/ast"
	"strings"

	"bxhlint/core"

	"golang.org/x/tools/go/packages"
)

// collectCallbacks reads the keys of every fsm.Callbacks{...} literal in fd.
func collectCallbacks(ev *core.Evaluator, pkAny interface{}, fdAny interface{}, out map[string]bool) {
	pk, _ := pkAny.(*packages.Package)
	fd, _ := fdAny.(*ast.FuncDecl)
	if pk == nil || fd == nil {
		return
	}
	ast.Inspect(fd.Body, func(n ast.Node) bool {
		cl, ok := n.(*ast.CompositeLit)
		if !ok {
			return true
		}
		t := pk.TypesInfo.TypeOf(cl)
		if t == nil || !strings.HasSuffix(t.String(), "looplab/fsm.Callbacks") {
			return true
		}
		for _, el := range cl.Elts {
			if kv, ok := el.(*ast.KeyValueExpr); ok {
				if s, ok := ev.String(pk, kv.Key); ok {
					out[s] = true
				}
			}
		}
		return false
	})
	// callbacks filled by a loop over a literal list of events: for _, e := range []T{A, B} { callbacks[e.String()] = f }
	ast.Inspect(fd.Body, func(n ast.Node) bool {
		rs, ok := n.(*ast.RangeStmt)
		if !ok {
			return true
		}
		lit, ok := rs.X.(*ast.CompositeLit)
		val, _ := rs.Value.(*ast.Ident)
		if !ok || val == nil {
			return true
		}
		fills := false
		ast.Inspect(rs.Body, func(m ast.Node) bool {
			as, ok := m.(*ast.AssignStmt)
			if !ok || len(as.Lhs) != 1 {
				return true
			}
			ix, ok := as.Lhs[0].(*ast.IndexExpr)
			if !ok {
				return true
			}
			t := pk.TypesInfo.TypeOf(ix.X)
			if t == nil || !strings.HasSuffix(t.String(), "looplab/fsm.Callbacks") {
				return true
			}
			// the key is the loop element (e, e.String(), string(e))
			uses := false
			ast.Inspect(ix.Index, func(k ast.Node) bool {
				if id, ok := k.(*ast.Ident); ok && pk.TypesInfo.ObjectOf(id) == pk.TypesInfo.ObjectOf(val) {
					uses = true
				}
				return true
			})
			if uses {
				fills = true
			}
			return true
		})
		if fills {
			for _, el := range lit.Elts {
				if s, ok := ev.String(pk, el); ok {
					out[s] = true
				}
			}
		}
		return true
	})
}
