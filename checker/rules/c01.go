package rules

import (
	"fmt"
	"go/token"
	"go/types"
	"os"
	"sort"
	"strings"

	"bxhlint/core"

	"golang.org/x/tools/go/ssa"
)

func init() { Props["C01"] = C01 }

func isSortCall(in ssa.Instruction) (ssa.Value, bool) {
	call, ok := in.(ssa.CallInstruction)
	if !ok {
		return nil, false
	}
	switch core.CalleeName(call) {
	case "sort.Strings", "sort.Slice", "sort.SliceStable", "sort.Sort", "sort.Stable", "sort.Ints":
		return call.Common().Args[0], true
	}
	return nil, false
}

// sameContainer: does value v denote (a load of) container t?
func sameContainer(v, t ssa.Value) bool {
	v = stripConv(v)
	switch tt := t.(type) {
	case *ssa.Alloc, *ssa.Global, *ssa.FreeVar:
		if u, ok := v.(*ssa.UnOp); ok && u.Op == token.MUL {
			return u.X == t
		}
	case *ssa.FieldAddr:
		if u, ok := v.(*ssa.UnOp); ok && u.Op == token.MUL {
			if fa, ok := u.X.(*ssa.FieldAddr); ok {
				return fa.Field == tt.Field && sameBase(fa.X, tt.X)
			}
		}
	case *ssa.Phi:
		if v == t {
			return true
		}
		// a later phi merging t (exit-block phi)
		if p, ok := v.(*ssa.Phi); ok {
			for _, e := range p.Edges {
				if e == t {
					return true
				}
			}
		}
	default:
		return v == t
	}
	return false
}

// sameContainerAddr: addr is the address of container t (for Alloc / field containers).
func sameContainerAddr(addr, t ssa.Value) bool {
	switch tt := t.(type) {
	case *ssa.Alloc, *ssa.Global, *ssa.FreeVar:
		return addr == t
	case *ssa.FieldAddr:
		if fa, ok := addr.(*ssa.FieldAddr); ok {
			return fa.Field == tt.Field && sameBase(fa.X, tt.X)
		}
	}
	return false
}

func stripConv(v ssa.Value) ssa.Value {
	for i := 0; i < 5; i++ {
		switch x := v.(type) {
		case *ssa.MakeInterface:
			v = x.X
		case *ssa.ChangeType:
			v = x.X
		case *ssa.Convert:
			v = x.X
		case *ssa.Slice:
			v = x.X
		default:
			return v
		}
	}
	return v
}

func sameBase(a, b ssa.Value) bool {
	if a == b || sameValue(a, b) {
		return true
	}
	ia, ib := core.VarIdentity(a), core.VarIdentity(b)
	return ia != nil && ia == ib
}

// usesContainer: does instruction in read container t (directly)?
func usesContainer(in ssa.Instruction, t ssa.Value) bool {
	var ops []*ssa.Value
	for _, op := range in.Operands(ops) {
		if *op != nil && sameContainer(*op, t) {
			return true
		}
	}
	// a struct holding the container handed out as a whole
	if fa, ok := t.(*ssa.FieldAddr); ok {
		switch x := in.(type) {
		case ssa.CallInstruction:
			for _, a := range x.Common().Args {
				if sameBase(a, fa.X) {
					return true
				}
			}
			if x.Common().IsInvoke() && sameBase(x.Common().Value, fa.X) {
				return true
			}
		case *ssa.Return:
			for _, r := range x.Results {
				if sameBase(r, fa.X) {
					return true
				}
			}
		}
	}
	return false
}

// sanitized: after the loop, container t is sorted before anything else reads it.
// Returns ok and, when not ok, the first unsanitized use.
func (l *mapLoop) sanitized(t ssa.Value) (bool, ssa.Instruction, int) {
	return sanitizedFrom(l.fn, core.Point{B: l.exit, Idx: 0}, func(b *ssa.BasicBlock) bool { return l.body[b] || b == l.header }, t)
}

var sortsParamFirst = map[*ssa.Function]map[int]int{}

// sanitizedFrom: on every path from start, container t is sorted before anything else reads it.
func sanitizedFrom(fn *ssa.Function, start core.Point, skip func(*ssa.BasicBlock) bool, t ssa.Value) (bool, ssa.Instruction, int) {
	isSortOfT := func(in ssa.Instruction) bool {
		if arg, ok := isSortCall(in); ok && sameContainer(arg, t) {
			return true
		}
		// a helper that receives the container and sorts that parameter (in place) before reading it otherwise
		call, ok := in.(ssa.CallInstruction)
		if !ok {
			return false
		}
		g := core.StaticCallee(call)
		if g == nil || g == fn || len(g.Blocks) == 0 || core.PkgOf(g) != core.PkgOf(fn) {
			return false
		}
		for ai, a := range call.Common().Args {
			if ai >= len(g.Params) || !sameContainer(a, t) {
				continue
			}
			if _, isSlice := g.Params[ai].Type().Underlying().(*types.Slice); !isSlice {
				continue
			}
			if sortsParamFirst[g] == nil {
				sortsParamFirst[g] = map[int]int{}
			}
			switch sortsParamFirst[g][ai] {
			case 1:
				return true
			case 2:
				continue
			}
			sortsParamFirst[g][ai] = 2 // recursion guard
			var cont ssa.Value = g.Params[ai]
			start := core.EntryOf(g)
			// a parameter captured by a closure (the less function of sort.Slice) lives in a local slot
			if refs := g.Params[ai].Referrers(); refs != nil {
				var spill *ssa.Store
				other := false
				for _, ref := range *refs {
					switch x := ref.(type) {
					case *ssa.DebugRef:
					case *ssa.Store:
						if _, isAlloc := x.Addr.(*ssa.Alloc); isAlloc && x.Val == ssa.Value(g.Params[ai]) && spill == nil {
							spill = x
						} else {
							other = true
						}
					default:
						other = true
					}
				}
				if spill != nil && !other {
					cont, start = spill.Addr, core.After(spill)
				}
			}
			okp, _, ns := sanitizedFrom(g, start, nil, cont)
			if okp && ns > 0 {
				sortsParamFirst[g][ai] = 1
				return true
			}
		}
		return false
	}
	nSort := len(sites(fn, isSortOfT))
	rs := core.Reach([]core.Point{start}, isSortOfT, nil)
	for _, b := range fn.Blocks {
		if skip != nil && skip(b) {
			continue
		}
		for _, in := range b.Instrs {
			if !rs.Has(in) || isSortOfT(in) {
				continue
			}
			if _, isDbg := in.(*ssa.DebugRef); isDbg {
				continue
			}
			if !usesContainer(in, t) {
				continue
			}
			// harmless uses: len(), conversions feeding only the sort, the load itself
			switch x := in.(type) {
			case *ssa.UnOp, *ssa.MakeInterface, *ssa.ChangeType, *ssa.Convert, *ssa.Phi:
				// the value's own users are examined when they are reached
				_ = x
				continue
			case *ssa.MakeClosure:
				continue // the less function of sort.Slice
			case *ssa.Call:
				if bn, ok := x.Call.Value.(*ssa.Builtin); ok && (bn.Name() == "len" || bn.Name() == "cap") {
					continue
				}
				// growing the same container further (an enclosing loop's own append) does not observe its order
				if bn, ok := x.Call.Value.(*ssa.Builtin); ok && bn.Name() == "append" && sameContainer(x.Call.Args[0], t) {
					onlyBack := true
					for _, ref := range *x.Referrers() {
						st, isSt := ref.(*ssa.Store)
						if _, isDbg := ref.(*ssa.DebugRef); isDbg {
							continue
						}
						if ph, isPhi := ref.(*ssa.Phi); isPhi && (ph == t || sameContainer(ph, t)) {
							continue
						}
						if !isSt || !(st.Addr == t || sameContainerAddr(st.Addr, t)) {
							onlyBack = false
						}
					}
					if onlyBack {
						continue
					}
				}
			case *ssa.Store:
				if x.Addr == t || sameContainerAddr(x.Addr, t) {
					continue
				}
			}
			return false, in, nSort
		}
	}
	return true, nil, nSort
}

// iterationVar: an Alloc hoisted out of the loop that only ever holds the loop's key/value.
func (l *mapLoop) iterationVar(a ssa.Value) bool {
	al, ok := a.(*ssa.Alloc)
	if !ok {
		return false
	}
	for _, st := range core.StoresTo(al) {
		ex, ok := st.(*ssa.Extract)
		if !ok || ex.Tuple != ssa.Value(l.next) {
			return false
		}
	}
	return true
}

// writesThroughParam: may callee (a module function) modify what parameter idx points to?
func writesThroughParam(callee *ssa.Function, idx int, depth int) bool {
	if callee == nil || len(callee.Blocks) == 0 {
		return true
	}
	if idx >= len(callee.Params) {
		return true
	}
	p := callee.Params[idx]
	derives := func(v ssa.Value) bool {
		return core.Mentions(v, func(x ssa.Value) bool { return x == ssa.Value(p) })
	}
	for _, f := range core.WithClosures(callee) {
		for _, b := range f.Blocks {
			for _, in := range b.Instrs {
				switch x := in.(type) {
				case *ssa.MapUpdate:
					if derives(x.Map) {
						return true
					}
				case *ssa.Store:
					if derives(x.Addr) {
						return true
					}
				case ssa.CallInstruction:
					if bn, ok := x.Common().Value.(*ssa.Builtin); ok {
						if bn.Name() == "delete" && derives(x.Common().Args[0]) {
							return true
						}
						continue
					}
					for i, a := range x.Common().Args {
						switch a.Type().Underlying().(type) {
						case *types.Pointer, *types.Map, *types.Slice:
						default:
							continue
						}
						if !derives(a) {
							continue
						}
						if c2, ok := x.(*ssa.Call); ok && isPureCallee(c2) {
							continue
						}
						g := core.StaticCallee(x)
						if g == nil || depth > 2 || writesThroughParam(g, i, depth+1) {
							return true
						}
					}
				}
			}
		}
	}
	return false
}

// endsInPanic: every path from block b (outside the loop) ends in a panic.
func endsInPanic(l *mapLoop, b *ssa.BasicBlock) bool {
	seen := map[*ssa.BasicBlock]bool{}
	var walk func(x *ssa.BasicBlock) bool
	walk = func(x *ssa.BasicBlock) bool {
		if seen[x] {
			return true
		}
		seen[x] = true
		if l.body[x] || x == l.header {
			return false
		}
		if len(x.Instrs) == 0 {
			return false
		}
		switch x.Instrs[len(x.Instrs)-1].(type) {
		case *ssa.Panic:
			return true
		case *ssa.Return:
			return false
		}
		if len(x.Succs) == 0 {
			return false
		}
		for _, s := range x.Succs {
			if !walk(s) {
				return false
			}
		}
		return true
	}
	return walk(b)
}

// loopExceptions: frozen table of loops whose order-sensitive effect was confirmed harmless by reading.
// key: "<function>: range over <expr>|<effect kind>"
var loopExceptions = map[string]string{
	"(*BlockExecutor).registerBoltContracts|call":           "start-up only: constructs one instance per registered contract for an address-keyed registry",
	"(*BlockExecutor).registerBoltContracts|append":         "the slice only feeds boltvm.Register / GetBoltContracts, which key the contracts by address",
	"(*internal/ledger.SimpleLedger).FlushDirtyData|append": "journals: the order of undo records inside a block journal is neither hashed nor observable through the ledger API (the hashed data follows sortedAddr, which is sorted)",
	"(*internal/ledger.AccountCache).add|call-arg":          "in-memory LRU caches: insertion order only changes which entries are evicted; coherence of cache reads is decided by C13",
	"(*internal/ledger.SimpleLedger).Logs|append":           "Logs() has no caller on the block-execution path (API/filter use only)",
	"pkg/utils.AddAuditPermitBloom|call-arg":                "Bloom.Add sets bits (commutative, idempotent)",
	"(*internal/ledger.SimpleLedger).Commit|call-arg":       "batch operations of distinct keys inside one atomic batch",
	"(*BlockExecutor).setTimeoutList|call-arg":              "addTimeoutList / removeTimeoutList only read ledger state; the write that follows is keyed by the range key (height)",
}

type loopVerdict struct {
	ok     bool
	why    string
	effect string
	pos    string
}

// decideLoop classifies one loop.
func (c *Ctx) decideLoop(l *mapLoop) loopVerdict {
	m := c.Contracts()
	effs := l.effects(func(in ssa.Instruction) core.KindSet { return m.eff.InstrKinds(in) }, c.writeModel())
	var reasons []string
	fnKey := shortFn(l.fn)
	top := l.fn
	for top.Parent() != nil {
		top = top.Parent()
	}
	if top != l.fn {
		fnKey = shortFn(top)
	}
	for _, e := range effs {
		if !e.sensitive {
			reasons = append(reasons, e.kind+": "+e.why)
			continue
		}
		pos := ""
		if e.in != nil {
			pos = c.P.Pos(e.in.Pos())
		}
		exc := func() (string, bool) {
			why, ok := loopExceptions[fnKey+"|"+e.kind]
			return why, ok
		}
		switch e.kind {
		case "append", "concat":
			if lk, ok := e.target.(*ssa.Lookup); ok {
				_ = lk
			}
			ok, use, nSort := l.sanitized(e.target)
			if os.Getenv("BXH_DEBUG") != "" {
				fmt.Printf("DBG %s target=%s(%T) ok=%v nSort=%d use=%v\n", fnKey, e.target.Name(), e.target, ok, nSort, use)
			}
			if ok && nSort > 0 {
				reasons = append(reasons, e.kind+" to "+describe(e.target)+": sorted before any other use")
				continue
			}
			if ok && nSort == 0 {
				// never read again inside this function: does it escape through a return / field?
				if _, isPhi := e.target.(*ssa.Phi); isPhi {
					reasons = append(reasons, e.kind+" to "+describe(e.target)+": not used after the loop")
					continue
				}
			}
			if why, okx := exc(); okx {
				reasons = append(reasons, "exception: "+why)
				continue
			}
			at := pos
			if use != nil {
				at = c.P.Pos(use.Pos())
			}
			return loopVerdict{false, fmt.Sprintf("%s (%s) collects elements in map iteration order and is used at %s without being sorted first", describe(e.target), e.desc, at), e.kind, pos}
		case "call":
			call := e.in.(ssa.CallInstruction)
			keyed := false
			if ka := storageKeyArgs(call); ka != nil {
				// a known write primitive: its storage key must derive from the entry (its key, or the
				// entry object's own identity such as account.Addr)
				for _, a := range ka {
					if l.dependsOnIter(a) {
						keyed = true
					}
				}
			} else {
				for _, a := range call.Common().Args {
					if l.mentionsKey(a) {
						keyed = true
					}
				}
				// a module helper whose storage writes are all keyed by one of its parameters (e.g.
				// putChangedStates(batch, account)): keyed when that argument is the entry's own data
				if !keyed {
					if g := core.StaticCallee(call); g != nil && len(g.Blocks) > 0 && c.P.InModule(g) {
						for _, pi := range helperKeyParams(g) {
							if pi < len(call.Common().Args) && l.dependsOnIter(call.Common().Args[pi]) {
								keyed = true
							}
						}
					}
				}
			}
			if keyed {
				reasons = append(reasons, e.desc+": storage key derived from the range key")
				continue
			}
			if why, okx := exc(); okx {
				reasons = append(reasons, "exception: "+why)
				continue
			}
			return loopVerdict{false, e.desc + " is executed once per map entry in iteration order and its target does not depend on the range key: the last writer / the order of the posted events differs between nodes", e.kind, pos}
		case "call-arg":
			call := e.in.(*ssa.Call)
			callee := core.StaticCallee(call)
			idx := -1
			for i, a := range call.Call.Args {
				if t := l.outerContainer(a, 0); t != nil && t == e.target {
					idx = i
				}
			}
			if callee != nil && idx >= 0 && !writesThroughParam(callee, idx, 0) {
				continue
			}
			// receiver objects of the executor / contracts are not containers
			if idx == 0 && call.Call.Signature().Recv() != nil {
				if _, isPtr := call.Call.Args[0].Type().Underlying().(*types.Pointer); isPtr {
					if callee != nil && !writesThroughParam(callee, 0, 0) {
						continue
					}
				}
			}
			if why, okx := exc(); okx {
				reasons = append(reasons, "exception: "+why)
				continue
			}
			ok, use, nSort := l.sanitized(e.target)
			if ok && nSort > 0 {
				reasons = append(reasons, e.desc+": sorted before any other use")
				continue
			}
			at := pos
			if use != nil {
				at = c.P.Pos(use.Pos())
			}
			return loopVerdict{false, fmt.Sprintf("%s accumulates into %s in map iteration order (used at %s without a sort)", shortCallee(call), describe(e.target), at), e.kind, pos}
		case "store":
			if l.iterationVar(e.target) {
				continue
			}
			if why, okx := exc(); okx {
				reasons = append(reasons, "exception: "+why)
				continue
			}
			return loopVerdict{false, e.desc + ": the value that survives the loop is the one of the last (or first matching) map entry", e.kind, pos}
		case "exit":
			allPanic := true
			for _, xb := range l.earlyExits() {
				if !endsInPanic(l, xb) {
					if l.exitCarriesIter(xb) {
						allPanic = false
					}
				}
			}
			if allPanic {
				reasons = append(reasons, "early exits carrying entry data end in panic")
				continue
			}
			if why, okx := exc(); okx {
				reasons = append(reasons, "exception: "+why)
				continue
			}
			return loopVerdict{false, "the loop is left at the first map entry that satisfies a condition and data of that entry flows out (error text / result): with two such entries the outcome depends on the iteration order", e.kind, pos}
		default:
			if why, okx := exc(); okx {
				reasons = append(reasons, "exception: "+why)
				continue
			}
			return loopVerdict{false, e.desc, e.kind, pos}
		}
	}
	if len(reasons) == 0 {
		return loopVerdict{ok: true, why: "body has no order-relevant effect (reads, keyed stores, commutative updates, constant flags)"}
	}
	reasons = dedupStrings(reasons)
	return loopVerdict{ok: true, why: strings.Join(reasons, "; ")}
}

func dedupStrings(in []string) []string {
	seen := map[string]bool{}
	var out []string
	for _, s := range in {
		if !seen[s] {
			seen[s] = true
			out = append(out, s)
		}
	}
	return out
}

// mentionsKey: v depends on the range key.
func (l *mapLoop) mentionsKey(v ssa.Value) bool {
	return core.Mentions(v, func(x ssa.Value) bool {
		ex, ok := x.(*ssa.Extract)
		return ok && ex.Tuple == ssa.Value(l.next) && ex.Index == 1
	})
}

// exitCarriesIter: instructions reachable from exit block xb use the loop's key/value.
func (l *mapLoop) exitCarriesIter(xb *ssa.BasicBlock) bool {
	seen := map[*ssa.BasicBlock]bool{}
	found := false
	var walk func(b *ssa.BasicBlock)
	walk = func(b *ssa.BasicBlock) {
		if seen[b] || l.body[b] || b == l.header || found {
			return
		}
		seen[b] = true
		for _, in := range b.Instrs {
			if _, isDbg := in.(*ssa.DebugRef); isDbg {
				continue
			}
			var ops []*ssa.Value
			for _, op := range in.Operands(ops) {
				if *op != nil && l.dependsOnIter(*op) {
					found = true
					return
				}
			}
		}
		for _, s := range b.Succs {
			walk(s)
		}
	}
	walk(xb)
	return found
}

// C01: block execution is deterministic.
func C01(c *Ctx) {
	r := c.R
	r.Rule("R01.1", "map order: every `range` over a Go map in the block-execution packages (executor, built-in contracts, ledger, vm, proof, utils) has an order-insensitive body (reads, stores keyed by the range key, commutative updates, constant flags, ledger / contract writes whose key derives from the range key), or everything it accumulates is sorted before any other use, or it is a frozen, argued exception. A slice or string built in iteration order, a write whose target does not depend on the key, or an early exit that lets data of the first matching entry out is a violation.")
	r.Rule("R01.2", "clock and randomness: values of time.Now / time.Since / math/rand / crypto/rand in those packages flow only into logging, metrics and durations - never into a contract write, a receipt, a block header field or a hash.")
	r.Rule("R01.3", "goroutine writes: a goroutine started during block execution writes shared state only through a map store keyed by its own index / its own transaction, under a mutex; it never appends to a captured slice.")
	r.Rule("R01.4", "in-memory caches follow the ledger: the executor's service cache is filled only for events of successful transactions and is reset whenever ledger history is discarded (rollbackBlocks).")
	r.NotDecided = append(r.NotDecided, "that execution is otherwise a function of (genesis, blocks): dependency behaviour (EVM, wasm runtime, validators), floating point, pointer-dependent formatting, the LRU caches' eviction order (decided as coherence by C13), stop/restart placement (ledger reopen is C11/C12)")

	// R01.1
	n := 0
	seenKey := map[string]int{}
	for _, fn := range c.P.ModuleFuncs(true) {
		if !c01Scope(core.PkgOf(fn)) {
			continue
		}
		for _, l := range findMapLoops(fn) {
			n++
			key := shortFn(fn) + ": range over " + describe(l.rg.X)
			seenKey[key]++
			if seenKey[key] > 1 {
				key = fmt.Sprintf("%s #%d", key, seenKey[key])
			}
			v := c.decideLoop(l)
			pos := c.P.Pos(l.rg.Pos())
			if v.ok {
				r.OK("R01.1", key, pos, v.why)
			} else {
				if v.pos != "" {
					pos = v.pos
				}
				r.Bad("R01.1", key, pos, v.why)
			}
		}
	}
	r.Floor("R01.1", "map-range loops in scope", n, 40)
	// sync.Map.Range callbacks in scope
	nsm := 0
	for _, fn := range c.P.ModuleFuncs(true) {
		if !c01Scope(core.PkgOf(fn)) {
			continue
		}
		for _, call := range core.Calls(fn) {
			if core.CalleeName(call) != "(*sync.Map).Range" {
				continue
			}
			nsm++
			key := shortFn(fn) + ": sync.Map.Range"
			seenKey[key]++
			if seenKey[key] > 1 {
				key = fmt.Sprintf("%s #%d", key, seenKey[key])
			}
			ok, why := c.syncMapRangeInsensitive(fn, call)
			r.Check(ok, "R01.1", key, c.P.Pos(call.Pos()), why, "the callback of sync.Map.Range runs in unspecified order and "+why)
		}
	}
	r.Count("R01.1 sync.Map.Range sites", nsm)

	r.Rule("R01.5", "the audit switch changes nothing but audit: in the built-in contracts the region executed only when EnableAudit() is true posts events of AUDIT_* types only - an INTERCHAIN / SERVICE / NODEMGR event posted there makes delivery sets, the service cache or membership depend on a node-local configuration flag.")
	r.Rule("R01.8", freshUndoText)
	c.freshUndo("R01.8")
	r.Rule("R01.9", "what genesis writes is in the genesis block: in genesis.Initialize every write to ledger state (SetState / SetBalance / SetNonce / SetCode / AddState, also inside the helpers it calls) precedes FlushDirtyData - a write after the flush and PersistBlockData lives only in memory until the next block is flushed, so a node restarted before block 2 executes block 2 without it and computes another state root.")
	c.c01GenesisWrites()
	c.auditIndependence(c.Contracts(), "R01.5", true)
	c.c01Clock()
	c.c01Goroutines()
	c.c01Cache()
	r.Rule("R01.6", "replay after a restart starts from what was recorded (shared with C10 R10.4): "+balanceInPlaceText+" A node that was stopped between the state commit and the chain commit rolls the block back from that journal and executes it again: with a wrong previous balance it computes another state root than the nodes that ran through.")
	c.balanceInPlace("R01.6")
	r.Rule("R01.7", "block metadata is a function of the block (shared with C02 R02.7): "+perBlockResetText)
	c.perBlockReset("R01.7")
}

// syncMapRangeInsensitive: the callback only performs keyed writes / commutative work.
func (c *Ctx) syncMapRangeInsensitive(fn *ssa.Function, call ssa.CallInstruction) (bool, string) {
	args := call.Common().Args
	mc, ok := args[len(args)-1].(*ssa.MakeClosure)
	if !ok {
		return false, "its callback is not a function literal"
	}
	cl := mc.Fn.(*ssa.Function)
	keyParam := cl.Params[0]
	mentionsKey := func(v ssa.Value) bool {
		return core.Mentions(v, func(x ssa.Value) bool { return x == ssa.Value(keyParam) })
	}
	for _, b := range cl.Blocks {
		for _, in := range b.Instrs {
			switch x := in.(type) {
			case *ssa.MapUpdate:
				if !mentionsKey(x.Key) {
					return false, "stores into a map under a key that does not depend on the callback's key (" + c.P.Pos(x.Pos()) + ")"
				}
			case *ssa.Store:
				if _, isAlloc := x.Addr.(*ssa.Alloc); isAlloc {
					continue
				}
				if fv, ok := x.Addr.(*ssa.FreeVar); ok {
					_ = fv
					if _, isC := x.Val.(*ssa.Const); isC {
						continue
					}
					if ac, ok := x.Val.(*ssa.Call); ok {
						if bn, ok := ac.Call.Value.(*ssa.Builtin); ok && bn.Name() == "append" {
							continue // judged at the append
						}
					}
					return false, "assigns a captured variable (" + c.P.Pos(x.Pos()) + ")"
				}
			case ssa.CallInstruction:
				if bn, ok := x.Common().Value.(*ssa.Builtin); ok {
					if bn.Name() == "append" {
						// append to a captured slice
						var fv *ssa.FreeVar
						core.Mentions(x.Common().Args[0], func(v ssa.Value) bool {
							if f, ok := v.(*ssa.FreeVar); ok {
								fv = f
							}
							return false
						})
						if fv != nil {
							// the captured slice must be sorted in the parent before anything else reads it
							sorted := false
							for i, f := range cl.FreeVars {
								if f == fv && i < len(mc.Bindings) {
									if ci, ok := call.(ssa.Instruction); ok {
										okS, _, nS := sanitizedFrom(fn, core.After(ci), nil, mc.Bindings[i])
										sorted = okS && nS > 0
									}
								}
							}
							if !sorted {
								return false, "appends to a captured slice that is not sorted before its next use (" + c.P.Pos(x.Pos()) + ")"
							}
						}
					}
					continue
				}
				o := core.CalleeObj(x)
				if o == nil {
					continue
				}
				switch o.Name() {
				case "Put", "Delete", "Set", "SetState", "Store":
					keyed := false
					for _, a := range x.Common().Args {
						if mentionsKey(a) {
							keyed = true
						}
					}
					if !keyed {
						return false, "writes under a key that does not depend on the callback's key (" + c.P.Pos(x.Pos()) + ")"
					}
				}
			}
		}
	}
	return true, "callback performs only keyed writes and reads"
}

// c01Clock: R01.2.
func (c *Ctx) c01Clock() {
	r := c.R
	isClock := func(call ssa.CallInstruction) bool {
		n := core.CalleeName(call)
		return n == "time.Now" || strings.HasPrefix(n, "math/rand.") || strings.HasPrefix(n, "crypto/rand.") || n == "os.Getpid"
	}
	// allowed consumers of a clock-derived value
	allowedUse := func(in ssa.Instruction) bool {
		call, ok := in.(ssa.CallInstruction)
		if !ok {
			return false
		}
		n := core.CalleeName(call)
		switch {
		case n == "time.Since", strings.HasPrefix(n, "(time.Time)."), strings.HasPrefix(n, "(time.Duration)."):
			return true
		case strings.Contains(n, "sirupsen/logrus"), strings.Contains(n, "prometheus"):
			return true
		case strings.HasSuffix(n, ".Observe"):
			return true
		}
		return false
	}
	// frozen exceptions
	exceptions := map[string]string{
		"internal/ledger/genesis.Initialize":           "the genesis block's Timestamp field is the only clock value stored; it is not covered by BlockHeader.Hash and genesis is created once per network from the same configuration (documented residual: replicas initialising their own genesis agree on hash, not on this field)",
		"(*BlockExecutor).evmInterchain":               "",
		"internal/executor.newEvm":                     "",
		"(*pkg/vm/boltvm.BoltStubImpl).GetTxTimeStamp": "",
	}
	n := 0
	for _, fn := range c.P.ModuleFuncs(true) {
		if !c01Scope(core.PkgOf(fn)) {
			continue
		}
		for _, call := range core.Calls(fn) {
			if !isClock(call) {
				continue
			}
			cv, ok := call.(*ssa.Call)
			if !ok {
				continue
			}
			n++
			key := shortFn(fn) + ": " + shortCallee(call)
			// forward slice of the value through the function
			bad := c.clockEscapes(fn, cv, allowedUse)
			top := fn
			for top.Parent() != nil {
				top = top.Parent()
			}
			if bad == "" {
				r.OK("R01.2", key, c.P.Pos(call.Pos()), "flows only into durations, logging and metrics")
				continue
			}
			if why, ok := exceptions[shortFn(top)]; ok && why != "" {
				r.Note("R01.2", key, c.P.Pos(call.Pos()), "frozen exception: "+why)
				continue
			}
			r.Bad("R01.2", key, c.P.Pos(call.Pos()), "a wall-clock / random value reaches "+bad+": replicas executing the same block compute different results")
		}
	}
	r.Floor("R01.2", "clock / randomness sources in scope", n, 5)
}

// clockEscapes follows the uses of v inside fn; returns a description of the first use that is
// neither an allowed consumer nor a pure local computation ending in one.
func (c *Ctx) clockEscapes(fn *ssa.Function, v ssa.Value, allowed func(ssa.Instruction) bool) string {
	seen := map[ssa.Value]bool{}
	var walk func(v ssa.Value) string
	walk = func(v ssa.Value) string {
		if seen[v] {
			return ""
		}
		seen[v] = true
		refs := v.Referrers()
		if refs == nil {
			return ""
		}
		for _, in := range *refs {
			if allowed(in) {
				// time.Since / Time.Unix / Duration.Seconds ... are transparent: their result is followed too
				if cv, ok := in.(*ssa.Call); ok {
					n := core.CalleeName(cv)
					if n == "time.Since" || strings.HasPrefix(n, "(time.Time).") || strings.HasPrefix(n, "(time.Duration).") {
						if s := walk(cv); s != "" {
							return s
						}
					}
				}
				continue
			}
			switch x := in.(type) {
			case *ssa.DebugRef:
				continue
			case *ssa.BinOp, *ssa.Convert, *ssa.ChangeType, *ssa.MakeInterface, *ssa.Phi, *ssa.UnOp, *ssa.Extract, *ssa.Slice:
				if s := walk(x.(ssa.Value)); s != "" {
					return s
				}
			case *ssa.Store:
				// stored into a local used later: follow loads of that alloc
				if a, ok := x.Addr.(*ssa.Alloc); ok {
					if s := walk(a); s != "" {
						return s
					}
					continue
				}
				return "a store to " + describe(x.Addr) + " at " + c.P.Pos(x.Pos())
			case ssa.CallInstruction:
				n := core.CalleeName(x)
				if strings.HasPrefix(n, "fmt.Sprint") || strings.HasPrefix(n, "strconv.") {
					if cv, ok := x.(*ssa.Call); ok {
						if s := walk(cv); s != "" {
							return s
						}
						continue
					}
				}
				return "the call " + shortCallee(x) + " at " + c.P.Pos(x.Pos())
			case *ssa.Return:
				return "the function result at " + c.P.Pos(x.Pos())
			case *ssa.MapUpdate:
				if strings.HasSuffix(x.Map.Type().String(), "logrus.Fields") {
					continue
				}
				return fmt.Sprintf("%T at %s", in, c.P.Pos(in.Pos()))
			case *ssa.Send:
				return fmt.Sprintf("%T at %s", in, c.P.Pos(in.Pos()))
			default:
				if val, ok := in.(ssa.Value); ok {
					if s := walk(val); s != "" {
						return s
					}
				}
			}
		}
		return ""
	}
	return walk(v)
}

// c01Goroutines: R01.3.
func (c *Ctx) c01Goroutines() {
	r := c.R
	n := 0
	for _, spec := range []string{"internal/executor.(*BlockExecutor).verifySign", "internal/executor.(*BlockExecutor).verifyProofs"} {
		fn := c.fn("R01.3", spec)
		if fn == nil {
			continue
		}
		for _, b := range fn.Blocks {
			for _, in := range b.Instrs {
				g, ok := in.(*ssa.Go)
				if !ok {
					continue
				}
				cl, mc := goBody(g)
				if cl == nil {
					continue
				}
				n++
				key := shortFn(fn) + ": goroutine " + cl.Name()
				bad := ""
				// a named function started as goroutine reaches the spawner's state through its pointer-like arguments
				capturedRoot := func(v ssa.Value) bool { return sharedRoot(v, mc == nil) }
				for _, f := range core.WithClosures(cl) {
					for _, bb := range f.Blocks {
						for _, x := range bb.Instrs {
							switch y := x.(type) {
							case *ssa.Store:
								// stores to captured variables (not locals)
								if capturedRoot(y.Addr) {
									if _, isC := y.Val.(*ssa.Const); !isC {
										bad = "stores to captured state at " + c.P.Pos(y.Pos())
									}
								}
							case *ssa.MapUpdate:
								if !capturedRoot(y.Map) {
									continue // goroutine-local map
								}
								// key must derive from the goroutine's parameters (its index) or from goroutine-local data, under a lock
								fromParam := core.Mentions(y.Key, func(v ssa.Value) bool {
									switch p := v.(type) {
									case *ssa.Parameter:
										if mc == nil && pointerLike(p.Type()) {
											return false // shared state handed to a named goroutine body, not its own index
										}
										return p.Parent() == cl
									case *ssa.FreeVar:
										// a parameter of the goroutine captured by its own nested closure
										for _, q := range cl.Params {
											if q.Name() == p.Name() && p.Parent() != cl {
												return true
											}
										}
									case *ssa.MakeSlice:
										return p.Parent() == cl
									}
									return false
								})
								locked := false
								for _, call := range core.Calls(f) {
									if core.CalleeName(call) == "(*sync.Mutex).Lock" {
										locked = true
									}
								}
								if !fromParam {
									bad = "map store under a key that is not the goroutine's own index at " + c.P.Pos(y.Pos())
								} else if !locked {
									bad = "map store without holding the mutex at " + c.P.Pos(y.Pos())
								}
							}
						}
					}
				}
				r.Check(bad == "", "R01.3", key, c.P.Pos(g.Pos()), "writes only map[ownIndex] under the mutex", "a goroutine of block execution "+bad+": the result depends on the completion order of the goroutines")
				// a variable the goroutine captures by reference must not be overwritten by the spawner while the
				// goroutine may still read it (the module's go directive predates per-iteration loop variables:
				// a captured range variable is shared by all iterations)
				isWait := func(x ssa.Instruction) bool {
					call, ok := x.(ssa.CallInstruction)
					return ok && core.CalleeName(call) == "(*sync.WaitGroup).Wait"
				}
				after := core.Reach([]core.Point{core.After(g)}, isWait, nil)
				shared := ""
				var bindings []ssa.Value
				if mc != nil {
					bindings = mc.Bindings // a named body receives its arguments by value when the goroutine starts
				}
				for bi, bnd := range bindings {
					al, isAlloc := bnd.(*ssa.Alloc)
					if !isAlloc || bi >= len(cl.FreeVars) {
						continue
					}
					read := false
					for _, f := range core.WithClosures(cl) {
						for _, bb := range f.Blocks {
							for _, x := range bb.Instrs {
								if u, ok := x.(*ssa.UnOp); ok && u.Op == token.MUL {
									if fv, ok := u.X.(*ssa.FreeVar); ok && fv.Name() == cl.FreeVars[bi].Name() {
										read = true
									}
								}
							}
						}
					}
					if !read {
						continue
					}
					for _, st := range core.StoreInstrsInto(al) {
						if st.Parent() == fn && after.Has(st) {
							shared = al.Comment + " (overwritten at " + c.P.Pos(st.Pos()) + ")"
						}
					}
				}
				r.Check(shared == "", "R01.3", key+" reads no variable the spawner keeps writing", c.P.Pos(g.Pos()), "every captured variable is written only before the goroutine starts or after the join",
					"the goroutine reads the captured variable "+shared+" while the spawning loop overwrites it: which value it sees - e.g. which transaction it verifies - depends on scheduling, so replicas disagree")
			}
		}
	}
	r.Floor("R01.3", "goroutines of block execution", n, 2)
}

// c01Cache: R01.4.
func (c *Ctx) c01Cache() {
	r := c.R
	ax := c.fn("R01.4", "internal/executor.(*BlockExecutor).applyTx")
	if ax != nil {
		isStore := func(in ssa.Instruction) bool {
			call, ok := in.(ssa.CallInstruction)
			return ok && core.CalleeName(call) == "(*sync.Map).Store" && core.Mentions(call.Common().Args[0], fieldNamed("serviceCache"))
		}
		notFailed := receiptSuccessEdges(ax)
		n := c.behindEdges("R01.4", "applyTx", ax, notFailed, c.throughHelpers(isStore), "receipt.Status != FAILED", "service cache fill")
		r.Floor("R01.4", "service cache fills", n, 1)
	}
	if rb := c.fn("R01.4", "internal/executor.(*BlockExecutor).rollbackBlocks"); rb != nil {
		isRollback := func(in ssa.Instruction) bool {
			call, ok := in.(ssa.CallInstruction)
			return ok && strings.HasSuffix(core.CalleeName(call), "ledger.Ledger).Rollback")
		}
		isReset := storesToField("BlockExecutor", "serviceCache")
		var gs []core.GuardSite
		for _, in := range sites(rb, isRollback) {
			if cl, ok := in.(*ssa.Call); ok {
				gs = append(gs, core.GuardSite{Call: cl, Conv: core.ConvErrNil, Idx: -1})
			}
		}
		var starts []core.Point
		for b, m := range core.SuccessEdges(rb, gs) {
			for i := range m {
				starts = append(starts, core.Point{B: b.Succs[i], Idx: 0})
			}
		}
		rs := core.Reach(starts, func(in ssa.Instruction) bool { return isReset(in) }, nil)
		ok := len(starts) > 0
		for _, ret := range core.Returns(rb) {
			if rs.Has(ret) {
				ok = false
			}
		}
		r.Check(ok, "R01.4", "rollbackBlocks: service cache reset after a successful ledger rollback", c.P.Pos(rb.Pos()), "every path from Rollback()==nil to a return stores a fresh serviceCache", "after ledger history was discarded the executor keeps service records cached from the discarded blocks: later blocks are executed against them on this node only")
	}
}

var _ = sort.Strings

// capturedRoot: the address / map value is rooted in a captured (free) variable rather than in a local.
// goBody: the function a go statement runs, when it is a closure literal (mc != nil) or a statically known
// function / method of the module (mc == nil).
func goBody(g *ssa.Go) (*ssa.Function, *ssa.MakeClosure) {
	if mc, ok := g.Call.Value.(*ssa.MakeClosure); ok {
		if f, ok := mc.Fn.(*ssa.Function); ok {
			return f, mc
		}
		return nil, nil
	}
	if sc := g.Call.StaticCallee(); sc != nil && len(sc.Blocks) > 0 {
		return sc, nil
	}
	return nil, nil
}

func pointerLike(t types.Type) bool {
	switch t.Underlying().(type) {
	case *types.Pointer, *types.Map, *types.Slice, *types.Chan, *types.Interface:
		return true
	}
	return false
}

// sharedRoot: v is rooted in state that outlives the goroutine: a captured variable, or - for a named body - a
// pointer-like parameter.
func sharedRoot(v ssa.Value, named bool) bool {
	for i := 0; i < 8; i++ {
		switch x := v.(type) {
		case *ssa.FieldAddr:
			v = x.X
		case *ssa.IndexAddr:
			v = x.X
		case *ssa.UnOp:
			if x.Op != token.MUL {
				return false
			}
			v = x.X
		case *ssa.FreeVar:
			return true
		case *ssa.Parameter:
			return named && pointerLike(x.Type())
		default:
			return false
		}
	}
	return false
}

func capturedRoot(v ssa.Value) bool {
	for i := 0; i < 8; i++ {
		switch x := v.(type) {
		case *ssa.FieldAddr:
			v = x.X
		case *ssa.IndexAddr:
			v = x.X
		case *ssa.UnOp:
			if x.Op != token.MUL {
				return false
			}
			v = x.X
		case *ssa.FreeVar:
			return true
		default:
			return false
		}
	}
	return false
}

var theWriteModel *writeModel

func (c *Ctx) writeModel() *writeModel {
	if theWriteModel == nil {
		theWriteModel = &writeModel{memo: map[*ssa.Function]int{}}
	}
	return theWriteModel
}

// storageKeyArgs returns the arguments of a known write primitive that select WHAT is written
// (storage key / account address); nil for other calls.
func storageKeyArgs(call ssa.CallInstruction) []ssa.Value {
	o := core.CalleeObj(call)
	if o == nil {
		return nil
	}
	args := call.Common().Args
	if !call.Common().IsInvoke() && call.Common().Signature().Recv() != nil && len(args) > 0 {
		args = args[1:]
	}
	n := 0
	switch o.Name() {
	case "Set", "SetObject", "Add", "AddObject", "Delete", "Put", "SetNonce", "SetBalance", "SetCode", "SetCodeAndHash":
		n = 1
	case "SetState", "AddState":
		n = 2
	default:
		return nil
	}
	if len(args) < n {
		return nil
	}
	return args[:n]
}

// helperKeyParams: parameter indices p of g such that every storage write primitive executed by g (its closures
// included) selects its target (storage key / address) from p; empty when g has no such writes or some write's
// target does not depend on a parameter.
func helperKeyParams(g *ssa.Function) []int { return helperKeyParamsD(g, 0) }

// hasStorageWrites: g (closures and module helpers to depth 2 included) performs a storage write primitive.
func hasStorageWrites(g *ssa.Function, depth int) bool {
	for _, f := range core.WithClosures(g) {
		for _, call := range core.Calls(f) {
			if storageKeyArgs(call) != nil {
				if c2, ok := call.(*ssa.Call); ok && isPureCallee(c2) {
					continue
				}
				return true
			}
			if h := core.StaticCallee(call); h != nil && h != g && len(h.Blocks) > 0 && depth < 2 && core.TheProg != nil && core.TheProg.InModule(h) && core.PkgOf(h) == core.PkgOf(g) && hasStorageWrites(h, depth+1) {
				return true
			}
		}
	}
	return false
}

func helperKeyParamsD(g *ssa.Function, depth int) []int {
	counts := map[int]int{}
	n := 0
	for _, f := range core.WithClosures(g) {
		for _, call := range core.Calls(f) {
			ka := storageKeyArgs(call)
			if ka == nil {
				// a helper of the same package that writes (st.addRecord(account) inside st.add): its writes count as one
				// write keyed by those of g's parameters that it receives in its own key parameters
				h := core.StaticCallee(call)
				if h == nil || h == g || len(h.Blocks) == 0 || depth >= 2 || core.PkgOf(h) != core.PkgOf(g) || !hasStorageWrites(h, depth+1) {
					continue
				}
				n++
				seen := map[int]bool{}
				for _, pi := range helperKeyParamsD(h, depth+1) {
					if pi >= len(call.Common().Args) {
						continue
					}
					core.Mentions(call.Common().Args[pi], func(v ssa.Value) bool {
						switch x := v.(type) {
						case *ssa.Parameter:
							for i, p := range g.Params {
								if p == x {
									seen[i] = true
								}
							}
						case *ssa.FreeVar:
							for i, p := range g.Params {
								if p.Name() == x.Name() {
									seen[i] = true
								}
							}
						}
						return false
					})
				}
				for i := range seen {
					counts[i]++
				}
				continue
			}
			if c2, ok := call.(*ssa.Call); ok && isPureCallee(c2) {
				continue
			}
			n++
			seen := map[int]bool{}
			for _, a := range ka {
				core.Mentions(a, func(v ssa.Value) bool {
					switch x := v.(type) {
					case *ssa.Parameter:
						for i, p := range g.Params {
							if p == x {
								seen[i] = true
							}
						}
					case *ssa.FreeVar:
						for i, p := range g.Params {
							if p.Name() == x.Name() {
								seen[i] = true
							}
						}
					}
					return false
				})
			}
			for i := range seen {
				counts[i]++
			}
		}
	}
	var out []int
	for i, k := range counts {
		if k == n && n > 0 {
			out = append(out, i)
		}
	}
	sort.Ints(out)
	return out
}

// c01GenesisWrites: R01.9.
func (c *Ctx) c01GenesisWrites() {
	r := c.R
	fn := c.fn("R01.9", "internal/ledger/genesis.Initialize")
	if fn == nil {
		return
	}
	isWriteDirect := func(in ssa.Instruction) bool {
		call, ok := in.(ssa.CallInstruction)
		if !ok || core.CalleeObj(call) == nil {
			return false
		}
		switch core.CalleeObj(call).Name() {
		case "SetState", "SetBalance", "SetNonce", "SetCode", "AddState":
			return strings.Contains(core.CalleeName(call), "ledger.")
		}
		return false
	}
	isWrite := c.throughHelpers(isWriteDirect)
	isFlush := callToMethod("FlushDirtyData")
	flushes := sites(fn, isFlush)
	writes := sites(fn, isWrite)
	r.Floor("R01.9", "ledger writes in genesis.Initialize", len(writes), 3)
	if len(flushes) == 0 {
		r.Unknown("R01.9", "Initialize: flush site", c.P.Pos(fn.Pos()), "no FlushDirtyData call found in genesis.Initialize")
		return
	}
	var starts []core.Point
	for _, f := range flushes {
		starts = append(starts, core.After(f))
	}
	after := core.Reach(starts, nil, nil)
	bad := ""
	for _, w := range writes {
		if after.Has(w) {
			bad = shortCallee(w.(ssa.CallInstruction)) + " at " + c.P.Pos(w.Pos())
		}
	}
	if bad == "" {
		r.OK("R01.9", "Initialize: every ledger write precedes the flush of the genesis block", c.P.Pos(fn.Pos()), fmt.Sprintf("%d write site(s), none reachable after FlushDirtyData", len(writes)))
	} else {
		r.Bad("R01.9", "Initialize: every ledger write precedes the flush of the genesis block", c.P.Pos(fn.Pos()), bad+" writes ledger state after the genesis block was flushed and persisted: the entries (the BNS defaults) are in no block's journal until block 2 is flushed; a node stopped and restarted before block 2 never has them, computes another state root for block 2 and answers the price query of block 3 with an error")
	}
}
