package rules

import (
	"fmt"
	"go/constant"
	"go/token"
	"go/types"
	"sort"
	"strings"

	"bxhlint/core"

	"golang.org/x/tools/go/ssa"
)

// keyCtorOf: v is the result of a call to a key-constructor function of the contracts package
// (a package-level function returning string whose name ends in "Key"); returns its name and argument.
func keyCtorOf(v ssa.Value) (string, *ssa.Call) {
	cc, ok := core.Strip(v).(*ssa.Call)
	if !ok {
		return "", nil
	}
	callee := core.StaticCallee(cc)
	if callee == nil || callee.Signature.Recv() != nil || !strings.HasSuffix(callee.Name(), "Key") {
		return "", nil
	}
	if callee.Package() == nil || !strings.HasSuffix(callee.Package().Pkg.Path(), "internal/executor/contracts") {
		return "", nil
	}
	return callee.Name(), cc
}

func isOrderedMap(v ssa.Value) bool {
	return strings.Contains(v.Type().String(), "orderedmap.OrderedMap")
}

// sameMapVar: a and b denote the same ordered-map variable (pointer value, or address of the variable holding it).
func sameMapVar(a, b ssa.Value) bool {
	norm := func(v ssa.Value) ssa.Value {
		v = core.Strip(v)
		for i := 0; i < 3; i++ {
			if u, ok := v.(*ssa.UnOp); ok {
				v = u.X
				continue
			}
			break
		}
		return v
	}
	na, nb := norm(a), norm(b)
	if na == nb {
		return true
	}
	// pointer value stored into an Alloc: `m := orderedmap.New()` escaping as &m
	if al, ok := na.(*ssa.Alloc); ok {
		for _, st := range core.StoresTo(al) {
			if core.Strip(st) == nb {
				return true
			}
		}
	}
	if al, ok := nb.(*ssa.Alloc); ok {
		for _, st := range core.StoresTo(al) {
			if core.Strip(st) == na {
				return true
			}
		}
	}
	return false
}

// c17IndexAgreement: R17.6.
func (c *Ctx) c17IndexAgreement() {
	r := c.R
	r.Rule("R17.6", "index -> record key agreement: the ids listed in an id index (an ordered map stored under IndexKey(x), e.g. the admins of an appchain) name records of one collection; every place that walks such an index and builds a storage key from an element uses the key constructor under which the elements' records are written (role records: RoleKey). A walk that deletes / reads under another constructor leaves the real records untouched - a replaced admin keeps its role record and still passes the permission check.")
	r.Rule("R17.7", "role predicates decide on what they are asked: every predicate of RoleManager (is*/has*/check* returning bool or a Response) lets each of its parameters feed a branch condition or the returned value (through the calls it delegates to); a predicate that ignores the requested role type or id answers true for roles the caller guard was meant to exclude.")
	c.c17Predicates()
	r.Rule("R17.8", "self permission presupposes the object: where a checkPermission helper decides PermissionSelf by comparing the caller with the id argument itself, no entry that creates the object (governance event register) under a caller-chosen id parameter offers PermissionSelf - there self is true for whoever names himself.")
	c.c17SelfOnCreate()
	r.Rule("R17.9", "who may call which entry: the permission kinds (Self / Admin / Specific) every guarded dispatchable entry offers at its checkPermission guard - given at the guard or handed to a forwarding helper such as basicGovernance - stay within the reference table frozen in checker/rules/c17_perms.go (confirmed by reading the contracts); an added kind widens who may call the entry and is reported, a dropped kind is not. New entries are not in the table and are judged by R17.2 only.")
	c.c17PermTable()
	r.Rule("R17.10", "the owner comes from the record: where a function has loaded the governed object (a *Service, whose owner is its ChainID; a *Dapp, whose owner is its OwnerAddr) and then checks a Self / Admin permission, the identity it hands to checkPermission is that owner field of the loaded record - not something parsed out of the caller-supplied id string (appchain ids are free-form and may contain the separator, so the part before the first ':' of a service id can name another registered appchain, whose admin would then govern a service it does not own).")
	c.c17OwnerFromRecord()
	r.Rule("R17.11", "a reverse index follows its list: a function that stores a list of ids under a key of the owner (SetObject(ListKey(owner), ids)) and, for every id of the new list, a reverse entry (SetObject(EntryKey(id), owner)) also deletes the reverse entries of the ids of the list stored before (Delete(EntryKey(old)) for the elements loaded under the same ListKey(owner)), and reads that old list before it overwrites it. The reverse entry is what a permission check consults (appchain admin -> chain: PermissionSelf of the appchain manager); an id that is dropped from the list but keeps its entry keeps the permission.")
	c.c17ReverseIndex()
	r.Rule("R17.12", "an index answers for the owner it is asked about: RoleManager.GetAppchainAdmin, whose answer the chain-admin permission checks of the service / rule / appchain managers rely on, appends a role found through the chain's admin index to its result only behind the comparison of the role's AppchainID with the chain asked for. The index is a list of addresses; the role record behind an address may by now belong to another chain (the address was replaced here and registered there) - without the comparison the former admin passes the permission checks of this chain again.")
	c.c17IndexScope()
	r.Rule("R17.13", "locking stays inside one manager: object ids of different managers share the namespace of the proposal index (obj-<id>), so when SubmitProposal pauses lower-priority proposals of 'the same object', the status change to PAUSED lies behind a comparison of the found proposal's type with the type of the submitting manager; otherwise any account that may submit some proposal with a chosen id (RegisterAppchain with the id of somebody's dapp) pauses that object's open proposal.")
	c.c17LockScope()
	c.c17ExactIdentity()
	c.c17FreeOnlyLeaving()
	c.c17ManageTarget()
	c.c17OccupancySeesRoles()
	type site struct {
		idx, ctor, pos, fn string
	}
	var uses []site
	assoc := map[string]map[string]bool{}
	for _, fn := range c.Contracts().funcs {
		// index variables of this function: GetObject / SetObject(IdxCtor(..), m)
		type idxVar struct {
			m    ssa.Value
			ctor string
		}
		var idxs []idxVar
		for _, call := range core.Calls(fn) {
			o := core.CalleeObj(call)
			if o == nil || (o.Name() != "GetObject" && o.Name() != "SetObject") {
				continue
			}
			args := call.Common().Args
			if len(args) < 2 {
				continue
			}
			k, obj := args[len(args)-2], args[len(args)-1]
			inner := core.Strip(obj)
			if mi, ok := obj.(*ssa.MakeInterface); ok {
				inner = mi.X
			}
			if !isOrderedMap(inner) {
				continue
			}
			name, _ := keyCtorOf(k)
			if name == "" {
				// the index key is a parameter (shared walker / updater): take the constructors used by the callers
				if pi := paramIndex(fn, k); pi >= 0 {
					for _, caller := range c.Contracts().funcs {
						for _, cc := range core.Calls(caller) {
							if core.StaticCallee(cc) == fn && pi < len(cc.Common().Args) {
								if nm, _ := keyCtorOf(cc.Common().Args[pi]); nm != "" {
									idxs = append(idxs, idxVar{inner, nm})
								}
							}
						}
					}
				}
				continue
			}
			idxs = append(idxs, idxVar{inner, name})
		}
		if len(idxs) == 0 {
			continue
		}
		idxOf := func(m ssa.Value) string {
			for _, iv := range idxs {
				if sameMapVar(iv.m, m) {
					return iv.ctor
				}
			}
			return ""
		}
		idxAll := func(m ssa.Value) []string {
			var out []string
			seen := map[string]bool{}
			for _, iv := range idxs {
				if sameMapVar(iv.m, m) && !seen[iv.ctor] {
					seen[iv.ctor] = true
					out = append(out, iv.ctor)
				}
			}
			return out
		}
		// walks: key constructors applied to elements of m.Keys()
		for _, call := range core.Calls(fn) {
			if !strings.HasSuffix(core.CalleeName(call), "orderedmap.OrderedMap).Keys") {
				continue
			}
			kc, ok := call.(*ssa.Call)
			if !ok {
				continue
			}
			for _, idx := range idxAll(core.Receiver(call)) {
				for _, c2 := range core.Calls(fn) {
					cc, ok := c2.(*ssa.Call)
					if !ok {
						continue
					}
					name, _ := keyCtorOf(cc)
					if name == "" {
						continue
					}
					fromKeys := false
					for _, a := range cc.Call.Args {
						if core.Mentions(a, func(v ssa.Value) bool { return v == ssa.Value(kc) }) {
							fromKeys = true
						}
					}
					if fromKeys {
						uses = append(uses, site{idx, name, c.P.Pos(cc.Pos()), shortFn(fn)})
					}
				}
			}
		}
		// writers: m.Set(e, ..) together with SetObject(K(e), ..)
		for _, call := range core.Calls(fn) {
			if !strings.HasSuffix(core.CalleeName(call), "orderedmap.OrderedMap).Set") {
				continue
			}
			idx := idxOf(core.Receiver(call))
			if idx == "" {
				continue
			}
			e := core.Arg(call, 0)
			for _, c2 := range core.Calls(fn) {
				o := core.CalleeObj(c2)
				if o == nil || (o.Name() != "SetObject" && o.Name() != "AddObject" && o.Name() != "Set") {
					continue
				}
				if strings.Contains(core.CalleeName(c2), "orderedmap") {
					continue
				}
				args := c2.Common().Args
				if len(args) < 2 {
					continue
				}
				name, kcall := keyCtorOf(args[len(args)-2])
				if name == "" || name == idx {
					continue
				}
				for _, a := range kcall.Call.Args {
					if sameValue(a, e) || core.Strip(a) == core.Strip(e) {
						if assoc[idx] == nil {
							assoc[idx] = map[string]bool{}
						}
						assoc[idx][name] = true
					}
				}
			}
		}
	}
	// reference per index: the writers' constructor; without writers, the majority of the walks
	byIdx := map[string][]site{}
	for _, u := range uses {
		byIdx[u.idx] = append(byIdx[u.idx], u)
	}
	var names []string
	for k := range byIdx {
		names = append(names, k)
	}
	sort.Strings(names)
	n := 0
	for _, idx := range names {
		ref := ""
		if len(assoc[idx]) == 1 {
			for k := range assoc[idx] {
				ref = k
			}
		} else {
			cnt := map[string]int{}
			for _, u := range byIdx[idx] {
				cnt[u.ctor]++
			}
			best := 0
			for k, v := range cnt {
				if v > best || v == best && k < ref {
					best, ref = v, k
				}
			}
		}
		// one obligation per walk function: every key the walk builds from an element uses the reference constructor
		seen := map[string]bool{}
		for _, u := range byIdx[idx] {
			n++
			key := "index " + idx + ": walk in " + u.fn
			if seen[key] {
				continue
			}
			seen[key] = true
			src := "the walks' majority"
			if len(assoc[idx]) == 1 {
				src = "the constructor under which elements are written"
			}
			bad := u
			okAll := true
			for _, w := range byIdx[idx] {
				if w.fn == u.fn && w.ctor != ref {
					okAll, bad = false, w
				}
			}
			r.Check(okAll, "R17.6", key, bad.pos, "elements keyed with "+ref+" ("+src+")",
				"elements of the index stored under "+idx+"(..) are turned into storage keys with "+bad.ctor+" here, but their records live under "+ref+": the walk touches keys that do not exist and leaves the real records (e.g. the role record of a replaced admin, which the permission check reads) in place")
		}
	}
	r.Floor("R17.6", "index walks building storage keys", n, 4)
}

// c17Predicates: R17.7 - an identity / role predicate decides on every one of its parameters.
func (c *Ctx) c17Predicates() {
	r := c.R
	m := c.Contracts()
	n := 0
	for _, fn := range m.funcs {
		if len(fn.Blocks) == 0 || fn.Signature.Results().Len() != 1 || fn.Parent() != nil {
			continue
		}
		rt := fn.Signature.Results().At(0).Type()
		if b, ok := rt.Underlying().(*types.Basic); (!ok || b.Kind() != types.Bool) && !strings.HasSuffix(rt.String(), "boltvm.Response") {
			continue
		}
		recv := fn.Signature.Recv()
		if recv == nil || !strings.HasSuffix(recv.Type().String(), "contracts.RoleManager") {
			continue
		}
		ln := strings.ToLower(fn.Name())
		if !strings.HasPrefix(ln, "is") && !strings.HasPrefix(ln, "has") && !strings.HasPrefix(ln, "check") {
			continue
		}
		params := fn.Params[1:]
		if len(params) == 0 {
			continue
		}
		// the values the verdict is made of: branch conditions and returned values
		var deciders []ssa.Value
		for _, b := range fn.Blocks {
			if ifi := core.IfOf(b); ifi != nil {
				deciders = append(deciders, ifi.Cond)
			}
		}
		for _, ret := range core.Returns(fn) {
			deciders = append(deciders, ret.Results...)
		}
		n++
		var unused []string
		for _, p := range params {
			used := false
			for _, d := range deciders {
				if core.Mentions(d, func(v ssa.Value) bool { return v == ssa.Value(p) }) {
					used = true
					break
				}
			}
			if !used {
				unused = append(unused, p.Name())
			}
		}
		r.Check(len(unused) == 0, "R17.7", shortFn(fn)+": verdict depends on every parameter", c.P.Pos(fn.Pos()), fmt.Sprintf("%d parameter(s) each feed a branch condition or the returned value", len(params)),
			"parameter(s) "+strings.Join(unused, ", ")+" of this role predicate feed no branch condition and no returned value: the question the caller asks (which role type, which appchain, which address) is ignored, so the predicate answers true for identities the guard was meant to exclude")
	}
	r.Floor("R17.7", "role predicates of RoleManager", n, 2)
}

// c17SelfOnCreate: R17.8 - self permission presupposes an object; an entry that creates the object named by a
// caller-chosen id must not admit "self".
func (c *Ctx) c17SelfOnCreate() {
	r := c.R
	m := c.Contracts()
	// helpers whose PermissionSelf case compares the regulator with the id parameter itself
	direct := map[*ssa.Function]bool{}
	for g, pf := range m.perm {
		if pf.regIdx < 1 || pf.regIdx >= len(g.Params) {
			continue
		}
		reg, id := g.Params[pf.regIdx], g.Params[pf.regIdx-1]
		es := core.EqualityEdges(g, func(v ssa.Value) bool { return v == ssa.Value(reg) }, func(v ssa.Value) bool { return v == ssa.Value(id) }, false)
		direct[g] = es.Len() > 0
	}
	creates := func(fn *ssa.Function) bool {
		found := false
		for _, f := range core.WithClosures(fn) {
			for _, b := range f.Blocks {
				for _, in := range b.Instrs {
					for _, op := range in.Operands(nil) {
						if op == nil || *op == nil {
							continue
						}
						// governance.EventRegister, also after constant folding of string(governance.EventRegister)
						if k, ok := (*op).(*ssa.Const); ok && k.Value != nil && k.Value.Kind() == constant.String && k.Value.ExactString() == `"register"` {
							found = true
						}
					}
				}
			}
		}
		return found
	}
	n := 0
	for _, fn := range m.funcs {
		for _, s := range m.permSites(fn) {
			if !s.permsOK {
				continue
			}
			self := false
			for _, p := range s.perms {
				if p == "PermissionSelf" {
					self = true
				}
			}
			callee := core.StaticCallee(s.call)
			if !self || !direct[callee] {
				continue
			}
			n++
			pf := m.perm[callee]
			id := core.Strip(s.call.Call.Args[pf.regIdx-1])
			_, chosen := id.(*ssa.Parameter)
			bad := chosen && creates(fn)
			r.Check(!bad, "R17.8", shortFn(fn)+": self permission names an existing object", c.P.Pos(s.call.Pos()), "PermissionSelf is not offered by an entry that registers the object named by its own id argument",
				"the entry creates (EventRegister) the object named by its id parameter and admits PermissionSelf, which this checkPermission decides by caller == id: any account passes by naming itself, so the admin-only registration is open to everybody")
		}
	}
	r.Floor("R17.8", "guard sites offering a direct self permission", n, 1)
}

// c17IndexScope: R17.12.
func (c *Ctx) c17IndexScope() {
	r := c.R
	fn := c.fn("R17.12", "internal/executor/contracts.(*RoleManager).GetAppchainAdmin")
	if fn == nil || len(fn.Params) < 2 {
		return
	}
	asked := ssa.Value(fn.Params[1])
	same := core.EqualityEdges(fn, func(v ssa.Value) bool { return v == asked }, fieldLoad("Role", "AppchainID"), true)
	isAppend := appendsWhere(func(dst ssa.Value) bool { return strings.Contains(dst.Type().String(), "contracts.Role") })
	n := c.behindEdges("R17.12", "GetAppchainAdmin", fn, same, isAppend, "role.AppchainID == the chain asked for", "role added to the answer")
	r.Floor("R17.12", "roles added to the answer of GetAppchainAdmin", n, 1)
}

// c17LockScope: R17.13.
func (c *Ctx) c17LockScope() {
	r := c.R
	sp := c.fn("R17.13", "internal/executor/contracts.(*Governance).SubmitProposal")
	lk := c.fn("R17.13", "internal/executor/contracts.(*Governance).lockLowPriorityProposal")
	chg := c.fn("R17.13", "internal/executor/contracts.(*Governance).changeProposalStatus")
	if sp == nil || lk == nil || chg == nil {
		return
	}
	isPause := func(in ssa.Instruction) bool {
		call, ok := in.(ssa.CallInstruction)
		if !ok || core.StaticCallee(call) != chg || len(call.Common().Args) < 3 {
			return false
		}
		return enumName(call.Common().Args[2]) == "PAUSED" || strings.HasSuffix(enumName(call.Common().Args[2]), "PAUSED")
	}
	// the comparison of the found proposal's type with a type the caller handed in
	typed := condEdges(lk, func(f core.Fact, ifi *ssa.If) (bool, int) {
		if f.Kind != core.FCmp || f.Op != token.EQL && f.Op != token.NEQ {
			return false, 0
		}
		isTyp := func(v ssa.Value) bool { _, fld, _, ok := core.FieldOf(v); return ok && fld == "Typ" }
		isPar := func(v ssa.Value) bool { _, ok := core.Strip(v).(*ssa.Parameter); return ok }
		if isTyp(f.Subject) && isPar(f.Other) || isTyp(f.Other) && isPar(f.Subject) {
			return true, holdsEdge(f)
		}
		return false, 0
	})
	// or the function is handed an empty type (the exported entry names the object itself): that edge counts too
	anyType := condEdges(lk, func(f core.Fact, ifi *ssa.If) (bool, int) {
		if f.Kind == core.FEqConst && f.Const == "" {
			if _, ok := core.Strip(f.Subject).(*ssa.Parameter); ok {
				return true, holdsEdge(f)
			}
		}
		return false, 0
	})
	typed.Merge(anyType)
	n := c.behindEdges("R17.13", "lockLowPriorityProposal", lk, typed, isPause, "proposal type == type of the submitting manager", "pause of a lower-priority proposal")
	r.Floor("R17.13", "pauses in lockLowPriorityProposal", n, 1)
	// SubmitProposal hands its own proposal type on
	okArg := false
	for _, call := range core.Calls(sp) {
		if core.StaticCallee(call) != lk {
			continue
		}
		for _, a := range call.Common().Args {
			if core.Mentions(a, func(w ssa.Value) bool {
				p, ok := w.(*ssa.Parameter)
				return ok && p.Parent() == sp && p.Name() == "typ"
			}) {
				okArg = true
			}
		}
	}
	r.Check(okArg, "R17.13", "SubmitProposal: locks with its own proposal type", c.P.Pos(sp.Pos()), "lockLowPriorityProposal receives SubmitProposal's typ", "SubmitProposal does not restrict the lock to the submitting manager's proposal type")
}
