package rules

import (
	"fmt"
	"go/token"
	"go/types"
	"sort"
	"strings"

	"bxhlint/core"

	"golang.org/x/tools/go/ssa"
)

func init() { Props["C03"] = C03 }

const poolPrefix = "pkg/proof.(*VerifyPool)."

// C03: only IBTPs whose proof was verified for their origin can change state.
func C03(c *Ctx) {
	r := c.R
	r.Rule("R03.1", "proofs before execution: in processExecuteEvent verifyProofs precedes ApplyTransactions on every path; inside verifyProofs the only returns taken before the verification goroutines are joined lie behind the enumerated edges (genesis height 1, empty block, block.Extra marker - which no code of the repository sets); every CheckProof call is executed for each element of its loop (no path back to the loop head that skips it).")
	r.Rule("R03.7", "the verification groups cover the block: the per-group length is len(txs)/groupNum (integer division rounds down), so some group's slice of the block has to be open-ended or end at len(txs) - otherwise the len(txs) % groupNum transactions at the tail of a block are executed without any proof check; every group slice starts at i*groupLen.")
	r.Rule("R03.8", "the verdict comes from the ledger of this call: no function reachable from VerifyPool.CheckProof reads (Load / Range / lookup / index) a container field of the VerifyPool (sync.Map, map, slice, cache) that is filled after construction; appchain record, trust root, validator set and rule address are read from the ledger in the same invocation, so a verdict never rests on what an earlier block stored.")
	r.Rule("R03.9", "what is signed is what is executed: the digest of EncodePackedAndHash - signed by the validators of a relay chain and recomputed by verifyMultiSign - is built from ibtp.From, ibtp.To, ibtp.Index, ibtp.Type, the payload hash and the transaction status; a component that does not flow into the Keccak256 preimage can be changed without invalidating the signatures.")
	r.Rule("R03.2", "rejection contract: every `return false, ..` of a CheckProof implementation carries a provably non-nil error, because the consumer records err.Error() as invalid reason without a nil test; in the consumer the !ok branch stores the invalid reason for that index.")
	r.Rule("R03.3", "invalid reason short-circuits execution: in applyBxhTransaction every VM entry lies behind the invalidReason == \"\" edge.")
	r.Rule("R03.4", "proof binding: in verifyProof the rule engine and the multi-signature check are reachable only across bytes.Equal(sha256(proof), ibtp.Proof) == true and proof != nil; the rule address given to Validate comes from getValidateAddress(chainID); getValidateAddress selects a rule only across the edge Status == GovernanceAvailable.")
	r.Rule("R03.5", "validator threshold: in verifyMultiSign the counter is incremented only across the membership-found edge of the validator set built from the trust root, the matched validator is removed from the set before the increment, and success is returned only across counter > (len(validators)-1)/3.")
	r.Rule("R03.6", "no other entry: every dispatchable, invocable contract entry from which InterchainManager.HandleIBTP/ProcessIBTP is reachable (directly or through cross-invoke edges) has a caller guard.")
	r.NotDecided = append(r.NotDecided, "that a rule engine's verdict is right; the partition arithmetic of verification groups; history-dependence of the bound rule beyond 'read from ledger state at verification time'")
	// an IBTP whose proof was rejected changes nothing: it is neither listed for a timeout nor does it take a request
	// out of the list (decided by the C06 rule set)
	r.Borrow(map[string]string{"R06.2": "R03.10", "R06.8": "R03.11"}, func() { C06(c) })

	// ---- R03.1
	pe := c.fn("R03.1", execPrefix+"processExecuteEvent")
	vp := c.fn("R03.1", execPrefix+"verifyProofs")
	if pe != nil && vp != nil {
		n := c.mustPrecede("R03.1", "processExecuteEvent", pe, func(in ssa.Instruction) bool {
			call, ok := in.(ssa.CallInstruction)
			return ok && core.StaticCallee(call) == vp
		}, callToMethod("ApplyTransactions"), "verifyProofs", "ApplyTransactions")
		r.Floor("R03.1", "ApplyTransactions calls", n, 1)
		// same block wrapper
		for _, in := range sites(pe, callToMethod("ApplyTransactions")) {
			call := in.(ssa.CallInstruction)
			okSame := false
			for _, v := range sites(pe, func(x ssa.Instruction) bool {
				cc, ok := x.(ssa.CallInstruction)
				return ok && core.StaticCallee(cc) == vp
			}) {
				bw := v.(ssa.CallInstruction).Common().Args[1]
				a0, a1 := core.Arg(call, 0), core.Arg(call, 1)
				if a0 != nil && a1 != nil && core.Mentions(a0, func(x ssa.Value) bool { return x == core.Strip(bw) }) && core.Mentions(a1, func(x ssa.Value) bool { return x == core.Strip(bw) }) {
					okSame = true
				}
			}
			r.Check(okSame, "R03.1", "processExecuteEvent: same block verified and applied", c.P.Pos(in.Pos()), "transactions and invalidTx passed to ApplyTransactions come from the wrapper given to verifyProofs", "ApplyTransactions is not fed the transactions/invalidTx of the verified block wrapper")
		}
		// early returns of verifyProofs
		allowed := condEdges(vp, func(f core.Fact, ifi *ssa.If) (bool, int) {
			if f.Kind == core.FEqConst && f.Field == "Number" && f.Const == "1" {
				return true, holdsEdge(f)
			}
			if f.Kind == core.FNil && core.Mentions(f.Subject, fieldLoad("Block", "Extra")) {
				return true, 1 - holdsEdge(f) // Extra != nil
			}
			if f.Kind == core.FEqConst && f.Const == "0" {
				if call, ok := f.Subject.(*ssa.Call); ok {
					if b, ok := call.Call.Value.(*ssa.Builtin); ok && b.Name() == "len" {
						return true, holdsEdge(f)
					}
				}
			}
			return false, 0
		})
		isWait := callTo("(*sync.WaitGroup).Wait")
		rs := core.Reach([]core.Point{core.EntryOf(vp)}, isWait, core.CutOf(allowed))
		bad := ""
		nret := 0
		for _, ret := range core.Returns(vp) {
			nret++
			if rs.Has(ret) {
				bad = "return at " + c.P.Pos(ret.Pos()) + " skips proof verification without being one of the enumerated cases (height 1, empty block, Extra marker): path (lines) " + rs.Witness(c.P, ret)
			}
		}
		r.Check(bad == "" && len(sites(vp, isWait)) > 0, "R03.1", "verifyProofs: early returns", c.P.Pos(vp.Pos()), fmt.Sprintf("%d returns; the ones before wg.Wait() lie behind %d enumerated edges", nret, allowed.Len()), "verifyProofs has a new way out before verification: "+bad)
		// Block.Extra is set to non-nil nowhere
		nx := 0
		for _, fn := range c.P.ModuleFuncs(true) {
			for _, in := range sites(fn, storesToField("Block", "Extra")) {
				st := in.(*ssa.Store)
				if core.IsNilConst(st.Val) {
					continue
				}
				// copying an existing block's Extra (e.g. into the stored copy) sets no marker
				if core.Direct(fieldLoad("Block", "Extra"))(st.Val) {
					continue
				}
				{
					nx++
					r.Bad("R03.1", shortFn(fn)+": Block.Extra set", c.P.Pos(in.Pos()), "block.Extra is assigned a non-nil value; verifyProofs skips all proof checks for such a block")
				}
			}
		}
		if nx == 0 {
			r.OK("R03.1", "Block.Extra never set non-nil in the repository", "", "the Extra escape of verifyProofs is not controllable from repository code")
		}
		// CheckProof executed for every loop element
		ncp := 0
		// the loop may live in the goroutine closure or in a helper of the executor it calls (checkProofGroup)
		var vfuncs []*ssa.Function
		seenVf := map[*ssa.Function]bool{}
		var addVf func(f *ssa.Function, d int)
		addVf = func(f *ssa.Function, d int) {
			if f == nil || seenVf[f] || len(f.Blocks) == 0 || d > 2 {
				return
			}
			seenVf[f] = true
			vfuncs = append(vfuncs, f)
			for _, a := range f.AnonFuncs {
				addVf(a, d)
			}
			for _, call := range core.Calls(f) {
				if g := core.StaticCallee(call); g != nil && core.PkgOf(g) == core.PkgOf(vp) {
					addVf(g, d+1)
				}
			}
		}
		addVf(vp, 0)
		for _, f := range vfuncs {
			for _, in := range sites(f, callToMethod("CheckProof")) {
				ncp++
				body := in.Block()
				for b := in.Block(); b != nil; b = b.Idom() {
					if strings.HasSuffix(b.Comment, ".body") {
						body = b
						break
					}
				}
				rs := core.Reach([]core.Point{{B: body, Idx: 0}}, func(x ssa.Instruction) bool { return x == in }, nil)
				skipped := false
				for _, blk := range f.Blocks {
					if strings.HasSuffix(blk.Comment, ".loop") && len(blk.Instrs) > 0 && rs.Has(blk.Instrs[len(blk.Instrs)-1]) {
						skipped = true
					}
				}
				for _, ret := range core.Returns(f) {
					if rs.Has(ret) {
						skipped = true
					}
				}
				r.Check(!skipped, "R03.1", fmt.Sprintf("verifyProofs: CheckProof #%d unconditional in its loop", ncp), c.P.Pos(in.Pos()), "no path from the loop body start to the next iteration or exit avoids the call", "a path through the loop body skips CheckProof for some transaction")
			}
		}
		r.Floor("R03.1", "CheckProof call sites", ncp, 1)
		c.c03Partition(vp)
	}

	c.c03NoMemo()
	c.c03Digest()
	c.c03SideSelector()

	// ---- R03.2
	cha := core.NewCHA(c.P)
	nFalse := 0
	var producers []*ssa.Function
	for _, fn := range c.P.ModuleFuncs(true) {
		if fn.Name() == "CheckProof" && fn.Signature.Recv() != nil && fn.Signature.Results().Len() == 3 {
			producers = append(producers, fn)
		}
	}
	r.Floor("R03.2", "CheckProof implementations", len(producers), 1)
	for _, fn := range producers {
		for _, ret := range core.Returns(fn) {
			if fn.Recover != nil && ret.Block() == fn.Recover {
				// the return taken after a recovered panic: the results are what the recovering closure assigned
				nFalse++
				_, cl := recoverDefer(fn)
				okErr := false
				if cl != nil {
					for _, b := range cl.Blocks {
						for _, in := range b.Instrs {
							st, isSt := in.(*ssa.Store)
							if !isSt {
								continue
							}
							fv, isFV := st.Addr.(*ssa.FreeVar)
							if !isFV || !strings.HasSuffix(fv.Type().String(), "*error") {
								continue
							}
							if cc, isC := core.Strip(st.Val).(*ssa.Call); isC && core.ErrCtors[core.CalleeName(cc)] {
								okErr = true
							}
						}
					}
				}
				r.Check(okErr, "R03.2", shortFn(fn)+": the recovered-panic return carries an error", c.P.Pos(fn.Pos()), "the recovering closure assigns a constructed error",
					"after a recovered panic CheckProof returns without a non-nil error; the executor calls err.Error() on it (nil dereference in a bare goroutine)")
				continue
			}
			for _, o := range core.RetOrigins(ret.Results[0]) {
				cst, ok := o.V.(*ssa.Const)
				if ok && cst.Value != nil && cst.Value.String() == "true" {
					continue
				}
				nFalse++
				mayNil := core.MayBeSuccess(fn, ret, 2, core.ConvErrNil)
				r.Check(!mayNil, "R03.2", shortFn(fn)+": rejecting return carries an error", c.P.Pos(ret.Pos()), "error operand provably non-nil",
					"CheckProof can return ok=false with a nil error; the executor calls err.Error() on it without a nil test (nil dereference in a bare goroutine)")
			}
		}
	}
	r.Floor("R03.2", "rejecting returns", nFalse, 1)
	_ = cha
	if vp != nil {
		// consumer: on !ok the invalid reason is recorded
		n := 0
		for _, f := range core.WithClosures(vp) {
			for _, in := range sites(f, callToMethod("CheckProof")) {
				call := in.(*ssa.Call)
				n++
				notOK := condEdges(f, func(fc core.Fact, ifi *ssa.If) (bool, int) {
					if fc.Kind != core.FBool {
						return false, 0
					}
					if ex, ok := fc.Subject.(*ssa.Extract); ok && ex.Tuple == ssa.Value(call) && ex.Index == 0 {
						return true, 1 - holdsEdge(fc)
					}
					return false, 0
				})
				recorded := false
				for b, mm := range notOK {
					for si := range mm {
						rs := core.Reach([]core.Point{{B: b.Succs[si], Idx: 0}}, nil, nil)
						for x := range rs.Instr {
							if mu, ok := x.(*ssa.MapUpdate); ok && mu.Block() == b.Succs[si] {
								_ = mu
								recorded = true
							}
							if cc, ok := x.(ssa.CallInstruction); ok && x.Block() == b.Succs[si] {
								if bn, ok := cc.Common().Value.(*ssa.Builtin); ok && bn.Name() == "append" {
									recorded = true
								}
							}
						}
					}
				}
				r.Check(notOK.Len() > 0 && recorded, "R03.2", fmt.Sprintf("verifyProofs: !ok of CheckProof #%d recorded", n), c.P.Pos(in.Pos()), "the !ok branch records the transaction index / reason", "a rejected proof is not recorded as invalid transaction")
			}
		}
	}

	// ---- R03.3
	if abt := c.fn("R03.3", execPrefix+"applyBxhTransaction"); abt != nil {
		var reason *ssa.Parameter
		for _, p := range abt.Params {
			if p.Name() == "invalidReason" {
				reason = p
			}
		}
		if reason == nil {
			r.Anchor("R03.3", "applyBxhTransaction parameter invalidReason")
		} else {
			es := condEdges(abt, func(f core.Fact, ifi *ssa.If) (bool, int) {
				if f.Kind == core.FEqConst && f.Const == "" && f.Field == "" && core.Strip(f.Subject) == ssa.Value(reason) {
					return true, holdsEdge(f)
				}
				return false, 0
			})
			n := c.behindEdges("R03.3", "applyBxhTransaction", abt, es, func(in ssa.Instruction) bool { return isVMEntryThroughHelper(c, in, 0) }, "invalidReason == \"\"", "VM entry")
			r.Floor("R03.3", "VM entries in applyBxhTransaction", n, 2)
		}
	}

	// ---- R03.4
	if vf := c.fn("R03.4", poolPrefix+"verifyProof"); vf != nil {
		hashOK := condEdges(vf, func(f core.Fact, ifi *ssa.If) (bool, int) {
			if f.Kind != core.FBool {
				return false, 0
			}
			call, ok := f.Subject.(*ssa.Call)
			if !ok || core.CalleeName(call) != "bytes.Equal" {
				return false, 0
			}
			a, b := call.Call.Args[0], call.Call.Args[1]
			isHash := func(v ssa.Value) bool { return core.Mentions(v, core.IsCallNamed("crypto/sha256.Sum256")) }
			isCommitted := func(v ssa.Value) bool { return core.Mentions(v, fieldLoad("IBTP", "Proof")) }
			if (isHash(a) && isCommitted(b)) || (isHash(b) && isCommitted(a)) {
				return true, holdsEdge(f)
			}
			return false, 0
		})
		isVerifier := or(callToMethod("Validate"), callToMethod("verifyMultiSign"))
		n := c.behindEdges("R03.4", "verifyProof", vf, hashOK, isVerifier, "sha256(proof) == ibtp.Proof", "rule engine / multi-sign check")
		r.Floor("R03.4", "verifier calls in verifyProof", n, 2)
		for _, in := range sites(vf, callToMethod("Validate")) {
			call := in.(ssa.CallInstruction)
			a0 := core.Arg(call, 0)
			ok := a0 != nil && core.Mentions(a0, func(v ssa.Value) bool {
				cc, ok := v.(*ssa.Call)
				return ok && strings.HasSuffix(core.CalleeName(cc), "getValidateAddress")
			})
			r.Check(ok, "R03.4", "verifyProof: rule address from getValidateAddress", c.P.Pos(in.Pos()), "Validate(address = getValidateAddress(chainID))", "the rule address given to the engine does not come from getValidateAddress")
		}
	}
	if gv := c.fn("R03.4", poolPrefix+"getValidateAddress"); gv != nil {
		n := 0
		// the selection may live in a closure of getValidateAddress or in a helper of the pool it calls
		scope := core.WithClosures(gv)
		for _, f := range core.WithClosures(gv) {
			for _, call := range core.Calls(f) {
				if g := core.StaticCallee(call); g != nil && len(g.Blocks) > 0 && core.PkgOf(g) == "pkg/proof" && g != gv {
					dup := false
					for _, x := range scope {
						if x == g {
							dup = true
						}
					}
					if !dup {
						scope = append(scope, core.WithClosures(g)...)
					}
				}
			}
		}
		anyRuleReturn := false
		for _, f := range scope {
			for _, ret := range core.Returns(f) {
				if len(ret.Results) == 2 && strings.HasSuffix(ret.Results[0].Type().String(), "rule-mgr.Rule") {
					anyRuleReturn = true
				}
			}
		}
		for _, f := range scope {
			avail := condEdges(f, func(fc core.Fact, ifi *ssa.If) (bool, int) {
				if fc.Kind == core.FEqConst && fc.Field == "Status" && fc.Const == "available" {
					return true, holdsEdge(fc)
				}
				return false, 0
			})
			cut := core.CutOf(avail)
			rs := core.Reach([]core.Point{core.EntryOf(f)}, nil, cut)
			for _, ret := range core.Returns(f) {
				if len(ret.Results) != 2 {
					continue
				}
				// returns of a (possibly non-nil) *Rule - or, when the selection is folded into getValidateAddress itself,
				// of the Address of a rule
				isRule := strings.HasSuffix(ret.Results[0].Type().String(), "rule-mgr.Rule")
				isAddr := false
				if !isRule && f == gv && !anyRuleReturn {
					isAddr = core.Mentions(ret.Results[0], func(v ssa.Value) bool {
						o, fld, _, ok := core.FieldOf(v)
						return ok && fld == "Address" && strings.HasSuffix(o, "rule-mgr.Rule")
					})
				}
				if !isRule && !isAddr {
					continue
				}
				for _, o := range core.RetOrigins(ret.Results[0]) {
					if core.IsNilConst(o.V) {
						continue
					}
					if isAddr {
						if k, isK := o.V.(*ssa.Const); isK && k.Value != nil {
							continue
						}
					}
					n++
					r.Check(!core.OriginReachable(rs, cut, ret, o), "R03.4", "getValidateAddress: rule selected only when available", c.P.Pos(ret.Pos()), "the selected rule is returned only across Status == GovernanceAvailable",
						"a rule that is not in status available (e.g. the stale master rule of a logged-out chain) can be selected for proof validation")
				}
			}
		}
		r.Floor("R03.4", "rule-selecting returns", n, 1)
	}

	// ---- R03.5
	if ms := c.fn("R03.5", poolPrefix+"verifyMultiSign"); ms != nil {
		// membership: `_, ok := m[val]` true edge
		var lookups []*ssa.Lookup
		found := condEdges(ms, func(f core.Fact, ifi *ssa.If) (bool, int) {
			if f.Kind != core.FBool {
				return false, 0
			}
			if ex, ok := f.Subject.(*ssa.Extract); ok && ex.Index == 1 {
				if lk, ok := ex.Tuple.(*ssa.Lookup); ok && lk.CommaOk {
					lookups = append(lookups, lk)
					return true, holdsEdge(f)
				}
			}
			return false, 0
		})
		// counter increments: BinOp ADD 1 feeding the comparison with threshold
		var incs []ssa.Instruction
		var gt *ssa.BinOp
		for _, b := range ms.Blocks {
			for _, in := range b.Instrs {
				if bo, ok := in.(*ssa.BinOp); ok {
					if bo.Op == token.GTR {
						if q, ok := bo.Y.(*ssa.BinOp); ok && q.Op == token.QUO {
							gt = bo
						}
					}
				}
			}
		}
		// the counter is what the accept test compares: counter+1 (or a phi of it)
		if gt != nil {
			for _, o := range append(core.Origins(gt.X), gt.X) {
				if bo, ok := o.(*ssa.BinOp); ok && bo.Op == token.ADD {
					if one, ok := core.ConstInt(bo.Y); ok && one == 1 {
						incs = append(incs, bo)
					}
				}
			}
		}
		r.Floor("R03.5", "counter increments", len(incs), 1)
		if len(incs) > 0 {
			isInc := func(in ssa.Instruction) bool {
				for _, x := range incs {
					if x == in {
						return true
					}
				}
				return false
			}
			c.behindEdges("R03.5", "verifyMultiSign", ms, found, isInc, "validator found in the trust-root set", "signature counter increment")
			// delete(m, val) before the increment
			okDel := true
			keyMismatch := false
			for _, inc := range incs {
				rs := core.Reach([]core.Point{core.EntryOf(ms)}, func(in ssa.Instruction) bool {
					cc, ok := in.(ssa.CallInstruction)
					if !ok {
						return false
					}
					bn, ok := cc.Common().Value.(*ssa.Builtin)
					if !ok || bn.Name() != "delete" || len(cc.Common().Args) != 2 {
						return false
					}
					// the entry removed is the entry that was found: same set, and the key is the expression the
					// membership lookup used (a set keyed by a normalised form must be emptied under that form)
					for _, lk := range lookups {
						if sameValue(cc.Common().Args[0], lk.X) && sameExpr(cc.Common().Args[1], lk.Index, 0) {
							return true
						}
					}
					keyMismatch = true
					return false
				}, func(b *ssa.BasicBlock, si int) bool {
					// only consider paths inside one loop iteration: cut back edges into the loop head
					return strings.HasSuffix(b.Succs[si].Comment, ".loop") && b != ms.Blocks[0] && b.Succs[si].Dominates(b)
				})
				if rs.Has(inc) {
					okDel = false
				}
			}
			r.Check(okDel, "R03.5", "verifyMultiSign: matched validator removed before counting", c.P.Pos(incs[0].Pos()), "delete(set, validator) precedes the increment in every iteration", "a validator can be counted twice: the matched address is not removed from the candidate set before the counter is incremented"+map[bool]string{true: " (a delete is there, but not on the set / under the key expression of the membership lookup: it removes nothing when the two spellings differ)", false: ""}[keyMismatch])
		}
		okThr := false
		if gt != nil {
			q := gt.Y.(*ssa.BinOp)
			if three, ok := core.ConstInt(q.Y); ok && three == 3 {
				if sub, ok := q.X.(*ssa.BinOp); ok && sub.Op == token.SUB {
					if one, ok := core.ConstInt(sub.Y); ok && one == 1 {
						if call, ok := sub.X.(*ssa.Call); ok {
							if bn, ok := call.Call.Value.(*ssa.Builtin); ok && bn.Name() == "len" && core.Mentions(call.Call.Args[0], fieldLoad("", "Addresses")) {
								okThr = true
							}
						}
					}
				}
			}
		}
		r.Check(okThr, "R03.5", "verifyMultiSign: threshold expression", c.P.Pos(ms.Pos()), "accept test is counter > (len(validators.Addresses)-1)/3", "the accept test is not counter > (len(validators)-1)/3")
		if gt != nil {
			es := core.EdgeSet{}
			for _, b := range ms.Blocks {
				if ifi := core.IfOf(b); ifi != nil && ifi.Cond == ssa.Value(gt) {
					es.Add(b, 0)
				}
			}
			cut := core.CutOf(es)
			rs := core.Reach([]core.Point{core.EntryOf(ms)}, nil, cut)
			bad := false
			for _, ret := range core.Returns(ms) {
				for _, o := range core.RetOrigins(ret.Results[0]) {
					if cst, ok := o.V.(*ssa.Const); ok && cst.Value != nil && cst.Value.String() == "false" {
						continue
					}
					if core.OriginReachable(rs, cut, ret, o) {
						bad = true
					}
				}
			}
			r.Check(!bad, "R03.5", "verifyMultiSign: success only above the threshold", c.P.Pos(ms.Pos()), "true is returned only across counter > threshold", "verifyMultiSign can report success without the counter exceeding the threshold")
		}
	}

	// ---- R03.6
	m := c.Contracts()
	hi := c.P.Fn(imPrefix + "HandleIBTP")
	if hi == nil {
		r.Anchor("R03.6", imPrefix+"HandleIBTP")
		return
	}
	reachH := c.callReaching(hi)
	edgeOf := map[*ssa.Call]*core.Edge{}
	for _, e := range m.bvm.Edges {
		edgeOf[e.Site] = e
	}
	// entries that reach HandleIBTP statically or via edges
	reach := map[*core.Entry]bool{}
	for changed := true; changed; {
		changed = false
		for _, ct := range m.bvm.Contracts {
			for _, e := range ct.Entries {
				if e.Fn == nil || reach[e] {
					continue
				}
				hit := false
				for _, f := range core.WithClosures(e.Fn) {
					for _, call := range core.Calls(f) {
						if reachH(call) || core.StaticCallee(call) == hi {
							hit = true
						}
						if cl, ok := call.(*ssa.Call); ok {
							if ed := edgeOf[cl]; ed != nil {
								for _, t := range ed.Targets {
									if reach[t] {
										hit = true
									}
								}
							}
						}
					}
				}
				if hit {
					reach[e] = true
					changed = true
				}
			}
		}
	}
	n := 0
	for e := range reach {
		if !e.Invocable || m.bvm.FilterExcludes(e) {
			continue
		}
		n++
		ung := m.unguardedSinks(e.Fn)
		open := false
		for in := range ung {
			if call, ok := in.(ssa.CallInstruction); ok {
				if reachH(in) || core.StaticCallee(call) == hi {
					open = true
				}
				if cl, ok := in.(*ssa.Call); ok {
					if ed := edgeOf[cl]; ed != nil {
						for _, t := range ed.Targets {
							if reach[t] {
								open = true
							}
						}
					}
				}
			}
		}
		r.Check(!open, "R03.6", e.Key(), c.P.Pos(e.Fn.Pos()), "IBTP processing only behind a caller guard", "an external account can make the interchain contract process an IBTP through this entry without the executor's proof verification")
	}
	r.Count("R03.6 invocable entries reaching HandleIBTP", n)
}

// c03Partition: R03.7.
func (c *Ctx) c03Partition(vp *ssa.Function) {
	r := c.R
	// groupLen is a floor division by the group count
	floorDiv := false
	for _, b := range vp.Blocks {
		for _, in := range b.Instrs {
			if bo, ok := in.(*ssa.BinOp); ok && bo.Op == token.QUO {
				if cl, ok := core.Strip(bo.X).(*ssa.Call); ok {
					if bn, ok := cl.Call.Value.(*ssa.Builtin); ok && bn.Name() == "len" {
						floorDiv = true
					}
				}
			}
		}
	}
	if !floorDiv {
		r.Note("R03.7", "verifyProofs: partition scheme", c.P.Pos(vp.Pos()), "the group length is not len(txs)/groupNum: partition scheme unknown to this rule, coverage not decided")
		return
	}
	nSlices, openEnded := 0, false
	isLenOfBlock := func(v ssa.Value) bool {
		cl, ok := core.Strip(v).(*ssa.Call)
		if !ok {
			return false
		}
		bn, ok := cl.Call.Value.(*ssa.Builtin)
		return ok && bn.Name() == "len" && strings.Contains(cl.Call.Args[0].Type().String(), "pb.Transaction")
	}
	var endsAtLen func(v ssa.Value, d int) bool
	endsAtLen = func(v ssa.Value, d int) bool {
		if v == nil || isLenOfBlock(v) {
			return true
		}
		if d > 3 {
			return false
		}
		if ph, ok := v.(*ssa.Phi); ok {
			for _, e := range ph.Edges {
				if endsAtLen(e, d+1) {
					return true
				}
			}
		}
		// the bounds come from a range helper (start, end := proofGroupRange(i, groupNum, groupLen, len(txs))): some
		// return of the helper hands back, as this result, the parameter that receives len(txs)
		if ex, ok := v.(*ssa.Extract); ok {
			if call, ok := ex.Tuple.(*ssa.Call); ok {
				if h := core.StaticCallee(call); h != nil && len(h.Blocks) > 0 && c.P.InModule(h) {
					for _, ret := range core.Returns(h) {
						if ex.Index >= len(ret.Results) {
							continue
						}
						res := ret.Results[ex.Index]
						if pi := paramIndex(h, core.Strip(res)); pi >= 0 && pi < len(call.Call.Args) {
							if isLenOfBlock(call.Call.Args[pi]) {
								return true
							}
						} else if isLenOfBlock(res) {
							return true
						}
					}
				}
			}
		}
		return false
	}
	for _, rf := range c.regionOf(vp, 2) {
		f := rf.fn
		if f == vp {
			continue
		}
		for _, b := range f.Blocks {
			for _, in := range b.Instrs {
				sl, ok := in.(*ssa.Slice)
				if !ok || !strings.Contains(sl.X.Type().String(), "pb.Transaction") {
					continue
				}
				nSlices++
				if endsAtLen(sl.High, 0) {
					openEnded = true
				}
			}
		}
	}
	r.Floor("R03.7", "group slices of the block in verifyProofs", nSlices, 1)
	r.Check(openEnded, "R03.7", "verifyProofs: some group extends to the end of the block", c.P.Pos(vp.Pos()), "a group slice is open-ended / ends at len(txs)",
		"every verification group checks exactly groupLen = len(txs)/groupNum transactions: when the block size is not a multiple of the group count the transactions at its tail are never passed to CheckProof and are executed as if verified")
}

// isVMEntryThroughHelper: a VM entry, or a call to a helper of the executor package whose body (depth 2) contains one.
func isVMEntryThroughHelper(c *Ctx, in ssa.Instruction, d int) bool {
	if _, ok := isVMEntry(in); ok {
		return true
	}
	call, ok := in.(*ssa.Call)
	if !ok || d >= 2 {
		return false
	}
	g := core.StaticCallee(call)
	if g == nil || len(g.Blocks) == 0 || core.PkgOf(g) != "internal/executor" {
		return false
	}
	for _, b := range g.Blocks {
		for _, x := range b.Instrs {
			if isVMEntryThroughHelper(c, x, d+1) {
				return true
			}
		}
	}
	return false
}

// c03NoMemo: R03.8 - the verdict is computed from the ledger of the current call, not from a memory of an earlier one.
func (c *Ctx) c03NoMemo() {
	r := c.R
	cp := c.fn("R03.8", "pkg/proof.(*VerifyPool).CheckProof")
	if cp == nil {
		return
	}
	// functions of pkg/proof reachable from CheckProof (static calls, closures included)
	reach := map[*ssa.Function]bool{}
	var visit func(fn *ssa.Function)
	visit = func(fn *ssa.Function) {
		if fn == nil || reach[fn] || len(fn.Blocks) == 0 || core.PkgOf(fn) != "pkg/proof" {
			return
		}
		reach[fn] = true
		for _, a := range fn.AnonFuncs {
			visit(a)
		}
		for _, call := range core.Calls(fn) {
			visit(core.StaticCallee(call))
		}
	}
	visit(cp)
	isContainer := func(t types.Type) bool {
		if p, ok := t.Underlying().(*types.Pointer); ok {
			t = p.Elem()
		}
		switch t.Underlying().(type) {
		case *types.Map, *types.Slice:
			return true
		}
		s := t.String()
		return s == "sync.Map" || strings.Contains(s, "lru.") || strings.Contains(s, "Cache")
	}
	readOps := map[string]bool{"Load": true, "LoadOrStore": true, "Range": true, "Get": true, "Peek": true, "Contains": true, "LoadAndDelete": true}
	writeOps := map[string]bool{"Store": true, "LoadOrStore": true, "Swap": true, "Add": true, "ContainsOrAdd": true, "CompareAndSwap": true}
	type use struct {
		fn  *ssa.Function
		pos token.Pos
	}
	reads, writes := map[string][]use{}, map[string][]use{}
	fields := map[string]bool{}
	for _, fn := range c.P.ModuleFuncs(true) {
		if core.PkgOf(fn) != "pkg/proof" {
			continue
		}
		for _, b := range fn.Blocks {
			for _, in := range b.Instrs {
				fa, ok := in.(*ssa.FieldAddr)
				if !ok {
					continue
				}
				owner, f, _, ok2 := core.FieldOf(fa)
				if !ok2 || !strings.HasSuffix(owner, "proof.VerifyPool") {
					continue
				}
				ft := fa.Type().Underlying().(*types.Pointer).Elem()
				if !isContainer(ft) {
					continue
				}
				fields[f] = true
				// how is the field used: follow loads of the field value and method calls on it
				var follow func(v ssa.Value, d int)
				follow = func(v ssa.Value, d int) {
					if v.Referrers() == nil || d > 3 {
						return
					}
					for _, ref := range *v.Referrers() {
						switch x := ref.(type) {
						case *ssa.UnOp:
							follow(x, d+1)
						case *ssa.Lookup, *ssa.Index, *ssa.IndexAddr, *ssa.Range:
							reads[f] = append(reads[f], use{fn, ref.Pos()})
						case *ssa.MapUpdate:
							writes[f] = append(writes[f], use{fn, ref.Pos()})
						case *ssa.Store:
							if x.Addr == v && fn.Name() != "New" {
								writes[f] = append(writes[f], use{fn, ref.Pos()})
							}
						case ssa.CallInstruction:
							if o := core.CalleeObj(x); o != nil && core.Receiver(x) == v {
								if readOps[o.Name()] {
									reads[f] = append(reads[f], use{fn, ref.Pos()})
								}
								if writeOps[o.Name()] {
									writes[f] = append(writes[f], use{fn, ref.Pos()})
								}
							}
						}
					}
				}
				follow(fa, 0)
			}
		}
	}
	var names []string
	for f := range fields {
		names = append(names, f)
	}
	sort.Strings(names)
	for _, f := range names {
		bad := ""
		if len(writes[f]) > 0 {
			for _, u := range reads[f] {
				if reach[u.fn] {
					bad = c.P.Pos(u.pos)
				}
			}
		}
		r.Check(bad == "", "R03.8", "VerifyPool."+f+": not a memo on the verification path", "", fmt.Sprintf("%d read(s), %d write(s); none of the reads is reachable from CheckProof", len(reads[f]), len(writes[f])),
			"functions reachable from CheckProof read VerifyPool."+f+" ("+bad+"), a container that is filled after construction: the verdict can be computed from data remembered from an earlier call (trust root, validators, rule address as they were then) instead of the ledger state of this block; the memory also differs between replicas that restarted at different times")
	}
	r.OK("R03.8", "verification path analysed", c.P.Pos(cp.Pos()), fmt.Sprintf("%d functions of pkg/proof reachable from CheckProof, %d container fields of VerifyPool", len(reach), len(names)))
	r.Floor("R03.8", "functions reachable from CheckProof", len(reach), 3)
}

// preimageFields: the fields of the IBTP (or of values decoded from it) and the parameters that flow into the
// argument of the hash call of fn (through appends, conversions and helper calls).
func preimageFields(fn *ssa.Function, isHash func(ssa.CallInstruction) bool) (fields map[string]bool, params map[string]bool, n int) {
	fields, params = map[string]bool{}, map[string]bool{}
	for _, call := range core.Calls(fn) {
		if !isHash(call) || len(call.Common().Args) == 0 {
			continue
		}
		n++
		core.Mentions(call.Common().Args[0], func(v ssa.Value) bool {
			if _, f, _, ok := core.FieldOf(v); ok {
				fields[f] = true
			}
			if p, ok := v.(*ssa.Parameter); ok {
				params[p.Name()] = true
			}
			return false
		})
	}
	return
}

// c03Digest: R03.9.
func (c *Ctx) c03Digest() {
	r := c.R
	fn := c.fn("R03.9", "pkg/utils.EncodePackedAndHash")
	if fn == nil {
		return
	}
	fields, params, n := preimageFields(fn, func(call ssa.CallInstruction) bool {
		return strings.HasSuffix(core.CalleeName(call), "crypto.Keccak256")
	})
	r.Floor("R03.9", "hash calls in EncodePackedAndHash", n, 1)
	var missing []string
	for _, f := range []string{"From", "To", "Index", "Type", "Hash"} {
		if !fields[f] {
			missing = append(missing, "ibtp."+f)
		}
	}
	if !params["txStatus"] {
		missing = append(missing, "txStatus")
	}
	r.Check(len(missing) == 0, "R03.9", "EncodePackedAndHash: the signed digest covers source, destination, index, type, payload hash and status", c.P.Pos(fn.Pos()), "all six components flow into the Keccak256 preimage",
		"the digest that the validators of a relay chain sign (and verifyMultiSign recomputes) no longer contains "+strings.Join(missing, ", ")+": a multi-signature collected for one IBTP verifies for another IBTP that differs only in that component (e.g. a success receipt presented as a failure receipt)")
}
