package rules

import (
	"fmt"
	"go/token"
	"go/types"
	"strings"

	"bxhlint/core"

	"golang.org/x/tools/go/ssa"
)

func init() { Props["C05"] = C05 }

// childMapOf: v is (a load of) TransactionInfo.ChildTxInfo.
func isChildMap(v ssa.Value) bool {
	o, f, _, ok := core.FieldOf(v)
	return ok && f == "ChildTxInfo" && strings.HasSuffix(o, "TransactionInfo")
}

// rangeKeyOf: v is the key component of a range over map m (Extract 1 of Next of Range(m)).
func rangeOver(v ssa.Value) (ssa.Value, int, bool) {
	ex, ok := core.Strip(v).(*ssa.Extract)
	if !ok {
		return nil, 0, false
	}
	nx, ok := ex.Tuple.(*ssa.Next)
	if !ok {
		return nil, 0, false
	}
	rg, ok := nx.Iter.(*ssa.Range)
	if !ok {
		return nil, 0, false
	}
	return rg.X, ex.Index, true
}

// unconditionalInLoop: instruction in executes on every iteration of its
// innermost loop (no path from the loop body start back to the loop head or
// out of the function avoids it).
func unconditionalInLoop(fn *ssa.Function, in ssa.Instruction) bool {
	var body *ssa.BasicBlock
	for b := in.Block(); b != nil; b = b.Idom() {
		if strings.HasSuffix(b.Comment, ".body") {
			body = b
			break
		}
	}
	if body == nil {
		return false
	}
	rs := core.Reach([]core.Point{{B: body, Idx: 0}}, func(x ssa.Instruction) bool { return x == in }, nil)
	for _, blk := range fn.Blocks {
		if strings.HasSuffix(blk.Comment, ".loop") && blk.Dominates(body) && len(blk.Instrs) > 0 && rs.Has(blk.Instrs[len(blk.Instrs)-1]) {
			return false
		}
	}
	for _, ret := range core.Returns(fn) {
		if rs.Has(ret) {
			return false
		}
	}
	return true
}

// C05: one-to-many cross-chain transactions are all-or-nothing.
func C05(c *Ctx) {
	r := c.R
	r.Rule("R05.1", "global SUCCESS only when complete: the global state is fed to the FSM (setFSM(&txInfo.GlobalState, ..)) only across the true edge of isMultiTxFinished; no code stores the constant SUCCESS into a GlobalState; isMultiTxFinished returns true only as count == ChildTxCount after comparing every child (any different child returns false).")
	r.Rule("R05.2", "failure flips everything: in the failure branches (BeginMultiTXs with isFailed on an existing group, changeMultiTxStatus on a failure receipt, executor setGlobalTxStatus) a loop over ChildTxInfo assigns every child (the assignment is unconditional in its loop), the global state is set, and the contract branches remove the group from the timeout list; a child joining a group is set to BEGIN only across the edge GlobalState == BEGIN.")
	r.Rule("R05.3", "notification routing: in addToMultiTxNotifyMap the chain a child id is filed under is derived from that id: inside a loop over the id list no fixed element (ids[const]) may feed the key of the update that appends the loop element; an update that files all ids at once lies behind the notify-source flag and its key uses only the source component of an id (the one part all children of a group share).")
	r.Rule("R05.9", "a child belongs to the group it joins: the group's completion test only counts children (count == ChildTxCount), so whether a request is one of the children its Group declares (its destination / index among Group.Keys / Vals) has to be decided where the child begins - the failure flag handed to BeginMultiTXs (or a rejection before it) depends on a comparison with the group's declaration. Otherwise an undeclared child fills the count and the group reaches SUCCESS although a declared child never began.")
	c.c05Membership()
	r.NotDecided = append(r.NotDecided, "that destinations really roll back; group timing over histories")

	m := c.Contracts()
	setFSM := c.fn("R05.1", tmPrefix+"setFSM")
	fin := c.P.Fn("internal/executor/contracts.isMultiTxFinished")
	if setFSM == nil {
		return
	}
	func() {
		if fin == nil {
			// the completeness predicate inlined into its caller: `finished := true; count := 0; for .. { if res != status {
			// finished = false; break }; count++ }; if finished && count == txInfo.ChildTxCount { .. }`
			c.c05InlinedCompleteness(m, setFSM)
			return
		}
		// R05.1 (a) setFSM on GlobalState behind isMultiTxFinished
		n := 0
		for _, fn := range m.funcs {
			var gs []core.GuardSite
			for _, call := range core.Calls(fn) {
				if cl, ok := call.(*ssa.Call); ok && core.StaticCallee(call) == fin {
					gs = append(gs, core.GuardSite{Call: cl, Conv: core.ConvBoolTrue, Idx: -1})
				}
			}
			es := core.EdgeSet{}
			for b, mm := range core.SuccessEdges(fn, gs) {
				for i := range mm {
					es.Add(b, i)
				}
			}
			isGlobalFSM := func(in ssa.Instruction) bool {
				call, ok := in.(ssa.CallInstruction)
				if !ok || core.StaticCallee(call) != setFSM {
					return false
				}
				_, f, _, ok2 := core.FieldOf(call.Common().Args[1])
				return ok2 && f == "GlobalState"
			}
			if len(sites(fn, isGlobalFSM)) == 0 {
				continue
			}
			n += c.behindEdges("R05.1", shortFn(fn), fn, es, isGlobalFSM, "isMultiTxFinished(..) == true", "global status transition")
		}
		r.Floor("R05.1", "global status transitions through the FSM", n, 1)
		// (b) no direct SUCCESS store
		nst := 0
		for _, fn := range c.P.ModuleFuncs(true) {
			for _, in := range sites(fn, storesToField("TransactionInfo", "GlobalState")) {
				nst++
				st := in.(*ssa.Store)
				name := enumName(st.Val)
				if name == "TransactionStatus_SUCCESS" {
					r.Bad("R05.1", shortFn(fn)+": GlobalState = SUCCESS", c.P.Pos(in.Pos()), "the global state of a one-to-many transaction is set to SUCCESS directly, bypassing the completeness check")
				}
			}
		}
		r.Floor("R05.1", "direct GlobalState stores inspected", nst, 3)
		// (c) isMultiTxFinished
		okFin := true
		why := ""
		for _, ret := range core.Returns(fin) {
			for _, o := range core.RetOrigins(ret.Results[0]) {
				if cst, ok := o.V.(*ssa.Const); ok && cst.Value != nil {
					if cst.Value.String() == "true" {
						okFin, why = false, "returns the constant true"
					}
					continue
				}
				bo, ok := o.V.(*ssa.BinOp)
				if !ok || bo.Op != token.EQL || !(core.Mentions(bo.X, fieldLoad("TransactionInfo", "ChildTxCount")) || core.Mentions(bo.Y, fieldLoad("TransactionInfo", "ChildTxCount"))) {
					okFin, why = false, "a true result is not the comparison of the counted children with ChildTxCount"
				}
			}
		}
		// the early false on a differing child
		diff := condEdges(fin, func(f core.Fact, ifi *ssa.If) (bool, int) {
			if f.Kind == core.FCmp && (f.Op == token.NEQ || f.Op == token.EQL) {
				p := ssa.Value(fin.Params[0])
				if core.Strip(f.Subject) == p || core.Strip(f.Other) == p {
					return true, 0
				}
			}
			return false, 0
		})
		if diff.Len() == 0 {
			okFin, why = false, "children are not compared with the reported child status"
		}
		r.Check(okFin, "R05.1", "isMultiTxFinished: true only when all declared children agree", c.P.Pos(fin.Pos()), "true result is count == ChildTxCount; differing child returns false", "completeness test weakened: "+why)
	}()

	// R05.2 loops
	type loopSite struct {
		fn   string
		want string
	}
	checkFlip := func(rule, spec string, needTimeoutRemoval bool) {
		fn := c.P.Fn(spec)
		if fn == nil {
			r.Anchor(rule, spec)
			return
		}
		found := 0
		for _, b := range fn.Blocks {
			for _, in := range b.Instrs {
				mu, ok := in.(*ssa.MapUpdate)
				if !ok || !isChildMap(mu.Map) {
					continue
				}
				over, idx, ok := rangeOver(mu.Key)
				if !ok || idx != 1 || !isChildMap(over) {
					continue
				}
				found++
				key := shortFn(fn) + ": every child flipped"
				r.Check(unconditionalInLoop(fn, in), rule, key, c.P.Pos(in.Pos()), "ChildTxInfo[k] = status for every k of the range, unconditionally", "the loop over the children skips some child: not every child is moved to the failure/rollback status")
				// global state set on the same paths (before or after the loop)
				isThis := func(x ssa.Instruction) bool { return x == in }
				isGS := storesToField("TransactionInfo", "GlobalState")
				okGS := precedesAll(fn, isGS, isThis) || followsAll(fn, isThis, isGS, true)
				r.Check(okGS, rule, shortFn(fn)+" (flip branch): GlobalState set with the children", c.P.Pos(in.Pos()), "a GlobalState assignment dominates or follows the child flip loop on every successful path", "children are flipped without the global state being set on some path")
				if needTimeoutRemoval {
					c.mustFollow(rule, shortFn(fn)+" (flip branch)", fn, func(x ssa.Instruction) bool { return x == in }, func(x ssa.Instruction) bool {
						call, ok := x.(ssa.CallInstruction)
						return ok && strings.HasSuffix(core.CalleeName(call), ".removeFromTimeoutList")
					}, "child flip loop", "removeFromTimeoutList")
				}
			}
		}
		if found == 0 {
			// the failure branch may have been extracted: look for the flip loop in the helpers fn calls (two levels);
			// what must accompany the loop (global state, timeout-list removal) may then be in the helper or around
			// the helper call in fn
			isGS := storesToField("TransactionInfo", "GlobalState")
			isRem := func(x ssa.Instruction) bool {
				call, ok := x.(ssa.CallInstruction)
				return ok && strings.HasSuffix(core.CalleeName(call), ".removeFromTimeoutList")
			}
			for _, site := range core.Calls(fn) {
				h := core.StaticCallee(site)
				if h == nil || h == fn || !c.P.InModule(h) || core.PkgOf(h) != core.PkgOf(fn) {
					continue
				}
				for _, rf := range c.regionOf(h, 1) {
					for _, b := range rf.fn.Blocks {
						for _, in := range b.Instrs {
							mu, ok := in.(*ssa.MapUpdate)
							if !ok || !isChildMap(mu.Map) {
								continue
							}
							over, idx, ok := rangeOver(mu.Key)
							if !ok || idx != 1 || !isChildMap(over) {
								continue
							}
							found++
							key := shortFn(fn) + "/" + rf.fn.Name() + ": every child flipped"
							r.Check(unconditionalInLoop(rf.fn, in), rule, key, c.P.Pos(in.Pos()), "ChildTxInfo[k] = status for every k of the range, unconditionally (loop in a helper of "+shortFn(fn)+")", "the loop over the children skips some child: not every child is moved to the failure/rollback status")
							isThis := func(x ssa.Instruction) bool { return x == in }
							isSite := func(x ssa.Instruction) bool { return x == ssa.Instruction(site) }
							inHelperGS := precedesAll(rf.fn, isGS, isThis) && len(sites(rf.fn, isGS)) > 0 || followsAll(rf.fn, isThis, isGS, true)
							inCallerGS := precedesAll(fn, isGS, isSite) && len(sites(fn, isGS)) > 0 || followsAll(fn, isSite, isGS, true)
							r.Check(inHelperGS || inCallerGS, rule, shortFn(fn)+" (flip branch): GlobalState set with the children", c.P.Pos(in.Pos()), "a GlobalState assignment accompanies the child flip loop on every successful path (in the helper or around its call)", "children are flipped without the global state being set on some path")
							if needTimeoutRemoval {
								okRem := followsAll(rf.fn, isThis, isRem, false) || followsAll(fn, isSite, isRem, false)
								r.Check(okRem, rule, shortFn(fn)+" (flip branch): removeFromTimeoutList after child flip loop", c.P.Pos(in.Pos()), "every path from the flip loop to a return passes removeFromTimeoutList (in the helper or after its call)", "a failed group stays in the timeout list: it is rolled back again at its timeout height")
							}
						}
					}
				}
			}
		}
		r.Floor(rule, "flip loops in "+shortFnName(spec), found, 1)
	}
	checkFlip("R05.2", tmPrefix+"BeginMultiTXs", true)
	checkFlip("R05.2", tmPrefix+"changeMultiTxStatus", true)
	checkFlip("R05.2", execPrefix+"setGlobalTxStatus", false)
	if stg := c.P.Fn(execPrefix + "setGlobalTxStatus"); stg != nil {
		// the flipped record is stored
		okStore := followsAll(stg, storesToField("TransactionInfo", "GlobalState"), c.throughHelpers(callToMethod("SetState")), true)
		r.Check(okStore, "R05.2", "setGlobalTxStatus: flipped record stored", c.P.Pos(stg.Pos()), "every successful path from the GlobalState assignment passes SetState(global tx record)", "the flipped group record is not stored on some successful path")
	}
	// joining child = BEGIN only when the group is still BEGIN
	if bm := c.P.Fn(tmPrefix + "BeginMultiTXs"); bm != nil {
		var idParam *ssa.Parameter
		for _, p := range bm.Params {
			if p.Name() == "ibtpID" {
				idParam = p
			}
		}
		pickBegin := func(f core.Fact, ifi *ssa.If) (bool, int) {
			if f.Kind == core.FEqConst && f.Field == "GlobalState" && f.Const == "0" {
				return true, holdsEdge(f)
			}
			return false, 0
		}
		// the key is the joining child's id: the parameter, or the field of a context struct BeginMultiTXs stored it in
		isJoinID := func(k ssa.Value) bool {
			k = core.Strip(k)
			if idParam != nil && k == ssa.Value(idParam) {
				return true
			}
			if u, ok := k.(*ssa.UnOp); ok {
				if fa, ok := u.X.(*ssa.FieldAddr); ok {
					if vals, ok := core.CtxFieldValues(fa); ok && len(vals) > 0 {
						for _, cv := range vals {
							if idParam == nil || core.Strip(cv) != ssa.Value(idParam) {
								return false
							}
						}
						return true
					}
				}
			}
			return false
		}
		isJoinBegin := func(in ssa.Instruction) bool {
			mu, ok := in.(*ssa.MapUpdate)
			if !ok || !isChildMap(mu.Map) || !isJoinID(mu.Key) {
				return false
			}
			return enumName(mu.Value) == "TransactionStatus_BEGIN"
		}
		nb := c.behindEdges("R05.2", "BeginMultiTXs", bm, condEdges(bm, pickBegin), isJoinBegin, "GlobalState == BEGIN", "joining child set to BEGIN")
		if nb == 0 {
			// the join branch may have been extracted (joinGlobalTx)
			for _, call := range core.Calls(bm) {
				if h := core.StaticCallee(call); h != nil && h != bm && len(h.Blocks) > 0 && core.PkgOf(h) == core.PkgOf(bm) && len(sites(h, isJoinBegin)) > 0 {
					nb += c.behindEdges("R05.2", "BeginMultiTXs/"+h.Name(), h, condEdges(h, pickBegin), isJoinBegin, "GlobalState == BEGIN", "joining child set to BEGIN")
				}
			}
		}
		r.Floor("R05.2", "joining-child BEGIN assignments", nb, 1)
	}

	// R05.3
	if an := c.fn("R05.3", imPrefix+"addToMultiTxNotifyMap"); an != nil {
		nLoops := 0
		for _, b := range an.Blocks {
			for _, in := range b.Instrs {
				mu, ok := in.(*ssa.MapUpdate)
				if !ok {
					continue
				}
				// the appended element is a range element of slice S?
				var slice ssa.Value
				core.Mentions(mu.Value, func(v ssa.Value) bool {
					if u, ok := v.(*ssa.UnOp); ok && u.Op == token.MUL {
						if ia, ok := u.X.(*ssa.IndexAddr); ok {
							if _, isConst := ia.Index.(*ssa.Const); !isConst {
								slice = ia.X
							}
						}
					}
					return false
				})
				if slice == nil {
					// a bulk update (append(m[k], ids...)): the key stands for all ids, so it may only use what all
					// children of a group share - the source component of an id - and only when notifying the source
					var idsParam ssa.Value
					for _, p := range an.Params {
						if _, isSl := p.Type().Underlying().(*types.Slice); isSl {
							idsParam = p
						}
					}
					if idsParam == nil || !core.Mentions(mu.Value, func(v ssa.Value) bool { return v == idsParam }) {
						continue
					}
					nLoops++
					dstPart := core.Mentions(mu.Key, func(v ssa.Value) bool {
						ex, ok := v.(*ssa.Extract)
						if !ok || ex.Index == 0 {
							return false
						}
						cl, ok := ex.Tuple.(*ssa.Call)
						return ok && strings.HasSuffix(core.CalleeName(cl), "pb.ParseIBTPID")
					})
					var toSrc *ssa.Parameter
					for _, p := range an.Params {
						if b, ok := p.Type().Underlying().(*types.Basic); ok && b.Kind() == types.Bool {
							toSrc = p
						}
					}
					onlySrc := false
					if toSrc != nil {
						es := condEdges(an, func(f core.Fact, ifi *ssa.If) (bool, int) {
							if f.Kind == core.FBool && core.Strip(f.Subject) == ssa.Value(toSrc) {
								return true, holdsEdge(f)
							}
							return false, 0
						})
						rs := core.Reach([]core.Point{core.EntryOf(an)}, nil, core.CutOf(es))
						onlySrc = es.Len() > 0 && !rs.Has(in)
					}
					r.Check(!dstPart && onlySrc, "R05.3", "addToMultiTxNotifyMap: bulk filing only under the shared source", c.P.Pos(in.Pos()), "all ids filed at once only behind toSrc, under the source chain of an id",
						fmt.Sprintf("all ids are filed under one chain although that chain is not shared by them (key uses the destination part of one id: %v; restricted to the notify-source case: %v): children on other destination chains are never notified, the group does not end everywhere", dstPart, onlySrc))
					continue
				}
				nLoops++
				// does the key derive from slice[const]?
				fixed := core.Mentions(mu.Key, func(v ssa.Value) bool {
					if ia, ok := v.(*ssa.IndexAddr); ok {
						if _, isConst := ia.Index.(*ssa.Const); isConst && core.Strip(ia.X) == core.Strip(slice) {
							return true
						}
					}
					return false
				})
				fromElem := core.Mentions(mu.Key, func(v ssa.Value) bool {
					if ia, ok := v.(*ssa.IndexAddr); ok {
						if _, isConst := ia.Index.(*ssa.Const); !isConst && core.Strip(ia.X) == core.Strip(slice) {
							return true
						}
					}
					return false
				})
				r.Check(!fixed && fromElem, "R05.3", "addToMultiTxNotifyMap: per-id routing", c.P.Pos(in.Pos()), "map key derived from the loop element",
					fmt.Sprintf("inside the loop over the id list the chain key is derived from a fixed element (ids[const]) instead of the id being filed (fixed=%v, fromElement=%v): children of other chains are filed under the first child's chain", fixed, fromElem))
			}
		}
		r.Floor("R05.3", "notification-map updates in addToMultiTxNotifyMap", nLoops, 1)
	}

	// R05.4: the group leaves the timeout list only after its global state changed
	r.Rule("R05.4", "a group leaves the timeout list only when it ends: every removeFromTimeoutList of the transaction manager is preceded on every path by a change of the group's global state (a store to GlobalState or setFSM(&txInfo.GlobalState, ..)); a group whose state is still BEGIN stays listed, otherwise it never times out and its finished children are never rolled back.")
	r.Rule("R05.5", "who is told to roll back is decided on the stored statuses: in processExecuteEvent getTimeoutIBTPsMap - which puts a destination chain into the timeout notification only when its child already reached a final status - runs before setTimeoutRollback overwrites every child with BEGIN_ROLLBACK; in the other order no destination chain of a timed-out group is notified and succeeded children are never rolled back (shared with C06 R06.10).")
	c.expiryReadBeforeOverwrite("R05.5")
	r.Rule("R05.7", "succeeded children are found before their statuses are overwritten: in the transaction manager a test 'child status == SUCCESS' on an entry of a group's ChildTxInfo (the test that decides which destination chains are told to roll back) is never reachable after the statuses of that group were overwritten in bulk - by a loop in the same function that assigns other entries than the one just read, or by a helper (changeMultiTxStatus) that does; after a failure receipt every child reads BEGIN_FAILURE, no child is found, and the destination chains holding succeeded children are never told to roll back.")
	c.succeededBeforeOverwrite("R05.7")
	r.Rule("R05.8", childReceiptFSMText)
	c.childReceiptThroughFSM("R05.8")
	r.Rule("R05.6", "a group belongs to its source: the global id of a one-to-many transaction (genGlobalTxID) is the hash of the source service id (ibtp.From) and the declared destination -> index map; without the source two services that declare the same map share one group record, and children of one complete, fail or time out the other's group.")
	if gg := c.fn("R05.6", "internal/executor/contracts.genGlobalTxID"); gg != nil {
		fields, _, nh := preimageFields(gg, func(call ssa.CallInstruction) bool {
			return strings.HasSuffix(core.CalleeName(call), "sha256.Sum256")
		})
		r.Floor("R05.6", "hash calls in genGlobalTxID", nh, 1)
		var missing []string
		if !fields["From"] {
			missing = append(missing, "ibtp.From")
		}
		// the declared children: a map filled from Group.Keys / Group.Vals that flows into the preimage
		mapOK := false
		for _, b := range gg.Blocks {
			for _, in := range b.Instrs {
				mu, ok := in.(*ssa.MapUpdate)
				if !ok || !core.Mentions(mu.Key, fieldNamed("Keys")) || !core.Mentions(mu.Value, fieldNamed("Vals")) {
					continue
				}
				for _, call := range core.Calls(gg) {
					if strings.HasSuffix(core.CalleeName(call), "sha256.Sum256") && core.Mentions(call.Common().Args[0], func(v ssa.Value) bool { return v == core.Strip(mu.Map) }) {
						mapOK = true
					}
				}
			}
		}
		if !mapOK {
			missing = append(missing, "the destination -> index map (Group.Keys / Group.Vals)")
		}
		r.Check(len(missing) == 0, "R05.6", "genGlobalTxID: the group id covers the source and the declared children", c.P.Pos(gg.Pos()), "ibtp.From and the Group map flow into the sha256 preimage",
			"the global id no longer depends on "+strings.Join(missing, ", ")+": groups of different sources (or with different children) collapse into one record - a child of one group counts for the other, and a failure or timeout of one rolls the other back")
	}
	nRem := 0
	isGlobalChange := func(in ssa.Instruction) bool {
		if storesToField("TransactionInfo", "GlobalState")(in) {
			return true
		}
		call, ok := in.(ssa.CallInstruction)
		if !ok || !strings.HasSuffix(core.CalleeName(call), ".setFSM") {
			return false
		}
		_, fld, _, okf := core.FieldOf(core.Arg(call, 0))
		return okf && fld == "GlobalState"
	}
	for _, fn := range m.funcs {
		if fn.Name() == "removeFromTimeoutList" {
			continue
		}
		nRem += c.mustPrecede("R05.4", shortFn(fn), fn, isGlobalChange, func(in ssa.Instruction) bool {
			call, ok := in.(ssa.CallInstruction)
			return ok && strings.HasSuffix(core.CalleeName(call), "TransactionManager).removeFromTimeoutList")
		}, "change of the group's global state", "removal from the timeout list")
	}
	r.Floor("R05.4", "timeout-list removals in the transaction manager", nRem, 2)
}

func shortFnName(spec string) string {
	if i := strings.LastIndex(spec, "."); i >= 0 {
		return spec[i+1:]
	}
	return spec
}

// succeededBeforeOverwrite: R05.7.
func (c *Ctx) succeededBeforeOverwrite(rule string) {
	r := c.R
	isChildMap := func(v ssa.Value) bool {
		_, f, _, ok := core.FieldOf(core.Strip(v))
		return ok && f == "ChildTxInfo"
	}
	// functions that overwrite child statuses in a loop (bulk)
	bulk := map[*ssa.Function]bool{}
	var tmFns []*ssa.Function
	for _, fn := range c.P.ModuleFuncs(true) {
		if core.PkgOf(fn) != "internal/executor/contracts" || len(fn.Blocks) == 0 {
			continue
		}
		tmFns = append(tmFns, fn)
		for _, b := range fn.Blocks {
			for _, in := range b.Instrs {
				if mu, ok := in.(*ssa.MapUpdate); ok && isChildMap(mu.Map) && core.InLoop(mu) {
					bulk[fn] = true
				}
			}
		}
	}
	nTests := 0
	for _, fn := range tmFns {
		// tests: BinOp EQL/NEQ between a value read from a ChildTxInfo entry and the constant SUCCESS
		type test struct {
			at  *ssa.BinOp
			rng *ssa.Range // the range that produced the entry, nil for a lookup
		}
		var tests []test
		for _, b := range fn.Blocks {
			for _, in := range b.Instrs {
				bo, ok := in.(*ssa.BinOp)
				if !ok || (bo.Op != token.EQL && bo.Op != token.NEQ) {
					continue
				}
				var val ssa.Value
				switch {
				case enumName(core.Strip(bo.Y)) == "TransactionStatus_SUCCESS":
					val = bo.X
				case enumName(core.Strip(bo.X)) == "TransactionStatus_SUCCESS":
					val = bo.Y
				default:
					continue
				}
				var rng *ssa.Range
				fromChild := core.Mentions(val, func(w ssa.Value) bool {
					switch x := w.(type) {
					case *ssa.Lookup:
						return isChildMap(x.X)
					case *ssa.Next:
						if rg, ok := x.Iter.(*ssa.Range); ok && isChildMap(rg.X) {
							rng = rg
							return true
						}
					}
					return false
				})
				if fromChild {
					tests = append(tests, test{bo, rng})
				}
			}
		}
		if len(tests) == 0 {
			continue
		}
		// overwrites in fn: bulk helpers called, and own map updates that do not write the entry just read
		for ti, t := range tests {
			nTests++
			bad := ""
			for _, b := range fn.Blocks {
				for _, in := range b.Instrs {
					var w ssa.Instruction
					what := ""
					switch x := in.(type) {
					case *ssa.MapUpdate:
						if !isChildMap(x.Map) {
							continue
						}
						// writing the entry the same range just produced is reading before overwriting, per entry
						if t.rng != nil && core.Mentions(x.Key, func(v ssa.Value) bool {
							nx, ok := v.(*ssa.Next)
							return ok && nx.Iter == ssa.Value(t.rng)
						}) {
							continue
						}
						if !core.InLoop(x) {
							continue // a single entry (the reporting child itself)
						}
						w, what = x, "the loop at "+c.P.Pos(x.Pos())
					case ssa.CallInstruction:
						g := core.StaticCallee(x)
						if g == nil || !bulk[g] || g == fn {
							continue
						}
						w, what = x, "the call of "+shortFn(g)+" at "+c.P.Pos(x.Pos())
					default:
						continue
					}
					rs := core.Reach([]core.Point{core.After(w)}, nil, nil)
					if rs.Has(t.at) {
						bad = what + " overwrites the child statuses of the group, and the test at " + c.P.Pos(t.at.Pos()) + " runs afterwards"
					}
				}
			}
			r.Check(bad == "", rule, fmt.Sprintf("%s: child status tested against SUCCESS before any bulk overwrite #%d", shortFn(fn), ti+1), c.P.Pos(t.at.Pos()), "no bulk overwrite of ChildTxInfo reaches this test", bad+": no child is SUCCESS any more, so the destination chains that hold already-succeeded children are not told to roll them back although the group failed")
		}
	}
	r.Floor(rule, "tests of a child status against SUCCESS in the contracts", nTests, 2)
}

// c05Membership: R05.9.
func (c *Ctx) c05Membership() {
	r := c.R
	m := c.Contracts()
	n := 0
	readsDeclaration := func(v ssa.Value) bool {
		return core.Mentions(v, func(w ssa.Value) bool {
			o, f, _, ok := core.FieldOf(w)
			return ok && (f == "Keys" || f == "Vals") && strings.Contains(o, "pb.")
		})
	}
	for _, e := range m.bvm.Edges {
		if e.Method != "BeginMultiTXs" || len(e.Site.Call.Args) < 3 {
			continue
		}
		n++
		fn := e.From
		// the failure flag: the pb.Bool(..) argument
		var flag ssa.Value
		core.Mentions(e.Site.Call.Args[len(e.Site.Call.Args)-1], func(w ssa.Value) bool {
			if cc, ok := w.(*ssa.Call); ok && strings.HasSuffix(core.CalleeName(cc), "pb.Bool") && len(cc.Call.Args) == 1 {
				flag = cc.Call.Args[0]
			}
			return false
		})
		ok := false
		why := "no failure flag found at the call"
		if flag != nil {
			why = "the failure flag does not depend on the group's declared children"
			if readsDeclaration(flag) {
				ok = true
			} else if p, isP := core.Strip(flag).(*ssa.Parameter); isP {
				idx := -1
				for i, q := range fn.Params {
					if q == p {
						idx = i
					}
				}
				ss := core.StaticSitesOf(fn)
				ok = idx >= 0 && len(ss) > 0
				for _, site := range ss {
					if idx >= len(site.Common().Args) || !readsDeclaration(site.Common().Args[idx]) {
						ok = false
					}
				}
			}
		}
		key := shortFn(fn) + ": child checked against the declared group before BeginMultiTXs"
		r.Check(ok, "R05.9", key, c.P.Pos(e.Site.Pos()), "the failure flag depends on Group.Keys / Vals", why+": a request that carries a group descriptor it is not listed in (faulty or malicious source chain) is begun as a child; two such children complete a group of two declared ones - the global status becomes SUCCESS while a declared child never began")
	}
	r.Floor("R05.9", "BeginMultiTXs cross-invokes", n, 1)
}

// c05InlinedCompleteness: R05.1 when isMultiTxFinished has been inlined. The positive edge is the true edge of a
// comparison `counter == ChildTxCount` that is itself reached only over the true edge of a boolean flag which a
// differing child sets to false (a phi with a constant-false operand); the counter is a loop-carried +1 counter.
func (c *Ctx) c05InlinedCompleteness(m *contractsModel, setFSM *ssa.Function) {
	r := c.R
	n := 0
	for _, fn := range m.funcs {
		isGlobalFSM := func(in ssa.Instruction) bool {
			call, ok := in.(ssa.CallInstruction)
			if !ok || core.StaticCallee(call) != setFSM {
				return false
			}
			_, f, _, ok2 := core.FieldOf(call.Common().Args[1])
			return ok2 && f == "GlobalState"
		}
		if len(sites(fn, isGlobalFSM)) == 0 {
			continue
		}
		es := core.EdgeSet{}
		for _, b := range fn.Blocks {
			ifi := core.IfOf(b)
			if ifi == nil {
				continue
			}
			bo, ok := ifi.Cond.(*ssa.BinOp)
			if !ok || bo.Op != token.EQL {
				continue
			}
			var counter ssa.Value
			switch {
			case core.Mentions(bo.Y, fieldLoad("TransactionInfo", "ChildTxCount")):
				counter = bo.X
			case core.Mentions(bo.X, fieldLoad("TransactionInfo", "ChildTxCount")):
				counter = bo.Y
			default:
				continue
			}
			// the counter: a phi one of whose operands is itself + 1
			ph, ok := counter.(*ssa.Phi)
			if !ok {
				continue
			}
			plusOne := false
			for _, e := range ph.Edges {
				if inc, ok := e.(*ssa.BinOp); ok && inc.Op == token.ADD {
					if one, ok := core.ConstInt(inc.Y); ok && one == 1 {
						plusOne = true
					}
				}
			}
			if !plusOne || len(b.Preds) != 1 {
				continue
			}
			// reached only over the true edge of the flag
			pa := b.Preds[0]
			pif := core.IfOf(pa)
			if pif == nil || len(pa.Succs) != 2 || pa.Succs[0] != b {
				continue
			}
			flag, ok := pif.Cond.(*ssa.Phi)
			if !ok {
				continue
			}
			hasFalse := false
			for _, e := range flag.Edges {
				if k, ok := e.(*ssa.Const); ok && k.Value != nil && k.Value.ExactString() == "false" {
					hasFalse = true
				}
			}
			if hasFalse {
				es.Add(b, 0)
			}
		}
		n += c.behindEdges("R05.1", shortFn(fn), fn, es, isGlobalFSM, "all children agree and counted == ChildTxCount (inlined completeness test)", "global status transition")
	}
	r.Floor("R05.1", "global status transitions through the FSM", n, 1)
	nst := 0
	for _, fn := range c.P.ModuleFuncs(true) {
		for _, in := range sites(fn, storesToField("TransactionInfo", "GlobalState")) {
			nst++
			if enumName(in.(*ssa.Store).Val) == "TransactionStatus_SUCCESS" {
				r.Bad("R05.1", shortFn(fn)+": GlobalState = SUCCESS", c.P.Pos(in.Pos()), "the global state of a one-to-many transaction is set to SUCCESS directly, bypassing the completeness check")
			}
		}
	}
	r.Floor("R05.1", "direct GlobalState stores inspected", nst, 3)
}
