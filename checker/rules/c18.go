package rules

import (
	"fmt"
	"go/token"
	"go/types"
	"strings"

	"bxhlint/core"

	"golang.org/x/tools/go/ssa"
)

func init() {
	Props["C18"] = C18
	Props["C19"] = C19
}

const mpPrefix = "pkg/order/mempool.(*mempoolImpl)."

// isAppendTo: instruction is append(dst, ..) where dst is (a load of) variable named-ish via predicate.
func appendsWhere(pred func(dst ssa.Value) bool) InstrPred {
	return func(in ssa.Instruction) bool {
		call, ok := in.(*ssa.Call)
		if !ok {
			return false
		}
		b, ok := call.Call.Value.(*ssa.Builtin)
		if !ok || b.Name() != "append" {
			return false
		}
		return pred(call.Call.Args[0])
	}
}

// lookupMissEdges: edges on which a comma-ok lookup in a map satisfying mapPred missed (hit=false) or hit (hit=true).
func lookupEdges(fn *ssa.Function, mapPred func(ssa.Value) bool, hit bool) core.EdgeSet {
	return condEdges(fn, func(f core.Fact, ifi *ssa.If) (bool, int) {
		match := func(v ssa.Value) bool {
			for _, o := range append(core.Origins(v), v) {
				if ex, ok := core.Strip(o).(*ssa.Extract); ok && ex.Index == 1 {
					if lk, ok := ex.Tuple.(*ssa.Lookup); ok && mapPred(lk.X) {
						return true
					}
				}
			}
			return false
		}
		if f.Kind == core.FBool && match(f.Subject) {
			if hit {
				return true, holdsEdge(f)
			}
			return true, 1 - holdsEdge(f)
		}
		// pointer-valued map: m[k] != nil
		if f.Kind == core.FNil {
			if lk, ok := core.Strip(f.Subject).(*ssa.Lookup); ok && mapPred(lk.X) {
				if hit {
					return true, 1 - holdsEdge(f)
				}
				return true, holdsEdge(f)
			}
		}
		return false, 0
	})
}

func fieldNamed(name string) func(ssa.Value) bool {
	return func(v ssa.Value) bool {
		_, f, _, ok := core.FieldOf(v)
		return ok && f == name
	}
}

func mentionsField(name string) func(ssa.Value) bool {
	return func(v ssa.Value) bool { return core.Mentions(v, fieldNamed(name)) }
}

// C18: the pool batches each account's transactions in gap-free nonce order, once.
func C18(c *Ctx) {
	r := c.R
	r.Rule("R18.1", "admission filter: in ProcessTransactions a transaction enters the insertion set only across the edges nonce >= pending nonce, (account, nonce) not yet seen in this call, and hash not present in txHashMap.")
	r.Rule("R18.2", "inclusion guard: in generateBlock every batchedTxs[ptr] = true and every append to the batch lies behind (predecessor (account, nonce-1) is batched) or (nonce == commit nonce); the predecessor lookup uses nonce-1 of the same account; marking and appending are paired both ways - an appended key is marked on every path, and a marked key is appended on every path before the iteration callback returns.")
	r.Rule("R18.3", "size bound: every append to the batch is followed, before the next append, by the test that stops the iteration when len(batch) reached the batch size, and the batch size is min(configured size, ready count).")
	r.Rule("R18.4", "sequence numbers: batchSeqNo is written only by the constructor, SetBatchSeqNo and one increment in generateBlock, after which generateBlock cannot return an error (the number is always carried by a returned batch).")
	r.Rule("R18.5", "promotion: filterReady adds to the ready list only on the edge nonce == demanded nonce and advances the demanded nonce by one on that edge.")
	r.Rule("R18.6", "the commit nonce is what was committed: nonceCache.updateCommittedNonce hands each account's reported nonce to setCommitNonce unchanged (the value of the map it ranges over, on every path); a nonce adjusted on the way - e.g. clamped to the pending nonce - makes generateBlock start an account below its committed nonce and batch transactions a second time.")
	r.Rule("R18.7", batchedMarkText)
	c.batchedMarks("R18.7")
	c.c18CommitNonce()
	r.Rule("R18.8", "the commit nonce only moves forward: in processCommitTransactions the nonce handed on for an account (entry of the map given to updateCommittedNonce, or a direct setCommitNonce) is computed from a pool entry reported as committed only behind the comparison commit nonce (getCommitNonce of that account) < new nonce; reports can arrive split and out of order, and without the comparison a later report of lower nonces moves the commit nonce back - the already committed nonces are admitted and batched again.")
	c.c18CommitForward()
	r.Rule("R18.9", "the pending nonce is never below the commit nonce: a commit report may name nonces this replica's pool never held as ready (the gap below them was filled on another replica, or the whole transaction was never received); processCommitTransactions therefore raises an account's pending nonce to its new commit nonce (a setPendingNonce fed from the commit nonce, in the function or a helper of the commit path). Otherwise the admission filter (nonce >= pending nonce) admits transactions that are already committed, and the account's following transactions are never batched on this replica.")
	c.c18PendingFollowsCommit()
	c.c18HashLifetime()
	r.NotDecided = append(r.NotDecided, "history-dependent consistency of the indices over arrival/commit interleavings; restart reload of nonces; the unbounded batch when the ready counter is 0 while ready transactions exist (reported as information)")

	pt := c.fn("R18.1", mpPrefix+"ProcessTransactions")
	if pt != nil {
		isValidSet := func(t types.Type) bool {
			return strings.Contains(t.String(), "map[string][]") && strings.Contains(t.String(), "pb.Transaction")
		}
		isInsertDirect := func(in ssa.Instruction) bool {
			mu, ok := in.(*ssa.MapUpdate)
			return ok && isValidSet(mu.Map.Type())
		}
		// also through a get-or-create helper that appends to the set it receives (appendAccountTx(set, account, tx))
		isInsert := func(in ssa.Instruction) bool {
			if isInsertDirect(in) {
				return true
			}
			call, ok := in.(ssa.CallInstruction)
			if !ok {
				return false
			}
			h := core.StaticCallee(call)
			if h == nil || len(h.Blocks) == 0 || core.PkgOf(h) != core.PkgOf(pt) {
				return false
			}
			for _, x := range sites(h, isInsertDirect) {
				if _, isPar := core.Strip(x.(*ssa.MapUpdate).Map).(*ssa.Parameter); isPar {
					return true
				}
			}
			return false
		}
		// the admission of one transaction may have been extracted from the loop of ProcessTransactions: the filter is
		// evaluated where the insertion is
		if len(sites(pt, isInsert)) == 0 {
			for _, call := range core.Calls(pt) {
				if h := core.StaticCallee(call); h != nil && len(h.Blocks) > 0 && core.PkgOf(h) == core.PkgOf(pt) && len(sites(h, isInsert)) > 0 && h.Signature.Recv() != nil {
					pt = h
					break
				}
			}
		}
		// nonce >= pending: `tx.GetNonce() < currentSeqNo` false edge
		nonceOK := condEdges(pt, func(f core.Fact, ifi *ssa.If) (bool, int) {
			bo, ok := ifi.Cond.(*ssa.BinOp)
			if !ok {
				return false, 0
			}
			isNonce := func(v ssa.Value) bool {
				cc, ok := core.Strip(v).(*ssa.Call)
				return ok && core.CalleeObj(cc) != nil && core.CalleeObj(cc).Name() == "GetNonce"
			}
			isPending := func(v ssa.Value) bool {
				cc, ok := core.Strip(v).(*ssa.Call)
				return ok && strings.HasSuffix(core.CalleeName(cc), "nonceCache).getPendingNonce")
			}
			switch {
			case bo.Op == token.LSS && isNonce(bo.X) && isPending(bo.Y):
				return true, 1
			case bo.Op == token.GEQ && isNonce(bo.X) && isPending(bo.Y):
				return true, 0
			case bo.Op == token.GTR && isPending(bo.X) && isNonce(bo.Y):
				return true, 1
			case bo.Op == token.LEQ && isPending(bo.X) && isNonce(bo.Y):
				return true, 0
			}
			return false, 0
		})
		n := c.behindEdges("R18.1", "ProcessTransactions", pt, nonceOK, isInsert, "nonce >= pending nonce", "insertion into the valid set")
		seen := lookupEdges(pt, func(v ssa.Value) bool {
			return strings.Contains(v.Type().String(), "map[github.com/meshplus/bitxhub/pkg/order/mempool.txnPointer]")
		}, false)
		c.behindEdges("R18.1", "ProcessTransactions", pt, seen, isInsert, "(account, nonce) not seen in this call", "insertion into the valid set")
		known := lookupEdges(pt, mentionsField("txHashMap"), false)
		c.behindEdges("R18.1", "ProcessTransactions", pt, known, isInsert, "hash not in txHashMap", "insertion into the valid set")
		r.Floor("R18.1", "insertion sites", n, 1)
	}

	gb := c.fn("R18.2", mpPrefix+"generateBlock")
	if gb != nil {
		nIncl := 0
		// where the iteration callback lives: a closure of generateBlock, or a method value handed to the index walk
		// (`index.Ascend(collector.visit)`)
		cands := core.WithClosures(gb)
		for _, call := range core.Calls(gb) {
			for _, a := range call.Common().Args {
				if t := core.FuncValueTarget(a); t != nil && t.Parent() == nil && t.Signature.Recv() != nil && core.PkgOf(t) == core.PkgOf(gb) {
					cands = append(cands, t)
				}
			}
		}
		// a call of a local closure variable (take := func(ptr) bool {..}; take(k)) resolves to that closure
		resolveLocal := func(call ssa.CallInstruction) *ssa.Function {
			if h := core.StaticCallee(call); h != nil {
				return h
			}
			if call.Common().IsInvoke() {
				return nil
			}
			v := call.Common().Value
			if t := core.FuncValueTarget(core.Strip(v)); t != nil {
				return t
			}
			if t := core.FuncValueTarget(core.VarIdentity(v)); t != nil {
				return t
			}
			// a captured variable holding the closure: the single store into its cell in the enclosing function
			if u, ok := v.(*ssa.UnOp); ok {
				if fv, ok := u.X.(*ssa.FreeVar); ok {
					for _, pf := range cands {
						for _, b := range pf.Blocks {
							for _, in := range b.Instrs {
								if st, ok := in.(*ssa.Store); ok {
									if al, ok := st.Addr.(*ssa.Alloc); ok && al.Comment == fv.Name() {
										if t := core.FuncValueTarget(st.Val); t != nil {
											return t
										}
									}
								}
							}
						}
					}
				}
			}
			return nil
		}
		// closures that are local helpers of another candidate (called from it) are judged at their call sites
		localHelper := map[*ssa.Function]bool{}
		for _, f := range cands {
			for _, call := range core.Calls(f) {
				if h := resolveLocal(call); h != nil && h != f && h.Parent() != nil {
					for _, cf := range cands {
						if cf == h {
							localHelper[h] = true
						}
					}
				}
			}
		}
		for _, f := range cands {
			if localHelper[f] {
				continue
			}
			isBatched := func(v ssa.Value) bool { return core.Mentions(v, fieldNamed("batchedTxs")) }
			isIncludeDirect := or(func(in ssa.Instruction) bool {
				mu, ok := in.(*ssa.MapUpdate)
				return ok && isBatched(mu.Map)
			}, appendsWhere(func(dst ssa.Value) bool { return strings.Contains(dst.Type().String(), "orderedIndexKey") }))
			// mark and append may sit together in a helper that receives the key (collector.take(key)): its call is
			// the inclusion, and the pairing of mark and append is decided inside the helper
			isInclude := func(in ssa.Instruction) bool {
				if isIncludeDirect(in) {
					return true
				}
				call, ok := in.(ssa.CallInstruction)
				if !ok {
					return false
				}
				h := resolveLocal(call)
				return h != nil && h != f && len(h.Blocks) > 0 && core.PkgOf(h) == core.PkgOf(gb) && len(sites(h, isIncludeDirect)) > 0
			}
			if len(sites(f, isInclude)) == 0 {
				continue
			}
			if len(sites(f, isIncludeDirect)) == 0 {
				// pairing inside the helper(s): every helper that appends a key marks the same key and vice versa
				for _, x := range sites(f, isInclude) {
					h := resolveLocal(x.(ssa.CallInstruction))
					nApp := len(sites(h, appendsWhere(func(dst ssa.Value) bool { return strings.Contains(dst.Type().String(), "orderedIndexKey") })))
					nMark := len(sites(h, func(in ssa.Instruction) bool { mu, ok := in.(*ssa.MapUpdate); return ok && isBatched(mu.Map) }))
					okPair := nApp == 1 && nMark == 1
					if okPair {
						// straight-line: no return between the two
						var first ssa.Instruction
						for _, b := range h.Blocks {
							for _, in := range b.Instrs {
								if first == nil && isIncludeDirect(in) {
									first = in
								}
							}
						}
						rs := core.Reach([]core.Point{core.After(first)}, func(in ssa.Instruction) bool { return in != first && isIncludeDirect(in) }, nil)
						for _, ret := range core.Returns(h) {
							if rs.Has(ret) {
								okPair = false
							}
						}
						// and both use the key the helper received
						for _, in := range sites(h, isIncludeDirect) {
							if mu, ok := in.(*ssa.MapUpdate); ok {
								if _, isPar := core.Strip(mu.Key).(*ssa.Parameter); !isPar {
									okPair = false
								}
							}
						}
					}
					r.Check(okPair, "R18.2", "generateBlock: "+h.Name()+" marks and appends the key it receives", c.P.Pos(x.Pos()), "one mark and one append of the helper's key parameter, no return between them",
						"the helper that includes a transaction does not both mark it in batchedTxs and append it to the batch on every path")
				}
			}
			es := core.EdgeSet{}
			// seenPrevious true
			es.Merge(condEdges(f, func(fc core.Fact, ifi *ssa.If) (bool, int) {
				if fc.Kind != core.FBool {
					return false, 0
				}
				for _, o := range append(core.Origins(fc.Subject), fc.Subject) {
					if ex, ok := core.Strip(o).(*ssa.Extract); ok && ex.Index == 1 {
						if lk, ok := ex.Tuple.(*ssa.Lookup); ok && isBatched(lk.X) {
							// key nonce must be txSeq - 1
							if core.Mentions(lk.Index, func(v ssa.Value) bool {
								bo, ok := v.(*ssa.BinOp)
								if !ok || bo.Op != token.SUB {
									return false
								}
								one, ok := core.ConstInt(bo.Y)
								return ok && one == 1
							}) {
								return true, holdsEdge(fc)
							}
						}
					}
				}
				return false, 0
			}))
			// txSeq == commitNonce
			es.Merge(condEdges(f, func(fc core.Fact, ifi *ssa.If) (bool, int) {
				if fc.Kind != core.FCmp || fc.Op != token.EQL && fc.Op != token.NEQ {
					return false, 0
				}
				isCommit := func(v ssa.Value) bool {
					cc, ok := core.Strip(v).(*ssa.Call)
					return ok && strings.HasSuffix(core.CalleeName(cc), "nonceCache).getCommitNonce")
				}
				isNonce := func(v ssa.Value) bool { _, fld, _, ok := core.FieldOf(v); return ok && fld == "nonce" }
				if (isCommit(fc.Subject) && isNonce(fc.Other)) || (isCommit(fc.Other) && isNonce(fc.Subject)) {
					return true, holdsEdge(fc)
				}
				return false, 0
			}))
			nIncl += c.behindEdges("R18.2", "generateBlock", f, es, isInclude, "predecessor batched or nonce == commit nonce", "inclusion into the batch")
			for _, x := range sites(f, isInclude) {
				if !isIncludeDirect(x) { // a helper call stands for the mark and the append it performs
					nIncl += len(sites(resolveLocal(x.(ssa.CallInstruction)), isIncludeDirect)) - 1
				}
			}

			// pairing: every key appended to the batch is marked in batchedTxs on every path
			for _, ap := range sites(f, appendsWhere(func(dst ssa.Value) bool { return strings.Contains(dst.Type().String(), "orderedIndexKey") })) {
				call := ap.(*ssa.Call)
				// the appended element(s): the variadic slice's stored values
				var keys []ssa.Value
				core.Mentions(call.Call.Args[1], func(v ssa.Value) bool {
					if al, ok := v.(*ssa.Alloc); ok {
						keys = append(keys, core.StoresInto(al)...)
					}
					return false
				})
				marked := false
				for _, k := range keys {
					isMark := func(in ssa.Instruction) bool {
						mu, ok := in.(*ssa.MapUpdate)
						return ok && isBatched(mu.Map) && sameValue(mu.Key, k)
					}
					isThis := func(in ssa.Instruction) bool { return in == ap }
					if len(sites(f, isMark)) > 0 && (precedesAll(f, isMark, isThis) || followsAll(f, isThis, isMark, false)) {
						marked = true
					}
				}
				r.Check(marked, "R18.2", "generateBlock: appended key is marked as batched", c.P.Pos(ap.Pos()), "batchedTxs[key] = true on every path that appends key to the batch",
					"a transaction can be appended to the batch without being recorded in batchedTxs (e.g. when the batch becomes full on it): the next batch includes the same (account, nonce) again")
			}

			// dual pairing: every key marked as batched is appended to the batch before the closure ends or marks again
			{
				batchAppends := sites(f, appendsWhere(func(dst ssa.Value) bool { return strings.Contains(dst.Type().String(), "orderedIndexKey") }))
				appendedKeys := func(ap ssa.Instruction) []ssa.Value {
					var keys []ssa.Value
					core.Mentions(ap.(*ssa.Call).Call.Args[1], func(v ssa.Value) bool {
						if al, ok := v.(*ssa.Alloc); ok {
							keys = append(keys, core.StoresInto(al)...)
						}
						return false
					})
					return keys
				}
				nm := 0
				for _, in := range sites(f, func(in ssa.Instruction) bool {
					mu, ok := in.(*ssa.MapUpdate)
					return ok && isBatched(mu.Map)
				}) {
					mu := in.(*ssa.MapUpdate)
					isApp := func(x ssa.Instruction) bool {
						for _, ap := range batchAppends {
							if ap != x {
								continue
							}
							for _, k := range appendedKeys(ap) {
								if sameValue(k, mu.Key) {
									return true
								}
							}
						}
						return false
					}
					if len(batchAppends) == 0 {
						continue // a helper without the batch slice: pairing judged where the batch is built
					}
					nm++
					isThis := func(x ssa.Instruction) bool { return x == in }
					ok := len(sites(f, isApp)) > 0 && precedesAll(f, isApp, isThis)
					if !ok && len(sites(f, isApp)) > 0 {
						rs := core.Reach([]core.Point{core.After(in)}, isApp, nil)
						ok = !rs.Has(in)
						for _, ret := range core.Returns(f) {
							if rs.Has(ret) {
								ok = false
							}
						}
					}
					r.Check(ok, "R18.2", fmt.Sprintf("generateBlock: marked key #%d is appended to the batch", nm), c.P.Pos(in.Pos()), "every path from batchedTxs[key] = true reaches the append of the same key before the callback returns or marks again",
						"a transaction is recorded in batchedTxs but a path leaves the callback (e.g. the batch-full return) without appending it to the batch: it is in no batch, is skipped by every later generateBlock as already batched, and blocks all higher nonces of its account")
				}
			}

			// R18.3: after each append to result, the size test precedes the next append
			appends := sites(f, appendsWhere(func(dst ssa.Value) bool { return strings.Contains(dst.Type().String(), "orderedIndexKey") }))
			for _, ap := range appends {
				isSizeTest := func(in ssa.Instruction) bool {
					ifi, ok := in.(*ssa.If)
					if !ok {
						return false
					}
					bo, ok := ifi.Cond.(*ssa.BinOp)
					if !ok || (bo.Op != token.EQL && bo.Op != token.GEQ) {
						return false
					}
					return core.Mentions(bo.X, func(v ssa.Value) bool {
						cc, ok := v.(*ssa.Call)
						if !ok {
							return false
						}
						b, ok := cc.Call.Value.(*ssa.Builtin)
						return ok && b.Name() == "len"
					})
				}
				rs := core.Reach([]core.Point{core.After(ap)}, isSizeTest, nil)
				bad := false
				for _, other := range appends {
					if rs.Has(other) {
						bad = true
					}
				}
				for _, ret := range core.Returns(f) {
					if !rs.Has(ret) {
						continue
					}
					// a local helper that reports the size test to its caller (return len(batch) == size), every call of
					// which is the condition of a branch
					okRet := false
					if localHelper[f] && len(ret.Results) == 1 {
						if bo, isBO := ret.Results[0].(*ssa.BinOp); isBO && (bo.Op == token.EQL || bo.Op == token.GEQ) && core.Mentions(bo.X, func(v ssa.Value) bool {
							cc, ok := v.(*ssa.Call)
							if !ok {
								return false
							}
							b, ok := cc.Call.Value.(*ssa.Builtin)
							return ok && b.Name() == "len"
						}) {
							okRet = true
							for _, g := range cands {
								for _, call := range core.Calls(g) {
									if resolveLocal(call) != f {
										continue
									}
									cv, isVal := call.(*ssa.Call)
									tested := false
									if isVal {
										for _, ref := range *cv.Referrers() {
											if _, isIf := ref.(*ssa.If); isIf {
												tested = true
											}
										}
									}
									if !tested {
										okRet = false
									}
								}
							}
						}
					}
					if !okRet {
						bad = true
					}
				}
				r.Check(!bad, "R18.3", "generateBlock: size test after each append", c.P.Pos(ap.Pos()), "len(batch) is compared with the batch size before anything else is appended", "a transaction can be appended to the batch without the size bound being tested: the batch can exceed the configured size")
			}
		}
		r.Floor("R18.2", "inclusion sites", nIncl, 4)
		// batchSize = min(mpi.batchSize, priorityNonBatchSize)
		okMin := false
		for _, rf := range c.regionOf(gb, 2) {
			for _, b := range rf.fn.Blocks {
				if ifi := core.IfOf(b); ifi != nil {
					if bo, ok := ifi.Cond.(*ssa.BinOp); ok && (bo.Op == token.GTR || bo.Op == token.LSS || bo.Op == token.GEQ || bo.Op == token.LEQ) {
						if (mentionsField("priorityNonBatchSize")(bo.X) && mentionsField("batchSize")(bo.Y)) || (mentionsField("batchSize")(bo.X) && mentionsField("priorityNonBatchSize")(bo.Y)) {
							okMin = true
						}
					}
				}
			}
		}
		r.Check(okMin, "R18.3", "generateBlock: batch size = min(configured, ready)", c.P.Pos(gb.Pos()), "the bound is chosen by comparing the ready counter with the configured size", "the per-batch bound is not derived from the configured batch size")
		r.Note("R18.3", "generateBlock: bound is tested with ==", c.P.Pos(gb.Pos()), "with a ready counter of 0 (timed mode / counter drift) the bound is 0 and len(batch) == 0 never holds after an append: value-level, not decided")

		// R18.4
		nw := 0
		for _, fn := range c.P.ModuleFuncs(true) {
			if core.PkgOf(fn) != "pkg/order/mempool" {
				continue
			}
			for _, in := range sites(fn, storesToField("mempoolImpl", "batchSeqNo")) {
				nw++
				ok := fn.Name() == "SetBatchSeqNo" || fn.Name() == "newMempoolImpl" || fn == gb || c.onlyCalledFrom(fn, func(f *ssa.Function) bool { return f == gb })
				r.Check(ok, "R18.4", shortFn(fn)+": batchSeqNo writer", c.P.Pos(in.Pos()), "constructor / SetBatchSeqNo / generateBlock", "the batch sequence number is written by an unexpected function")
				if fn == gb {
					st := in.(*ssa.Store)
					inc := false
					if bo, ok := st.Val.(*ssa.BinOp); ok && bo.Op == token.ADD {
						if one, ok := core.ConstInt(bo.Y); ok && one == 1 && mentionsField("batchSeqNo")(bo.X) {
							inc = true
						}
					}
					after := core.Reach([]core.Point{core.After(in)}, nil, nil)
					errAfter := false
					for _, ret := range core.Returns(gb) {
						if after.Has(ret) && !core.IsNilConst(ret.Results[1]) {
							for _, o := range core.RetOrigins(ret.Results[1]) {
								if !core.IsNilConst(o.V) {
									errAfter = true
								}
							}
						}
					}
					r.Check(inc && !errAfter, "R18.4", "generateBlock: increment by one, then a batch is returned", c.P.Pos(in.Pos()), "batchSeqNo++ and no error return afterwards", "the sequence number is advanced on a path that returns no batch (or not by one): a height is skipped or repeated")
				}
			}
		}
		r.Floor("R18.4", "batchSeqNo writers", nw, 3)
	}

	// R18.5
	if fr := c.fn("R18.5", "pkg/order/mempool.(*txSortedMap).filterReady"); fr != nil {
		n := 0
		for _, f := range core.WithClosures(fr) {
			// ready appends: append to the captured readyTxs: the first [] pb.Transaction append on the == edge
			eq := condEdges(f, func(fc core.Fact, ifi *ssa.If) (bool, int) {
				if fc.Kind == core.FCmp && (fc.Op == token.EQL || fc.Op == token.NEQ) {
					isNonce := func(v ssa.Value) bool { _, fld, _, ok := core.FieldOf(v); return ok && fld == "nonce" }
					if isNonce(fc.Subject) || isNonce(fc.Other) {
						return true, holdsEdge(fc)
					}
				}
				return false, 0
			})
			if eq.Len() == 0 {
				continue
			}
			// on the equal edge: demandNonce is incremented by one; on the other edge it is not
			for b, mm := range eq {
				for si := range mm {
					rsEq := core.Reach([]core.Point{{B: b.Succs[si], Idx: 0}}, nil, func(bb *ssa.BasicBlock, i int) bool { return bb.Succs[i] == b })
					rsNe := core.Reach([]core.Point{{B: b.Succs[1-si], Idx: 0}}, nil, nil)
					incEq, incNe := false, false
					isInc := func(in ssa.Instruction) bool {
						st, ok := in.(*ssa.Store)
						if !ok {
							return false
						}
						bo, ok := st.Val.(*ssa.BinOp)
						if !ok || bo.Op != token.ADD {
							return false
						}
						one, ok := core.ConstInt(bo.Y)
						return ok && one == 1 && bo.Type().String() == "uint64"
					}
					for in := range rsEq.Instr {
						if isInc(in) && in.Block() == b.Succs[si] {
							incEq = true
						}
					}
					for in := range rsNe.Instr {
						if isInc(in) && in.Block() == b.Succs[1-si] {
							incNe = true
						}
					}
					n++
					r.Check(incEq && !incNe, "R18.5", "filterReady: demanded nonce advances by one only for the demanded nonce", c.P.Pos(b.Instrs[len(b.Instrs)-1].Pos()), "nonce == demand: ready, demand++ ; otherwise parked", "promotion does not follow the consecutive-nonce rule: a gap can be promoted or the demanded nonce does not advance by one")
				}
			}
		}
		r.Floor("R18.5", "promotion decisions", n, 1)
	}
	_ = fmt.Sprintf
}

// c18CommitNonce: R18.6.
func (c *Ctx) c18CommitNonce() {
	r := c.R
	// the hand-over loop lives in nonceCache.updateCommittedNonce; when that helper was inlined into its caller the same
	// obligation holds wherever the pool calls setCommitNonce in a loop over the reported nonces
	var where []*ssa.Function
	if fn := c.P.Fn("pkg/order/mempool.(*nonceCache).updateCommittedNonce"); fn != nil {
		where = []*ssa.Function{fn}
	} else {
		for _, f := range c.P.ModuleFuncs(true) {
			if core.PkgOf(f) == "pkg/order/mempool" && f.Name() != "setCommitNonce" {
				where = append(where, f)
			}
		}
	}
	n := 0
	for _, fn := range where {
		for _, call := range core.Calls(fn) {
			if !strings.HasSuffix(core.CalleeName(call), "nonceCache).setCommitNonce") || len(call.Common().Args) < 3 || !core.InLoop(call) {
				continue
			}
			n++
			val := call.Common().Args[2]
			over, idx, ok := rangeOver(val)
			isMap := false
			if ok {
				_, isMap = over.Type().Underlying().(*types.Map)
			}
			r.Check(ok && idx == 2 && isMap, "R18.6", fmt.Sprintf("%s: setCommitNonce #%d stores the reported nonce", fn.Name(), n), c.P.Pos(call.Pos()), "the value of the ranged map, unchanged",
				"the nonce stored as commit nonce is not (on every path) the one reported for the account: after an out-of-order commit the pool believes an older nonce is the committed one, and generateBlock batches transactions below the committed nonce again")
		}
	}
	r.Floor("R18.6", "setCommitNonce calls in a loop over the reported nonces", n, 1)
}

const batchedMarkText = "a batched mark leaves only with its transaction: the pool remembers in batchedTxs which (account, nonce) it has already handed to consensus, and generateBlock skips those; every delete(batchedTxs, k) takes k from the pool entry found in txHashMap for a hash of the reported commit list (the transaction that is being removed), never from a sweep over batchedTxs itself or from heights / ages - a mark removed while its batch is still in flight lets the same transaction be batched into a second block (shared by C18 R18.7 and C20 R20.9)."

// batchedMarks: R18.7 / R20.9.
func (c *Ctx) batchedMarks(rule string) {
	r := c.R
	n := 0
	for _, fn := range c.P.ModuleFuncs(true) {
		if core.PkgOf(fn) != "pkg/order/mempool" || len(fn.Blocks) == 0 {
			continue
		}
		for _, call := range core.Calls(fn) {
			bn, ok := call.Common().Value.(*ssa.Builtin)
			if !ok || bn.Name() != "delete" || len(call.Common().Args) != 2 || !core.Mentions(call.Common().Args[0], fieldNamed("batchedTxs")) {
				continue
			}
			n++
			k := call.Common().Args[1]
			fromHashMap := core.Mentions(k, func(v ssa.Value) bool {
				lk, ok := v.(*ssa.Lookup)
				return ok && core.Mentions(lk.X, fieldNamed("txHashMap"))
			})
			fromOwnRange := core.Mentions(k, func(v ssa.Value) bool {
				nx, ok := v.(*ssa.Next)
				if !ok {
					return false
				}
				rg, ok := nx.Iter.(*ssa.Range)
				return ok && core.Mentions(rg.X, fieldNamed("batchedTxs"))
			})
			r.Check(fromHashMap && !fromOwnRange, rule, fmt.Sprintf("%s: batched mark removed with its transaction #%d", shortFn(fn), n), c.P.Pos(call.Pos()), "the key is the pool entry found in txHashMap for a committed hash",
				"a mark is deleted from batchedTxs under a key that is not the entry of a transaction being removed (a sweep over the marks, by height or age): the mark of a batch that is still in flight disappears and generateBlock batches the same transaction again - one transaction in two delivered blocks")
		}
	}
	r.Floor(rule, "deletes from batchedTxs", n, 1)
}

// c18CommitForward: R18.8.
func (c *Ctx) c18CommitForward() {
	r := c.R
	fn := c.fn("R18.8", mpPrefix+"processCommitTransactions")
	if fn == nil {
		return
	}
	n := 0
	for _, rf := range c.regionOf(fn, 1) {
		f := rf.fn
		isCommitRead := func(v ssa.Value) bool {
			return core.Mentions(v, func(w ssa.Value) bool {
				cc, ok := w.(*ssa.Call)
				return ok && strings.HasSuffix(core.CalleeName(cc), "nonceCache).getCommitNonce")
			})
		}
		isNew := func(v ssa.Value) bool {
			// nonce + 1 of a pool entry
			return core.Mentions(v, func(w ssa.Value) bool {
				bo, ok := w.(*ssa.BinOp)
				if !ok || bo.Op != token.ADD {
					return false
				}
				one, ok := core.ConstInt(bo.Y)
				_, fld, _, okF := core.FieldOf(bo.X)
				return ok && one == 1 && okF && fld == "nonce"
			})
		}
		fwd := condEdges(f, func(fc core.Fact, ifi *ssa.If) (bool, int) {
			bo, ok := ifi.Cond.(*ssa.BinOp)
			if !ok {
				return false, 0
			}
			switch {
			case (bo.Op == token.LSS) && isCommitRead(bo.X) && isNew(bo.Y):
				return true, 0
			case (bo.Op == token.GEQ) && isCommitRead(bo.X) && isNew(bo.Y):
				return true, 1
			case (bo.Op == token.GTR) && isNew(bo.X) && isCommitRead(bo.Y):
				return true, 0
			case (bo.Op == token.LEQ) && isNew(bo.X) && isCommitRead(bo.Y):
				return true, 1
			}
			return false, 0
		})
		isAdvance := func(in ssa.Instruction) bool {
			switch x := in.(type) {
			case *ssa.MapUpdate:
				return strings.HasSuffix(x.Map.Type().String(), "map[string]uint64") && isNew(x.Value)
			case ssa.CallInstruction:
				if strings.HasSuffix(core.CalleeName(x), "nonceCache).setCommitNonce") {
					args := x.Common().Args
					return len(args) > 0 && isNew(args[len(args)-1])
				}
			}
			return false
		}
		if len(sites(f, isAdvance)) == 0 {
			continue
		}
		n += c.behindEdges("R18.8", shortFn(f), f, fwd, isAdvance, "commit nonce < new nonce", "advance of the commit nonce")
	}
	r.Floor("R18.8", "commit-nonce advances computed from committed pool entries", n, 1)
}

// c18PendingFollowsCommit: R18.9.
func (c *Ctx) c18PendingFollowsCommit() {
	r := c.R
	fn := c.fn("R18.9", mpPrefix+"processCommitTransactions")
	if fn == nil {
		return
	}
	found := ""
	for _, rf := range c.regionOf(fn, 2) {
		for _, call := range core.Calls(rf.fn) {
			if !strings.HasSuffix(core.CalleeName(call), "nonceCache).setPendingNonce") {
				continue
			}
			args := call.Common().Args
			if len(args) == 0 {
				continue
			}
			if core.Mentions(args[len(args)-1], func(w ssa.Value) bool {
				cc, ok := w.(*ssa.Call)
				return ok && strings.HasSuffix(core.CalleeName(cc), "nonceCache).getCommitNonce")
			}) {
				found = c.P.Pos(call.Pos())
			}
		}
	}
	key := "processCommitTransactions: pending nonce raised to the commit nonce"
	if found != "" {
		r.OK("R18.9", key, found, "setPendingNonce(account, commit nonce) on the commit path")
	} else {
		r.Bad("R18.9", key, c.P.Pos(fn.Pos()), "the commit path advances commitNonces but never pendingNonces: after a commit that names nonces this pool did not hold as ready the pending nonce stays below the commit nonce - an already committed transaction passes the admission filter again, and the account's later transactions are parked for ever on this replica")
	}
}
