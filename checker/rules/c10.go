package rules

import (
	"fmt"
	"go/token"
	"go/types"
	"sort"
	"strings"

	"bxhlint/core"

	"golang.org/x/tools/go/ssa"
)

func init() { Props["C10"] = C10 }

// appendsTo collects the `append(dst, x...)` calls whose result flows (through
// phis) into v, i.e. the instructions that build the byte slice v.
func appendChain(v ssa.Value) []*ssa.Call {
	var out []*ssa.Call
	seen := map[ssa.Value]bool{}
	var walk func(v ssa.Value)
	walk = func(v ssa.Value) {
		v = core.Strip(v)
		if v == nil || seen[v] {
			return
		}
		seen[v] = true
		switch x := v.(type) {
		case *ssa.Phi:
			for _, e := range x.Edges {
				walk(e)
			}
		case *ssa.Call:
			if b, ok := x.Call.Value.(*ssa.Builtin); ok && b.Name() == "append" {
				out = append(out, x)
				walk(x.Call.Args[0])
			}
		case *ssa.Slice:
			walk(x.X)
		}
	}
	walk(v)
	return out
}

// enclosingRange: the slice/map value the innermost loop around `in` ranges over.
// For rangeindex loops (slices) returns (slice, false); for map/string Range returns (x, true).
func enclosingRange(in ssa.Instruction) (ssa.Value, bool, bool) {
	for b := in.Block(); b != nil; b = b.Idom() {
		if !strings.HasSuffix(b.Comment, ".body") {
			continue
		}
		// rangeindex.body: an IndexAddr on the ranged slice with the loop index in this block or the element load
		if strings.HasPrefix(b.Comment, "rangeindex") {
			for _, x := range b.Instrs {
				if ia, ok := x.(*ssa.IndexAddr); ok {
					return ia.X, false, true
				}
			}
			return nil, false, true
		}
		if strings.HasPrefix(b.Comment, "for.") {
			// a counting loop `for i := 0; i < len(xs); i++ { .. xs[i] .. }`: the element is addressed by an
			// index that starts at 0 and is advanced by one per iteration
			for _, x := range b.Instrs {
				ia, ok := x.(*ssa.IndexAddr)
				if !ok {
					continue
				}
				ph, ok := ia.Index.(*ssa.Phi)
				if !ok || len(ph.Edges) != 2 {
					continue
				}
				asc := false
				for i, e := range ph.Edges {
					if bo, ok := e.(*ssa.BinOp); ok && bo.Op == token.ADD && bo.X == ssa.Value(ph) {
						if one, ok := core.ConstInt(bo.Y); ok && one == 1 {
							if z, ok := core.ConstInt(ph.Edges[1-i]); ok && z == 0 {
								asc = true
							}
						}
					}
				}
				if asc {
					return ia.X, false, true
				}
			}
			return nil, false, true
		}
		if strings.HasPrefix(b.Comment, "rangeiter") {
			// find Next in the dominating loop block
			for lb := b.Idom(); lb != nil; lb = lb.Idom() {
				for _, x := range lb.Instrs {
					if nx, ok := x.(*ssa.Next); ok {
						if rg, ok := nx.Iter.(*ssa.Range); ok {
							return rg.X, true, true
						}
					}
				}
			}
			return nil, true, true
		}
	}
	return nil, false, false
}

// mapPut: in stores a value into a map - a MapUpdate, or a call of a one-line module helper that stores its
// parameters (func (as accountSet) put(k, v) { as[k] = v }); returns map and value as seen at the site.
func (c *Ctx) mapPut(in ssa.Instruction) (m, v ssa.Value, ok bool) {
	if mu, isMU := in.(*ssa.MapUpdate); isMU {
		return mu.Map, mu.Value, true
	}
	call, isCall := in.(*ssa.Call)
	if !isCall {
		return nil, nil, false
	}
	g := core.StaticCallee(call)
	if g == nil || len(g.Blocks) != 1 || !c.P.InModule(g) {
		return nil, nil, false
	}
	for _, gin := range g.Blocks[0].Instrs {
		if mu, isMU := gin.(*ssa.MapUpdate); isMU {
			mi, vi := paramIndex(g, core.Strip(mu.Map)), paramIndex(g, core.Strip(mu.Value))
			if mi >= 0 && vi >= 0 && mi < len(call.Call.Args) && vi < len(call.Call.Args) {
				return call.Call.Args[mi], call.Call.Args[vi], true
			}
		}
	}
	return nil, nil, false
}

// C10: state, transaction and receipt roots commit to exactly what was executed.
func C10(c *Ctx) {
	r := c.R
	r.Rule("R10.1", "order independence: every byte sequence fed to sha256.Sum256 in FlushDirtyData and getStateJournalAndComputeHash is assembled by appends inside a loop over a key slice that was sorted (sort.Strings) before the loop and is not appended to afterwards; nothing is appended to a hash input inside a map range or sync.Map.Range callback; transaction and receipt leaves are produced by an index-ordered loop over the block's slices.")
	r.Rule("R10.2", "field coverage: the per-key preimage contains key and value, appended for every selected key (no key is skipped inside the hashing loop, a deleted key included); the per-account preimage contains the address, the marshalled dirty account and the state hash; the predicate that selects a dirty key for the journal and the state hash and the one that selects it for Commit are evaluated over the value classes {absent (nil), empty, content a, content b}: every pair (origin, value) of different classes is selected - nil marks an absent or deleted key, an empty value is a value, and bytes.Equal alone does not tell them apart - and both sites select the same pairs.")
	r.Rule("R10.3", "injective encoding: a preimage built by concatenating two or more variable-length fields per element without length prefix or delimiter is ambiguous (key||value): different write sets can produce the same root.")
	r.NotDecided = append(r.NotDecided, "collision resistance; sensitivity as a behavioural fact")
	r.Rule("R10.5", "the root commits to what the database holds: every Put / Delete that SimpleLedger.Commit issues on the state batch uses a key built by one of the ledger's key constructors (composeStateKey, compositeKey), and for each data kind written (account record, code, storage key) the Put and the Delete use the same constructor; a change that is hashed into the root but written under another key leaves the database behind the root.")
	r.Rule("R10.6", "the journal and state hash see every key the block touched (shared with C13 R13.6): no function of internal/ledger removes an entry from an account's dirty set; a removed entry is skipped by getStateJournalAndComputeHash and Commit, so the root no longer commits to a deletion or overwrite the block executed.")
	c.c13Undo("R10.6")
	r.Rule("R10.7", "sibling loaders agree: every path of SimpleLedger.GetAccount that registers a loaded account (l.accounts[addr] = account) has initialised the same set of account fields, whether the record came from the account cache or from the database; a field set on one path only makes the journal and the state hash of a block depend on cache history (a warm node and a restarted node compute different roots).")
	if ga := c.fn("R10.7", "internal/ledger.(*SimpleLedger).GetAccount"); ga != nil {
		type reg struct {
			in     ssa.Instruction
			fields []string
		}
		var regs []reg
		for _, in := range sites(ga, func(in ssa.Instruction) bool {
			m, _, ok := c.mapPut(in)
			return ok && core.Mentions(m, fieldNamed("accounts"))
		}) {
			_, muValue, _ := c.mapPut(in)
			obj := core.Strip(muValue)
			set := map[string]bool{}
			for _, b := range ga.Blocks {
				for _, x := range b.Instrs {
					// a helper of the ledger that receives the account and initialises fields of it
					if call, isCall := x.(ssa.CallInstruction); isCall {
						g := core.StaticCallee(call)
						if g == nil || len(g.Blocks) == 0 || core.PkgOf(g) != ledgerPkg || g.Name() == "newAccount" {
							continue
						}
						for ai, a := range call.Common().Args {
							if core.Strip(a) != obj || ai >= len(g.Params) || !core.Reach([]core.Point{core.After(x)}, nil, nil).Has(in) {
								continue
							}
							for _, gb := range g.Blocks {
								for _, y := range gb.Instrs {
									if gst, ok := y.(*ssa.Store); ok {
										if _, f, base, okf := core.FieldOf(gst.Addr); okf && core.Strip(base) == ssa.Value(g.Params[ai]) {
											set[f] = true
										}
									}
								}
							}
						}
						continue
					}
					st, ok := x.(*ssa.Store)
					if !ok {
						continue
					}
					_, f, base, okf := core.FieldOf(st.Addr)
					if !okf || core.Strip(base) != obj {
						continue
					}
					if core.Reach([]core.Point{core.After(st)}, nil, nil).Has(in) {
						set[f] = true
					}
				}
			}
			var fs []string
			for f := range set {
				fs = append(fs, f)
			}
			sort.Strings(fs)
			regs = append(regs, reg{in, fs})
		}
		if len(regs) == 1 {
			// one registration fed by loader helpers (loadAccountFromCache / loadAccountFromStorage): the loaders are the
			// load paths, each must initialise the same fields of the account it receives
			_, muValue, _ := c.mapPut(regs[0].in)
			obj := core.Strip(muValue)
			var loaders []reg
			for _, call := range core.Calls(ga) {
				g := core.StaticCallee(call)
				if g == nil || len(g.Blocks) == 0 || core.PkgOf(g) != ledgerPkg || g.Name() == "newAccount" {
					continue
				}
				for ai, a := range call.Common().Args {
					if core.Strip(a) != obj || ai >= len(g.Params) {
						continue
					}
					set := map[string]bool{}
					for _, rf := range c.regionOf(g, 1) {
						for _, gb := range rf.fn.Blocks {
							for _, y := range gb.Instrs {
								if gst, ok := y.(*ssa.Store); ok {
									if _, f, base, okf := core.FieldOf(gst.Addr); okf {
										if bp, isP := core.Strip(base).(*ssa.Parameter); isP && strings.HasSuffix(bp.Type().String(), "SimpleAccount") {
											set[f] = true
										}
									}
								}
							}
						}
					}
					if len(set) == 0 {
						continue
					}
					var fs []string
					for f := range set {
						fs = append(fs, f)
					}
					sort.Strings(fs)
					loaders = append(loaders, reg{call, fs})
				}
			}
			if len(loaders) >= 2 {
				regs = loaders
			}
		}
		r.Floor("R10.7", "load paths of GetAccount", len(regs), 2)
		for i, rg := range regs {
			same := strings.Join(rg.fields, ",") == strings.Join(regs[0].fields, ",")
			r.Check(same, "R10.7", fmt.Sprintf("GetAccount: load path #%d initialises the same fields as path #1", i+1), c.P.Pos(rg.in.Pos()), "fields: "+strings.Join(rg.fields, ","),
				"this load path initialises {"+strings.Join(rg.fields, ",")+"}, the first one {"+strings.Join(regs[0].fields, ",")+"}: an account loaded through one layer differs from the same account loaded through the other (e.g. dirtyCode unset), so what a block journals and hashes depends on whether the account cache was warm")
		}
	}
	c.commitKeyDiscipline("R10.5")

	type target struct{ spec, what string }
	nHash := 0
	for _, t := range []target{{"internal/ledger.(*SimpleLedger).FlushDirtyData", "accounts"}, {"internal/ledger.(*SimpleAccount).getStateJournalAndComputeHash", "state keys"}} {
		fn := c.fn("R10.1", t.spec)
		if fn == nil {
			continue
		}
		for _, rf := range c.ledgerRegion(fn) {
			f := rf.fn
			for _, call := range core.Calls(f) {
				if core.CalleeName(call) != "crypto/sha256.Sum256" {
					continue
				}
				nHash++
				input := call.Common().Args[0]
				apps := appendChain(input)
				key := shortFnName(t.spec) + ": hash input order"
				if len(apps) == 0 {
					r.Unknown("R10.1", key, c.P.Pos(call.Pos()), "cannot see how the hash input is assembled")
					continue
				}
				bad := ""
				sortedLoops := 0
				for _, ap := range apps {
					rng, isMap, inLoop := enclosingRange(ap)
					if !inLoop {
						continue // appended once after the loop (e.g. previous root)
					}
					if isMap {
						bad = "hash input is extended inside a map range at " + c.P.Pos(ap.Pos())
						continue
					}
					if ap.Parent() != f {
						bad = "hash input is extended inside a callback at " + c.P.Pos(ap.Pos())
						continue
					}
					// the ranged slice must be sorted before the loop
					isSort := func(in ssa.Instruction) bool {
						cc, ok := in.(ssa.CallInstruction)
						if !ok {
							return false
						}
						n := core.CalleeName(cc)
						if n != "sort.Strings" && n != "sort.Slice" && n != "sort.Sort" && n != "sort.SliceStable" {
							return false
						}
						return rng != nil && core.Mentions(cc.Common().Args[0], func(v ssa.Value) bool { return sameSliceVar(v, rng) })
					}
					sorted := precedesAll(f, isSort, func(in ssa.Instruction) bool { return in == ssa.Instruction(ap) })
					if !sorted && rng != nil && rf.via != nil {
						// the hashing loop lives in a helper and ranges over a parameter: the caller has to hand over a sorted slice
						if pi := paramIndex(f, rng); pi >= 0 && pi < len(rf.via.Common().Args) {
							arg := rf.via.Common().Args[pi]
							g := rf.via.Parent()
							sorted = precedesAll(g, func(in ssa.Instruction) bool {
								cc, ok := in.(ssa.CallInstruction)
								if !ok {
									return false
								}
								n := core.CalleeName(cc)
								if n != "sort.Strings" && n != "sort.Slice" && n != "sort.Sort" && n != "sort.SliceStable" {
									return false
								}
								return core.Mentions(cc.Common().Args[0], func(v ssa.Value) bool { return sameSliceVar(v, arg) })
							}, func(in ssa.Instruction) bool { return in == ssa.Instruction(rf.via) })
						}
					}
					if !sorted {
						bad = "the loop that extends the hash input at " + c.P.Pos(ap.Pos()) + " ranges over a slice that is not sorted before the loop"
					} else {
						sortedLoops++
					}
				}
				r.Check(bad == "" && sortedLoops > 0, "R10.1", key, c.P.Pos(call.Pos()), fmt.Sprintf("%d append site(s); loop appends range over a sorted key slice", len(apps)), "the hash depends on iteration order: "+bad)
			}
		}
	}
	r.Floor("R10.1", "hash computations", nHash, 2)
	// callbacks of sync.Map.Range must not extend a hash input: covered by the ap.Parent() test above.

	// tx / receipt leaves
	for _, spec := range []string{execPrefix + "buildTxMerkleTree", execPrefix + "calcReceiptMerkleRoot"} {
		fn := c.fn("R10.1", spec)
		if fn == nil {
			continue
		}
		ok := false
		for _, call := range core.Calls(fn) {
			if !strings.HasSuffix(core.CalleeName(call), "executor.calcMerkleRoot") {
				continue
			}
			apps := appendChain(call.Common().Args[0])
			for _, ap := range apps {
				rng, isMap, inLoop := enclosingRange(ap)
				if inLoop && !isMap && rng != nil && core.Strip(rng) == ssa.Value(fn.Params[1]) {
					// the appended leaf is Hash()/GetHash() of the loop element
					ok = core.Mentions(ap.Call.Args[1], func(v ssa.Value) bool {
						cc, isC := v.(*ssa.Call)
						return isC && core.CalleeObj(cc) != nil && (core.CalleeObj(cc).Name() == "Hash" || core.CalleeObj(cc).Name() == "GetHash")
					})
				}
			}
		}
		r.Check(ok, "R10.1", shortFnName(spec)+": leaves in block order", c.P.Pos(fn.Pos()), "one leaf = hash of each element, appended in index order over the given slice", "merkle leaves are not the element hashes in slice order")
	}

	// R10.2
	if fn := c.P.Fn("internal/ledger.(*SimpleAccount).getStateJournalAndComputeHash"); fn != nil {
		// key and value both appended in the hashing loop
		okKV := false
		var hashCalls []ssa.CallInstruction
		hashFn := map[ssa.CallInstruction]*ssa.Function{}
		for _, rf := range c.ledgerRegion(fn) {
			for _, call := range core.Calls(rf.fn) {
				hashCalls = append(hashCalls, call)
				hashFn[call] = rf.fn
			}
		}
		for _, call := range hashCalls {
			if core.CalleeName(call) != "crypto/sha256.Sum256" {
				continue
			}
			apps := appendChain(call.Common().Args[0])
			hasKey, hasVal := false, false
			for _, ap := range apps {
				arg := ap.Call.Args[1]
				if core.Mentions(arg, func(v ssa.Value) bool {
					cc, ok := v.(*ssa.Call)
					return ok && core.CalleeName(cc) == "(*sync.Map).Load"
				}) {
					hasVal = true
				} else {
					hasKey = true
				}
			}
			okKV = hasKey && hasVal
			// every selected key contributes: the appends are executed on every iteration of the hashing loop (a key
			// skipped because its new value is empty - a deletion - would leave the root blind to which key was deleted)
			for _, ap := range apps {
				if core.InLoop(ap) && !unconditionalInLoop(hashFn[call], ap) {
					okKV = false
				}
			}
		}
		r.Check(okKV, "R10.2", "state hash covers key and value", c.P.Pos(fn.Pos()), "both the key and the dirty value are appended per key", "the per-account state hash does not cover both key and value of every changed key")
	}
	if fn := c.P.Fn("internal/ledger.(*SimpleAccount).getDirtyData"); fn != nil {
		var parts []string
		for _, ret := range core.Returns(fn) {
			for _, ap := range appendChain(ret.Results[0]) {
				a := ap.Call.Args[1]
				switch {
				case core.Mentions(a, fieldLoad("SimpleAccount", "Addr")):
					parts = append(parts, "addr")
				case core.Mentions(a, fieldLoad("SimpleAccount", "dirtyStateHash")):
					parts = append(parts, "stateHash")
				case core.Mentions(a, func(v ssa.Value) bool {
					cc, ok := v.(*ssa.Call)
					return ok && core.CalleeObj(cc) != nil && core.CalleeObj(cc).Name() == "Marshal"
				}):
					parts = append(parts, "account")
				}
			}
		}
		has := func(s string) bool {
			for _, p := range parts {
				if p == s {
					return true
				}
			}
			return false
		}
		r.Check(has("addr") && has("stateHash") && has("account"), "R10.2", "account preimage covers address, account record and state hash", c.P.Pos(fn.Pos()), "parts: "+strings.Join(parts, ","), "the per-account preimage misses a component (has: "+strings.Join(parts, ",")+")")
	} else {
		r.Anchor("R10.2", "internal/ledger.(*SimpleAccount).getDirtyData")
	}
	// predicate agreement across the three dirtyState.Range callbacks
	nPred := 0
	for _, spec := range []string{"internal/ledger.(*SimpleAccount).getStateJournalAndComputeHash", "internal/ledger.(*SimpleLedger).Commit"} {
		if c.P.Fn(spec) == nil {
			r.Anchor("R10.2", spec)
		}
	}
	// every callback handed to dirtyState.Range anywhere in the ledger package (the selection may live in a helper)
	var rangeCallbacks []*ssa.Function
	cbOwner := map[*ssa.Function]string{}
	for _, fn := range c.P.ModuleFuncs(true) {
		if core.PkgOf(fn) != ledgerPkg {
			continue
		}
		for _, call := range core.Calls(fn) {
			if core.CalleeName(call) != "(*sync.Map).Range" {
				continue
			}
			if _, fld, _, ok := core.FieldOf(core.Receiver(call)); !ok || fld != "dirtyState" {
				continue
			}
			args := call.Common().Args
			if cb := core.FuncValueTarget(args[len(args)-1]); cb != nil {
				rangeCallbacks = append(rangeCallbacks, cb)
				top := fn
				for top.Parent() != nil {
					top = top.Parent()
				}
				cbOwner[cb] = top.Name()
			}
		}
	}
	// every dirty key is visited: a callback of dirtyState.Range that returns false ends the whole iteration, and
	// sync.Map visits keys in no particular order - the keys not yet visited are silently left out
	for _, cb := range rangeCallbacks {
		stops := ""
		for _, ret := range core.Returns(cb) {
			if len(ret.Results) != 1 {
				continue
			}
			for _, o := range core.RetOrigins(ret.Results[0]) {
				if k, isC := core.Strip(o.V).(*ssa.Const); !isC || k.Value == nil || k.Value.ExactString() != "true" {
					stops = c.P.Pos(ret.Pos())
				}
			}
		}
		r.Check(stops == "", "R10.2", cbOwner[cb]+": the walk over the dirty keys is never cut short ("+core.FnName(cb)+")", c.P.Pos(cb.Pos()), "every return of the Range callback is the constant true",
			"the callback handed to dirtyState.Range can return false (at "+stops+"): sync.Map.Range stops there, and the dirty keys that happen to come later in its unordered walk are neither journaled, hashed into the state root nor written - which keys are lost differs from run to run")
	}
	isOriginLoad := func(v ssa.Value) bool {
		cc, ok := v.(*ssa.Call)
		if !ok || core.CalleeName(cc) != "(*sync.Map).Load" {
			return false
		}
		_, fld, _, okf := core.FieldOf(core.Receiver(cc))
		return okf && fld == "originState"
	}
	isByteSlice := func(t types.Type) bool {
		sl, ok := t.Underlying().(*types.Slice)
		if !ok {
			return false
		}
		b, ok := sl.Elem().Underlying().(*types.Basic)
		return ok && b.Kind() == types.Uint8
	}
	type predTable struct {
		owner string
		pos   token.Pos
		sel   map[[2]core.BytesClass]bool
		unk   map[[2]core.BytesClass]bool
	}
	var tables []predTable
	for _, cb := range rangeCallbacks {
		spec := "internal/ledger." + cbOwner[cb]
		isEff := func(in ssa.Instruction) bool {
			if mu, ok := in.(*ssa.MapUpdate); ok {
				// recording the previous (origin) value of a key: the journal's selection
				return core.Mentions(mu.Value, isOriginLoad)
			}
			if call, ok := in.(ssa.CallInstruction); ok {
				if o := core.CalleeObj(call); o != nil && (o.Name() == "Put" || o.Name() == "Delete") && strings.Contains(core.CalleeName(call), "storage.") {
					return true
				}
			}
			return false
		}
		effs := sites(cb, c.throughHelpers(isEff)) // the write may sit in a put-or-delete helper of the callback
		if len(effs) == 0 {
			continue
		}
		for _, e := range effs {
			// a helper call stands for the selection sites it contains (putOrDelete: one Put and one Delete)
			w := 1
			if call, isCall := e.(ssa.CallInstruction); isCall && !isEff(e) {
				if g := core.StaticCallee(call); g != nil {
					if inner := len(sites(g, isEff)); inner > 1 {
						w = inner
					}
				}
			}
			nPred += w
		}
		key := shortFnName(spec) + " callback: a key is selected for journal / state hash / commit whenever its value differs from the origin value"
		// the two compared values: the arguments of the comparison (bytes.Equal or a module predicate over two byte
		// slices) that feeds a branch of the callback; the origin side is the one read from originState
		var origV, newV ssa.Value
		for _, call := range core.Calls(cb) {
			cv, ok := call.(*ssa.Call)
			if !ok || len(cv.Call.Args) != 2 || !isByteSlice(cv.Call.Args[0].Type()) || !isByteSlice(cv.Call.Args[1].Type()) {
				continue
			}
			if core.CalleeName(call) != "bytes.Equal" && core.StaticCallee(call) == nil {
				continue
			}
			a0, a1 := cv.Call.Args[0], cv.Call.Args[1]
			o0, o1 := core.Mentions(a0, isOriginLoad), core.Mentions(a1, isOriginLoad)
			if o0 == o1 {
				continue
			}
			if o1 {
				a0, a1 = a1, a0
			}
			if origV == nil {
				origV, newV = a0, a1
			}
		}
		tb := predTable{owner: shortFnName(spec), pos: cb.Pos(), sel: map[[2]core.BytesClass]bool{}, unk: map[[2]core.BytesClass]bool{}}
		if origV == nil {
			// no comparison with the origin value at all: every dirty key is selected
			for _, o := range core.BytesClasses {
				for _, v := range core.BytesClasses {
					tb.sel[[2]core.BytesClass{o, v}] = true
				}
			}
			r.OK("R10.2", key, c.P.Pos(cb.Pos()), "the callback does not compare with the origin value: every dirty key is selected")
			tables = append(tables, tb)
			continue
		}
		var missed, undec []string
		for _, o := range core.BytesClasses {
			for _, v := range core.BytesClasses {
				w := core.WalkBytes(cb, map[ssa.Value]core.BytesClass{origV: o, newV: v})
				reached := false
				for _, e := range effs {
					if w.Blocks[e.Block()] {
						reached = true
					}
				}
				k := [2]core.BytesClass{o, v}
				tb.sel[k], tb.unk[k] = reached, w.Unknown
				if o == v {
					continue
				}
				if w.Unknown {
					undec = append(undec, fmt.Sprintf("(origin %s, value %s)", o, v))
				} else if !reached {
					missed = append(missed, fmt.Sprintf("(origin %s, value %s)", o, v))
				}
			}
		}
		tables = append(tables, tb)
		switch {
		case len(missed) > 0:
			r.Bad("R10.2", key, c.P.Pos(effs[0].Pos()), "the selection predicate of "+core.FnName(cb)+" does not select a changed key: "+strings.Join(missed, ", ")+" - the block saw the write, but it is neither journaled, hashed into the state root nor stored (nil marks an absent or deleted key, an empty value is a value; bytes.Equal(nil, []byte{}) is true)")
		case len(undec) > 0:
			r.Unknown("R10.2", key, c.P.Pos(effs[0].Pos()), "the selection predicate of "+core.FnName(cb)+" could not be evaluated for "+strings.Join(undec, ", "))
		default:
			r.OK("R10.2", key, c.P.Pos(effs[0].Pos()), fmt.Sprintf("predicate evaluated over {absent, empty, a, b} x {absent, empty, a, b}: all 12 differing pairs reach the selection (%d effect site(s))", len(effs)))
		}
	}
	// sibling agreement: journal / hash and commit select the same keys
	for i := 1; i < len(tables); i++ {
		var diff []string
		for _, o := range core.BytesClasses {
			for _, v := range core.BytesClasses {
				k := [2]core.BytesClass{o, v}
				if tables[0].sel[k] != tables[i].sel[k] && !tables[0].unk[k] && !tables[i].unk[k] {
					diff = append(diff, fmt.Sprintf("(origin %s, value %s): %s selects=%v, %s selects=%v", o, v, tables[0].owner, tables[0].sel[k], tables[i].owner, tables[i].sel[k]))
				}
			}
		}
		key := "selection predicates agree: " + tables[0].owner + " / " + tables[i].owner
		if len(diff) > 0 {
			r.Bad("R10.2", key, c.P.Pos(tables[i].pos), "the state hash / journal and the commit do not select the same keys: "+strings.Join(diff, "; ")+" - a change is hashed into the root but not written to the database, or written without being journaled")
		} else {
			r.OK("R10.2", key, c.P.Pos(tables[i].pos), "both callbacks select the same (origin, value) classes (16 pairs compared)")
		}
	}
	r.Floor("R10.2", "selection callbacks compared", len(tables), 2)
	r.Floor("R10.2", "selection sites behind the changed-value predicate", nPred, 3)

	r.Rule("R10.8", "the cache a later block reads through holds what the database will hold (shared with C13 R13.4): FlushDirtyData hands the committed dirty set to the account cache on every path, every dirty key of an account enters that account's state cache (deleted keys as tombstones), and a reverted account creation leaves no cache entry; otherwise the next block's origin values - and with them the selection of changed keys that is hashed into the state root - differ between a node that reads through the cache and one that reopened its database.")
	r.Rule("R10.9", "hashed iff written iff journaled: Commit writes an account record and getJournalIfModified journals it exactly when InnerAccountChanged(origin, dirty) holds; getDirtyData, which builds the account's part of the state-root preimage, includes the marshalled record behind the same predicate. A weaker test (dirtyAccount != nil) hashes records that did not change - a balance that went 0 -> 5 -> 0 inside the block, a setter called with the current value - so two blocks that make the same state changes get different roots.")
	c.c10RecordPredicate()
	c.cacheFill("R10.8")
	// R10.4 balances are immutable values
	r.Rule("R10.4", balanceInPlaceText)
	c.balanceInPlace("R10.4")

	// R10.3
	if fn := c.P.Fn("internal/ledger.(*SimpleAccount).getStateJournalAndComputeHash"); fn != nil {
		for _, call := range core.Calls(fn) {
			if core.CalleeName(call) != "crypto/sha256.Sum256" {
				continue
			}
			apps := appendChain(call.Common().Args[0])
			varParts := 0
			delim := false
			for _, ap := range apps {
				_, _, inLoop := enclosingRange(ap)
				if !inLoop {
					continue
				}
				a := ap.Call.Args[1]
				if _, isConst := core.ConstString(a); isConst {
					delim = true
					continue
				}
				if core.Mentions(a, func(v ssa.Value) bool {
					cc, ok := v.(*ssa.Call)
					if !ok {
						return false
					}
					if b, ok := cc.Call.Value.(*ssa.Builtin); ok && b.Name() == "len" {
						return true
					}
					return strings.Contains(core.CalleeName(cc), "binary.") || strings.Contains(core.CalleeName(cc), "PutUint")
				}) {
					delim = true
					continue
				}
				varParts++
			}
			r.Check(varParts < 2 || delim, "R10.3", "state hash preimage is injective", c.P.Pos(call.Pos()), "fields are delimited or length-prefixed",
				fmt.Sprintf("%d variable-length fields (key, value) are concatenated per element without delimiter or length prefix: the write sets {\"ab\"->\"c\"} and {\"a\"->\"bc\"} of one account hash identically", varParts))
		}
	}
}

// sameSliceVar: v denotes the same slice variable as rng (same SSA value, or
// both are values of one phi / alloc family feeding the loop).
func sameSliceVar(v, rng ssa.Value) bool {
	v, rng = core.Strip(v), core.Strip(rng)
	if v == rng {
		return true
	}
	// two loads of the same (closure-captured) variable
	if a, ok := v.(*ssa.UnOp); ok {
		if b, ok := rng.(*ssa.UnOp); ok && a.X == b.X {
			return true
		}
		// two loads of the same field of the same object (x.keys sorted, x.keys ranged)
		if b, ok := rng.(*ssa.UnOp); ok {
			fa, okA := a.X.(*ssa.FieldAddr)
			fb, okB := b.X.(*ssa.FieldAddr)
			if okA && okB && fa.Field == fb.Field && core.Strip(fa.X) == core.Strip(fb.X) {
				return true
			}
		}
	}
	// the sorted value and the ranged value are often the same phi or one append chain
	for _, o := range core.Origins(rng) {
		if core.Strip(o) == v {
			return true
		}
	}
	for _, o := range core.Origins(v) {
		if core.Strip(o) == rng {
			return true
		}
	}
	return false
}

// commitKeyDiscipline: every batch write of SimpleLedger.Commit uses a constructed key; per kind Put and Delete agree.
func (c *Ctx) commitKeyDiscipline(rule string) {
	r := c.R
	commit := c.fn(rule, "internal/ledger.(*SimpleLedger).Commit")
	if commit == nil {
		return
	}
	n := 0
	seen := map[string]int{}
	for _, rf := range c.ledgerRegion(commit) {
		f := rf.fn
		if rf.via != nil {
			// code of Commit that an extract-method refactoring moved into a helper: the helper receives the batch
			top := f
			for top.Parent() != nil {
				top = top.Parent()
			}
			takesBatch := false
			for _, p := range top.Params {
				if strings.HasSuffix(p.Type().String(), "storage.Batch") {
					takesBatch = true
				}
			}
			if !takesBatch {
				continue
			}
		}
		for _, call := range core.Calls(f) {
			o := core.CalleeObj(call)
			if o == nil || (o.Name() != "Put" && o.Name() != "Delete") {
				continue
			}
			rv := core.Receiver(call)
			if rv == nil || !strings.HasSuffix(rv.Type().String(), "storage.Batch") {
				continue
			}
			n++
			k := storageKind(core.Arg(call, 0))
			if k == "" {
				// a put-or-delete helper writes under the key it receives: the key is constructed at its call sites
				if p, isP := core.Strip(core.Arg(call, 0)).(*ssa.Parameter); isP && p.Parent() != nil {
					if pi := paramIndex(p.Parent(), p); pi >= 0 {
						ss := core.StaticSitesOf(p.Parent())
						all := len(ss) > 0
						kk := ""
						for _, site := range ss {
							if pi >= len(site.Common().Args) {
								all = false
								break
							}
							sk := storageKind(site.Common().Args[pi])
							if sk == "" {
								all = false
							}
							kk = sk
						}
						if all {
							k = kk
						}
					}
				}
			}
			key := "Commit: " + o.Name() + " key constructed"
			seen[key]++
			r.Check(k != "", rule, fmt.Sprintf("%s #%d", key, seen[key]), c.P.Pos(call.Pos()), "key kind "+k,
				"a batch "+o.Name()+" in SimpleLedger.Commit uses a key that is not built by composeStateKey / compositeKey: the entry the ledger reads (address-prefixed) is not the entry written, so the database no longer holds what the state root commits to (visible after a reopen or cache eviction)")
		}
	}
	r.Floor(rule, "batch writes in Commit", n, 3)
	ops := batchOps(commit)
	for _, kind := range []string{"account", "code", "state"} {
		okp, okd := len(ops[kind]["Put"]) > 0, len(ops[kind]["Delete"]) > 0
		r.Check(okp && okd, rule, "Commit: "+kind+" data is both written and deleted under its constructor", c.P.Pos(commit.Pos()), "Put and Delete present for kind "+kind,
			"SimpleLedger.Commit has no "+map[bool]string{true: "Delete", false: "Put"}[okp]+" for "+kind+" data under the kind's key constructor: removals (or writes) of that kind never reach the database")
	}
}

const balanceInPlaceText = "no in-place arithmetic on stored balances: the destination operand of a big.Int operation (z in z.Add/Sub/Mul/Div/Set..(x, y)) in ledger, executor, contracts and VM code is never a value obtained from a balance getter (GetBalance / the origin or dirty account's Balance field) - directly, or as a *big.Int parameter that some caller fills with such a value; mutating it changes the origin record behind the change detection, so the new balance is neither journaled nor hashed into the state root, and the journal's 'previous balance' (what a revert, a rollback or the start-up recovery restores) is the modified one."

// balanceInPlace emits the shared rule (C10 R10.4, C12 R12.7, C14 R14.7, C01 R01.6) under the given rule id.
func (c *Ctx) balanceInPlace(rule string) {
	r := c.R
	inScope := func(fn *ssa.Function) bool {
		pk := core.PkgOf(fn)
		return pk == ledgerPkg || strings.HasPrefix(pk, "internal/executor") || strings.HasPrefix(pk, "pkg/vm")
	}
	sharedOrigin := func(z ssa.Value) string {
		for _, o := range append(core.Origins(z), z) {
			o = core.Strip(o)
			if cc, ok := o.(*ssa.Call); ok {
				if ob := core.CalleeObj(cc); ob != nil && (ob.Name() == "GetBalance" || ob.Name() == "GetEVMBalance") {
					return "the result of " + ob.Name() + "()"
				}
			}
			if _, f, base, ok := core.FieldOf(o); ok && f == "Balance" {
				if _, f2, _, ok2 := core.FieldOf(base); ok2 && (f2 == "originAccount" || f2 == "dirtyAccount") {
					return "the account record's Balance field"
				}
			}
		}
		return ""
	}
	// static call sites per callee, for destinations that are parameters
	callers := map[*ssa.Function][]ssa.CallInstruction{}
	var fns []*ssa.Function
	for _, fn := range c.P.ModuleFuncs(true) {
		if !inScope(fn) {
			continue
		}
		fns = append(fns, fn)
		for _, call := range core.Calls(fn) {
			if g := core.StaticCallee(call); g != nil {
				callers[g] = append(callers[g], call)
			}
		}
	}
	// viaParam: is parameter pi of g filled, by some caller (two levels), with a stored balance?
	var viaParam func(g *ssa.Function, pi, d int) string
	viaParam = func(g *ssa.Function, pi, d int) string {
		for _, call := range callers[g] {
			args := call.Common().Args
			if call.Common().IsInvoke() || pi >= len(args) {
				continue
			}
			if s := sharedOrigin(args[pi]); s != "" {
				return s + ", handed to " + shortFn(g) + " at " + c.P.Pos(call.Pos())
			}
			if d < 2 {
				for _, o := range append(core.Origins(args[pi]), args[pi]) {
					if p, ok := core.Strip(o).(*ssa.Parameter); ok && p.Parent() != nil {
						if k := paramIndex(p.Parent(), p); k >= 0 {
							if s := viaParam(p.Parent(), k, d+1); s != "" {
								return s
							}
						}
					}
				}
			}
		}
		return ""
	}
	nBig := 0
	for _, fn := range fns {
		for _, call := range core.Calls(fn) {
			n := core.CalleeName(call)
			if !strings.HasPrefix(n, "(*math/big.Int).") {
				continue
			}
			op := strings.TrimPrefix(n, "(*math/big.Int).")
			switch op {
			case "Add", "Sub", "Mul", "Div", "Mod", "Set", "SetUint64", "SetInt64", "SetString", "Neg", "Quo", "Rem", "Exp", "Lsh", "Rsh":
			default:
				continue
			}
			nBig++
			z := call.Common().Args[0]
			shared := sharedOrigin(z)
			if shared == "" {
				for _, o := range append(core.Origins(z), z) {
					if p, ok := core.Strip(o).(*ssa.Parameter); ok && p.Parent() == fn {
						if k := paramIndex(fn, p); k >= 0 {
							if s := viaParam(fn, k, 0); s != "" {
								shared = "its parameter " + p.Name() + ", which is " + s
							}
						}
					}
				}
			}
			if shared != "" {
				r.Bad(rule, shortFn(fn)+": big.Int."+op+" in place", c.P.Pos(call.Pos()), "arithmetic writes its result into "+shared+": the stored (origin) balance object is modified behind the change detection, so the account is not journaled and the state root does not cover the new balance; the journal records the modified value as the previous balance")
			}
		}
	}
	r.Floor(rule, "big.Int operations inspected", nBig, 10)
	if nBig > 0 {
		r.OK(rule, "big.Int destinations are fresh values", "", fmt.Sprintf("%d operations inspected", nBig))
	}
}

// regionFn is a function of a rule's region: the anchored function itself (via == nil), one of its closures, or a
// same-package helper it calls (via = the call that leads there; two levels).
type regionFn struct {
	fn  *ssa.Function
	via ssa.CallInstruction
}

// ledgerRegion: fn, its closures, and the internal/ledger helpers it calls statically (depth 2) - an "extract
// method" refactoring moves code of an anchored function there, and the rules follow it.
func (c *Ctx) ledgerRegion(fn *ssa.Function) []regionFn {
	var out []regionFn
	seen := map[*ssa.Function]bool{}
	var walk func(f *ssa.Function, via ssa.CallInstruction, d int)
	walk = func(f *ssa.Function, via ssa.CallInstruction, d int) {
		if seen[f] || len(f.Blocks) == 0 {
			return
		}
		seen[f] = true
		for _, cf := range core.WithClosures(f) {
			out = append(out, regionFn{cf, via})
			if d >= 2 {
				continue
			}
			for _, call := range core.Calls(cf) {
				g := core.StaticCallee(call)
				if g == nil || core.PkgOf(g) != core.PkgOf(fn) || !c.P.InModule(g) || g.Parent() != nil {
					continue
				}
				walk(g, call, d+1)
			}
		}
	}
	walk(fn, nil, 0)
	return out
}

// c10RecordPredicate: R10.9.
func (c *Ctx) c10RecordPredicate() {
	r := c.R
	fn := c.fn("R10.9", "internal/ledger.(*SimpleAccount).getDirtyData")
	if fn == nil {
		return
	}
	isMarshal := func(in ssa.Instruction) bool {
		call, ok := in.(ssa.CallInstruction)
		return ok && strings.HasSuffix(core.CalleeName(call), "InnerAccount).Marshal")
	}
	changed := core.BoolCallEdges(fn, func(cc *ssa.Call) bool {
		return strings.HasSuffix(core.CalleeName(cc), "ledger.InnerAccountChanged")
	})
	n := len(sites(fn, isMarshal))
	r.Floor("R10.9", "account records marshalled into the state-root preimage", n, 1)
	for _, in := range sites(fn, isMarshal) {
		key := "getDirtyData: the account record enters the preimage only when it changed"
		if changed.Len() == 0 {
			r.Bad("R10.9", key, c.P.Pos(in.Pos()), "getDirtyData hashes the dirty account record whenever a dirty copy exists, Commit and the journal only when InnerAccountChanged(origin, dirty): an EVM contract that stores a slot and sends its call value back to the caller (balance 0 -> 5 -> 0) gets another state root than the value-0 call that makes the same changes")
			continue
		}
		rs := core.Reach([]core.Point{core.EntryOf(fn)}, nil, core.CutOf(changed))
		r.Check(!rs.Has(in), "R10.9", key, c.P.Pos(in.Pos()), "behind InnerAccountChanged(origin, dirty)", "the record can enter the preimage without the change predicate")
	}
}
