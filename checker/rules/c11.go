package rules

import (
	"fmt"
	"go/token"
	"sort"
	"strings"

	"bxhlint/core"

	"golang.org/x/tools/go/ssa"
)

func init() { Props["C11"] = C11 }

// launchOf: how is the closure f started by its parent? Returns the
// instruction that starts it and "go" / "call" / "defer" / "" (unknown).
func launchOf(f *ssa.Function) (ssa.Instruction, string) {
	p := f.Parent()
	if p == nil {
		return nil, ""
	}
	for _, b := range p.Blocks {
		for _, in := range b.Instrs {
			var common *ssa.CallCommon
			kind := ""
			switch x := in.(type) {
			case *ssa.Go:
				common, kind = &x.Call, "go"
			case *ssa.Defer:
				common, kind = &x.Call, "defer"
			case *ssa.Call:
				common, kind = &x.Call, "call"
			}
			if common == nil {
				continue
			}
			if mc, ok := common.Value.(*ssa.MakeClosure); ok && mc.Fn == ssa.Value(f) {
				return in, kind
			}
		}
	}
	return nil, ""
}

type durSite struct {
	in   ssa.Instruction // the operation
	at   ssa.Instruction // the instruction of fn at which it takes effect (itself, or the statement starting its closure)
	kind string          // "sync" or "go"
}

// durableSites finds the sites of pred in fn and its closures.
func durableSites(fn *ssa.Function, pred InstrPred) []durSite {
	var out []durSite
	for _, f := range core.WithClosures(fn) {
		for _, in := range sites(f, pred) {
			if f == fn {
				out = append(out, durSite{in, in, "sync"})
				continue
			}
			// walk up to fn
			g, kind := f, "sync"
			var at ssa.Instruction
			for g != fn && g != nil {
				l, k := launchOf(g)
				if l == nil {
					kind = "?"
					break
				}
				if k == "go" {
					kind = "go"
				} else if k == "defer" && kind != "go" {
					kind = "defer"
				}
				at = l
				g = g.Parent()
			}
			out = append(out, durSite{in, at, kind})
		}
	}
	return out
}

func isWaitCall(in ssa.Instruction) bool {
	call, ok := in.(ssa.CallInstruction)
	return ok && core.CalleeName(call) == "(*sync.WaitGroup).Wait"
}

// orderedBefore decides "every A takes effect before any B" inside fn.
// Returns ok and an explanation naming the offending construct.
func (c *Ctx) orderedBefore(fn *ssa.Function, isA, isB InstrPred, aName, bName string) (bool, string, int) {
	as, bs := durableSites(fn, isA), durableSites(fn, isB)
	if len(as) == 0 || len(bs) == 0 {
		return false, fmt.Sprintf("%d sites of %s and %d of %s found in %s", len(as), aName, len(bs), bName, core.FnName(fn)), 0
	}
	for _, a := range as {
		for _, b := range bs {
			if a.kind == "?" || b.kind == "?" || a.kind == "defer" || b.kind == "defer" {
				return false, fmt.Sprintf("%s at %s / %s at %s run in a closure whose start cannot be ordered", aName, c.P.Pos(a.in.Pos()), bName, c.P.Pos(b.in.Pos())), 0
			}
			if a.kind == "go" && b.kind == "go" {
				return false, fmt.Sprintf("%s (%s) and %s (%s) run in two goroutines started by %s: nothing orders them, either may reach the disk first", aName, c.P.Pos(a.in.Pos()), bName, c.P.Pos(b.in.Pos()), core.FnName(fn)), 0
			}
			switch {
			case a.kind == "go":
				// a completes only at a Wait after the go statement
				rs := core.Reach([]core.Point{core.After(a.at)}, isWaitCall, nil)
				if rs.Has(b.at) {
					return false, fmt.Sprintf("%s runs in a goroutine (started %s) and %s at %s is reachable before it was waited for", aName, c.P.Pos(a.at.Pos()), bName, c.P.Pos(b.at.Pos())), 0
				}
			default:
				// every path from the entry to b.at passes a
				rs := core.Reach([]core.Point{core.EntryOf(fn)}, func(in ssa.Instruction) bool { return in == a.at }, nil)
				if len(as) > 1 {
					rs = core.Reach([]core.Point{core.EntryOf(fn)}, func(in ssa.Instruction) bool {
						for _, x := range as {
							if in == x.at && x.kind == "sync" {
								return true
							}
						}
						return false
					}, nil)
				}
				if rs.Has(b.at) {
					return false, fmt.Sprintf("%s at %s is reachable without passing %s; path (lines): %s", bName, c.P.Pos(b.at.Pos()), aName, rs.Witness(c.P, b.at)), 0
				}
			}
		}
	}
	return true, "", len(as) * len(bs)
}

// errNotDropped: the error result of call is tested and its failure edge never
// reaches a success return (or, in a function without results, any return).
func (c *Ctx) errNotDropped(fn *ssa.Function, call *ssa.Call) (bool, string) {
	res := call.Call.Signature().Results()
	if res.Len() == 0 {
		return true, "no error result"
	}
	idx := -1
	if res.Len() > 1 {
		idx = res.Len() - 1
	}
	se := core.SuccessEdges(fn, []core.GuardSite{{Call: call, Conv: core.ConvErrNil, Idx: idx}})
	if len(se) == 0 {
		// returned directly?
		for _, ret := range core.Returns(fn) {
			for _, rv := range ret.Results {
				if core.Mentions(rv, func(v ssa.Value) bool { return v == ssa.Value(call) }) {
					return true, "error returned to the caller"
				}
			}
		}
		return false, "the error result is never tested"
	}
	var starts []core.Point
	for b, m := range se {
		for i := range m {
			fail := b.Succs[1-i]
			starts = append(starts, core.Point{B: fail, Idx: 0})
		}
	}
	rs := core.Reach(starts, nil, nil)
	nres := fn.Signature.Results().Len()
	for _, ret := range core.Returns(fn) {
		if !rs.Has(ret) {
			continue
		}
		if nres == 0 {
			return false, "after the error the function returns normally (" + c.P.Pos(ret.Pos()) + ")"
		}
		last := nres - 1
		if _, isErr := fn.Signature.Results().At(last).Type().Underlying().(interface{ NumMethods() int }); isErr {
			if core.MayBeSuccess(fn, ret, last, core.ConvErrNil) {
				return false, "after the error the function can return success (" + c.P.Pos(ret.Pos()) + ")"
			}
		}
	}
	return true, "failure edge ends in panic / error return"
}

// batchUsesBehind: how many batch-consuming calls a use of the batch stands for: 1 for a call that takes the batch
// itself, or - for a static call of a module helper that hands the batch on (encodeBlockData(batcher, ..)) - the
// number of uses of the corresponding parameter inside the helper (two levels).
func batchUsesBehind(in ssa.Instruction, isBatch func(ssa.Value) bool, depth int) int {
	call, ok := in.(ssa.CallInstruction)
	if !ok {
		return 0
	}
	g := call.Common().StaticCallee()
	if g == nil || len(g.Blocks) == 0 || depth >= 2 || core.TheProg == nil || !core.TheProg.InModule(g) {
		return 1
	}
	n := 0
	for pi, a := range call.Common().Args {
		if !isBatch(a) || pi >= len(g.Params) {
			continue
		}
		par := g.Params[pi]
		isPar := func(v ssa.Value) bool { return core.Strip(v) == ssa.Value(par) }
		for _, cc := range core.Calls(g) {
			uses := false
			for _, a2 := range cc.Common().Args {
				if isPar(a2) {
					uses = true
				}
			}
			if uses {
				n += batchUsesBehind(cc, isPar, depth+1)
			}
		}
	}
	if n == 0 {
		return 1
	}
	return n
}

// C11: the ledger recovers to a consistent height after a crash at any persist point.
func C11(c *Ctx) {
	r := c.R
	r.Rule("R11.1", "write order of one block commit: the state store is committed before the chain store is touched (PersistBlockData); inside the chain store the blockfile append and every index write precede the commit of the batch that carries the chain meta (PersistExecutionResult). Operations started in sibling goroutines count as unordered. No function on that path (the two owners of the batch and every chain-ledger helper that receives it) writes to the chain store directly.")
	r.Rule("R11.2", "one atomic state write: SimpleLedger.Commit puts the block's data, its journal record and the max-height marker into one storage batch, commits that batch exactly once, touches the state store directly (outside the batch) nowhere before that commit, and updates the in-memory height / prunes old journals only after it.")
	r.Rule("R11.3", "start-up reconciliation: ledger.New returns a ledger only across the success edge of Rollback(chain meta height); NewChainLedgerImpl compares the blockfile size with the chain meta and truncates the surplus before returning; NewSimpleLedger refuses to open when the journal of its recorded height is missing.")
	r.Rule("R11.4", "no dropped persistence error: the error results of StateLedger.Commit, PersistExecutionResult, AppendBlock, TruncateBlocks, persistChainMeta, removeJournalsBeforeBlock, RollbackState and RollbackBlockChain are tested at every call site of the ledger / executor / genesis packages, and the failure edge ends in a panic or an error return.")
	r.Rule("R11.5", "markers mirror fields: wherever a function of the state ledger persists a journal window marker (minHeight / maxHeight, outside a loop) and assigns the corresponding in-memory field (minJnlHeight / maxJnlHeight), both receive the same height; the reopened ledger derives its rollback window from the markers.")
	r.Rule("R11.6", "the start-up rollback undoes whole journal entries (shared with C12 R12.6): every path through revertJournal reaches the loop over PrevStates and the test of CodeChanged; otherwise the state store reconciled after a crash keeps storage or code of the block that was rolled back.")
	r.Rule("R11.7", "the start-up rollback finds what it must undo (shared with C12 R12.8): the journal entry type owns its JSON form so that state keys that are not valid UTF-8 (EVM storage slots) survive the stored journal - see R12.8.")
	c.c12JournalKeys("R11.7")
	r.NotDecided = append(r.NotDecided, "the set of on-disk states after a crash (leveldb batch atomicity and blockfile repair() are trusted); crash during a rollback (RollbackBlockChain truncates the blockfile before it commits the index batch: reported as information); re-execution equivalence after recovery; the ethdb-backed (complex) state ledger's own commit protocol")

	isStateCommit := func(in ssa.Instruction) bool {
		call, ok := in.(ssa.CallInstruction)
		return ok && core.CalleeObj(call) != nil && core.CalleeObj(call).Name() == "Commit" && strings.Contains(core.CalleeName(call), "eth-kit/ledger.")
	}
	isChainPersist := callToMethod("PersistExecutionResult")
	if pb := c.fn("R11.1", "internal/ledger.(*Ledger).PersistBlockData"); pb != nil {
		ok, why, n := c.orderedBefore(pb, isStateCommit, isChainPersist, "StateLedger.Commit", "ChainLedger.PersistExecutionResult")
		r.Check(ok, "R11.1", "PersistBlockData: state commit before chain persist", c.P.Pos(pb.Pos()), fmt.Sprintf("%d ordered pair(s)", n),
			"the chain meta can become durable before the state it refers to: after a crash ledger.New's Rollback(chain height) is refused (state store behind) and the ledger cannot be opened: "+why)
	}
	if pe := c.fn("R11.1", chainPrefix+"PersistExecutionResult"); pe != nil {
		// the batch that receives the chain meta
		var batch ssa.Value
		for _, call := range core.Calls(pe) {
			if strings.HasSuffix(core.CalleeName(call), ".persistChainMeta") {
				batch = core.Arg(call, 0)
			}
		}
		if batch == nil {
			// through a wrapper of the chain ledger that hands its batch on to persistChainMeta (stageChainMeta)
			for _, call := range core.Calls(pe) {
				g := core.StaticCallee(call)
				if g == nil || len(g.Blocks) == 0 || core.PkgOf(g) != core.PkgOf(pe) {
					continue
				}
				for _, gc := range core.Calls(g) {
					if !strings.HasSuffix(core.CalleeName(gc), ".persistChainMeta") {
						continue
					}
					if p, ok := core.Strip(core.Arg(gc, 0)).(*ssa.Parameter); ok {
						for i, q := range g.Params {
							if q == p && i < len(call.Common().Args) {
								batch = call.Common().Args[i]
							}
						}
					}
				}
			}
		}
		if batch == nil {
			r.Unknown("R11.1", "PersistExecutionResult: batch carrying the chain meta", c.P.Pos(pe.Pos()), "no persistChainMeta(batch, ..) call found")
		} else {
			sameBatch := func(v ssa.Value) bool {
				return sameValue(v, batch) || core.VarIdentity(v) != nil && core.VarIdentity(v) == core.VarIdentity(batch)
			}
			isMetaCommit := func(in ssa.Instruction) bool {
				call, ok := in.(ssa.CallInstruction)
				if !ok || core.CalleeObj(call) == nil || core.CalleeObj(call).Name() != "Commit" {
					return false
				}
				rv := core.Receiver(call)
				return rv != nil && sameBatch(rv)
			}
			isAppend := c.throughHelpers(callToMethod("AppendBlock")) // also a helper of the chain ledger that appends
			ok, why, n := c.orderedBefore(pe, isAppend, isMetaCommit, "blockfile AppendBlock", "commit of the chain-meta batch")
			r.Check(ok, "R11.1", "PersistExecutionResult: blockfile append before chain-meta commit", c.P.Pos(pe.Pos()), fmt.Sprintf("%d ordered pair(s)", n),
				"the chain meta can become durable before the block it names is in the blockfile: after a crash the head block cannot be read: "+why)
			// every write into the batch precedes its commit
			isBatchUse := func(in ssa.Instruction) bool {
				call, ok := in.(ssa.CallInstruction)
				if !ok || isMetaCommit(in) {
					return false
				}
				for _, a := range call.Common().Args {
					if sameBatch(a) {
						return true
					}
				}
				return false
			}
			nUse := 0
			okAll := true
			why2 := ""
			for _, cm := range durableSites(pe, isMetaCommit) {
				rs := core.Reach([]core.Point{core.After(cm.at)}, nil, nil)
				for _, u := range durableSites(pe, isBatchUse) {
					nUse += batchUsesBehind(u.in, sameBatch, 0)
					if rs.Has(u.at) {
						okAll = false
						why2 = shortCallee(u.in.(ssa.CallInstruction)) + " at " + c.P.Pos(u.in.Pos()) + " writes into the batch after it was committed"
					}
				}
			}
			r.Check(okAll && nUse >= 3, "R11.1", "PersistExecutionResult: index writes and chain meta enter the batch before its commit", c.P.Pos(pe.Pos()), fmt.Sprintf("%d batch uses precede the commit", nUse), "an index write is lost or lands in a later commit: "+why2)
		}
	}

	c.chainBatchDiscipline("R11.1")

	// R11.2
	if commit := c.fn("R11.2", "internal/ledger.(*SimpleLedger).Commit"); commit != nil {
		ops := batchOps(commit)
		ok, why := sameBatchOps(ops, []string{"journal", "journal-max", "account", "state"})
		r.Check(ok, "R11.2", "Commit: data, journal record and max marker in one batch", c.P.Pos(commit.Pos()), "all put into the same storage batch", "the state of a height is not committed atomically with its journal and the recorded height: a crash between the writes leaves a state store whose content and recorded height disagree, which start-up cannot detect: "+why)
		// the batch commits
		isBatchCommit := func(in ssa.Instruction) bool {
			call, ok := in.(ssa.CallInstruction)
			if !ok || core.CalleeObj(call) == nil || core.CalleeObj(call).Name() != "Commit" {
				return false
			}
			rv := core.Receiver(call)
			return rv != nil && strings.HasSuffix(rv.Type().String(), "storage.Batch")
		}
		isBatchCommitDirect := isBatchCommit
		// the commit may sit in a helper of the ledger that receives the batch (commitJournalBatch(batch, height))
		isBatchCommit = func(in ssa.Instruction) bool {
			if isBatchCommitDirect(in) {
				return true
			}
			call, ok := in.(ssa.CallInstruction)
			if !ok {
				return false
			}
			g := core.StaticCallee(call)
			if g == nil || len(g.Blocks) == 0 || core.PkgOf(g) != ledgerPkg || g == commit {
				return false
			}
			takes := false
			for _, a := range call.Common().Args {
				if strings.HasSuffix(a.Type().String(), "storage.Batch") {
					takes = true
				}
			}
			return takes && len(sites(g, isBatchCommitDirect)) == 1
		}
		cs := sites(commit, isBatchCommit)
		r.Check(len(cs) == 1, "R11.2", "Commit: exactly one batch commit", c.P.Pos(commit.Pos()), "one ldbBatch.Commit()", fmt.Sprintf("%d batch commits in SimpleLedger.Commit: the block's state reaches the disk in several steps", len(cs)))
		// direct store writes before the commit
		isDirect := func(in ssa.Instruction) bool {
			call, ok := in.(ssa.CallInstruction)
			if !ok || core.CalleeObj(call) == nil {
				return false
			}
			n := core.CalleeObj(call).Name()
			rv := core.Receiver(call)
			return (n == "Put" || n == "Delete") && rv != nil && strings.HasSuffix(rv.Type().String(), "storage.Storage")
		}
		ds := sites(commit, isDirect)
		for _, d := range ds {
			r.Bad("R11.2", "Commit: no write outside the batch", c.P.Pos(d.Pos()), "SimpleLedger.Commit writes to the state store directly ("+shortCallee(d.(ssa.CallInstruction))+"), outside the atomic batch: a crash between this write and the batch commit is not recoverable")
		}
		if len(ds) == 0 {
			r.OK("R11.2", "Commit: no write outside the batch", c.P.Pos(commit.Pos()), "no storage.Storage Put/Delete in Commit")
		}
		if len(cs) == 1 {
			after := core.Reach([]core.Point{core.EntryOf(commit)}, isBatchCommit, nil)
			for _, in := range sites(commit, storesToField("SimpleLedger", "maxJnlHeight")) {
				r.Check(!after.Has(in), "R11.2", "Commit: in-memory height advanced after the batch commit", c.P.Pos(in.Pos()), "store follows ldbBatch.Commit()", "the in-memory height is advanced before the batch is durable")
			}
			n := 0
			for _, in := range sites(commit, callToMethod("removeJournalsBeforeBlock")) {
				n++
				r.Check(!after.Has(in), "R11.2", "Commit: journals pruned after the batch commit", c.P.Pos(in.Pos()), "pruning follows ldbBatch.Commit()", "old journals are removed before the new height is durable")
			}
			r.Floor("R11.2", "journal pruning sites", n, 1)
		}
	}

	if pr := c.fn("R11.2", "internal/ledger.(*SimpleLedger).removeJournalsBeforeBlock"); pr != nil {
		ok, why := sameBatchOps(batchOps(pr), []string{"journal", "journal-min"})
		r.Check(ok, "R11.2", "removeJournalsBeforeBlock: pruned records and min marker in one batch", c.P.Pos(pr.Pos()), "Delete(journal-<i>) and Put(journal-minHeight) share a batch", "journal records are removed without the min-height marker moving atomically with them: "+why)
	}

	// R11.3
	if nw := c.fn("R11.3", "internal/ledger.New"); nw != nil {
		var gs []core.GuardSite
		var rb *ssa.Call
		for _, call := range core.Calls(nw) {
			if cl, ok := call.(*ssa.Call); ok && strings.HasSuffix(core.CalleeName(call), "ledger.Ledger).Rollback") {
				gs = append(gs, core.GuardSite{Call: cl, Conv: core.ConvErrNil, Idx: -1})
				rb = cl
			}
		}
		if rb == nil {
			r.Bad("R11.3", "ledger.New: reconciles state and chain store", c.P.Pos(nw.Pos()), "ledger.New does not call Rollback(chain meta height): a state store ahead of the chain store is handed out as is")
		} else {
			es := core.EdgeSet{}
			for b, m := range core.SuccessEdges(nw, gs) {
				for i := range m {
					es.Add(b, i)
				}
			}
			rs := core.Reach([]core.Point{core.EntryOf(nw)}, nil, core.CutOf(es))
			ok := true
			pos := c.P.Pos(rb.Pos())
			nSucc := 0
			for _, ret := range core.Returns(nw) {
				if !core.MayBeSuccess(nw, ret, 1, core.ConvErrNil) {
					continue
				}
				nSucc++
				if rs.Has(ret) {
					ok = false
					pos = c.P.Pos(ret.Pos())
				}
			}
			r.Check(ok && nSucc > 0, "R11.3", "ledger.New: success only after Rollback(chain height) succeeded", pos, fmt.Sprintf("%d success return(s) behind the no-error edge", nSucc), "ledger.New can return a ledger without a successful reconciliation of the state store with the chain height")
			fromMeta := core.Mentions(core.Arg(rb, 0), func(v ssa.Value) bool {
				_, fld, base, ok := core.FieldOf(v)
				if !ok || fld != "Height" {
					return false
				}
				return core.Mentions(base, func(w ssa.Value) bool {
					cc, ok := w.(*ssa.Call)
					return ok && core.CalleeObj(cc) != nil && core.CalleeObj(cc).Name() == "GetChainMeta"
				})
			})
			r.Check(fromMeta, "R11.3", "ledger.New: reconciles to the chain meta height", c.P.Pos(rb.Pos()), "Rollback(chainLedger.GetChainMeta().Height)", "the start-up rollback target is not the chain store's height")
		}
	}
	if nc := c.fn("R11.3", "internal/ledger.NewChainLedgerImpl"); nc != nil {
		key := "NewChainLedgerImpl: blockfile reconciled with the chain meta"
		metaHeight := func(v ssa.Value) bool { return core.Mentions(v, fieldNamed("Height")) }
		errIdxOf := func(fn *ssa.Function) int {
			res := fn.Signature.Results()
			for i := res.Len() - 1; i >= 0; i-- {
				if res.At(i).Type().String() == "error" {
					return i
				}
			}
			return -1
		}
		found, ok := c.blockfileReconciled(nc, metaHeight, errIdxOf(nc))
		if !found {
			// the reconciliation may live in a helper of the ledger that receives the chain meta height
			for _, call := range core.Calls(nc) {
				cl, isCall := call.(*ssa.Call)
				g := core.StaticCallee(call)
				if !isCall || g == nil || len(g.Blocks) == 0 || core.PkgOf(g) != ledgerPkg {
					continue
				}
				for ai, a := range call.Common().Args {
					if !metaHeight(a) || ai >= len(g.Params) {
						continue
					}
					gp := g.Params[ai]
					gf, gok := c.blockfileReconciled(g, func(v ssa.Value) bool { return core.Mentions(v, func(w ssa.Value) bool { return w == ssa.Value(gp) }) }, errIdxOf(g))
					if !gf {
						continue
					}
					found = true
					// every success return of the constructor lies behind the helper's no-error edge
					es := core.EdgeSet{}
					for bb, m := range core.SuccessEdges(nc, []core.GuardSite{{Call: cl, Conv: core.ConvErrNil, Idx: -1}}) {
						for i := range m {
							es.Add(bb, i)
						}
					}
					rs := core.Reach([]core.Point{core.EntryOf(nc)}, nil, core.CutOf(es))
					ok = gok && es.Len() > 0
					for _, ret := range core.Returns(nc) {
						if rs.Has(ret) && core.MayBeSuccess(nc, ret, errIdxOf(nc), core.ConvErrNil) {
							ok = false
						}
					}
				}
			}
		}
		if !found {
			r.Bad("R11.3", key, c.P.Pos(nc.Pos()), "the chain ledger is opened without comparing the blockfile size with the chain meta: blocks appended by a commit that did not finish stay in the blockfile and the next append fails (out of order)")
		} else {
			r.Check(ok, "R11.3", key, c.P.Pos(nc.Pos()), "Blocks() compared with chainMeta.Height, surplus truncated to chainMeta.Height on every success path", "the chain ledger can be opened with more blocks in the blockfile than the chain meta records")
		}
	}
	if ns := c.fn("R11.3", "internal/ledger.NewSimpleLedger"); ns != nil {
		key := "NewSimpleLedger: refuses a height without journal"
		// refused(fn, errIdx): fn tests getBlockJournal(..) == nil and no success return is reachable from the nil edge
		refused := func(fn *ssa.Function, errIdx int) (found, ok bool) {
			missing := condEdges(fn, func(f core.Fact, ifi *ssa.If) (bool, int) {
				if f.Kind != core.FNil {
					return false, 0
				}
				cc, isCall := core.Strip(f.Subject).(*ssa.Call)
				if !isCall || !strings.HasSuffix(core.CalleeName(cc), "ledger.getBlockJournal") {
					return false, 0
				}
				return true, holdsEdge(f)
			})
			if missing.Len() == 0 {
				return false, false
			}
			var starts []core.Point
			for b, m := range missing {
				for i := range m {
					starts = append(starts, core.Point{B: b.Succs[i], Idx: 0})
				}
			}
			rs := core.Reach(starts, nil, nil)
			ok = true
			for _, ret := range core.Returns(fn) {
				if rs.Has(ret) && core.MayBeSuccess(fn, ret, errIdx, core.ConvErrNil) {
					ok = false
				}
			}
			return true, ok
		}
		errIdxOf := func(fn *ssa.Function) int {
			res := fn.Signature.Results()
			for i := res.Len() - 1; i >= 0; i-- {
				if res.At(i).Type().String() == "error" {
					return i
				}
			}
			return -1
		}
		found, ok := refused(ns, errIdxOf(ns))
		if !found {
			// in a helper of the ledger whose error the constructor hands on
			for _, call := range core.Calls(ns) {
				cl, isCall := call.(*ssa.Call)
				g := core.StaticCallee(call)
				if !isCall || g == nil || len(g.Blocks) == 0 || core.PkgOf(g) != ledgerPkg || errIdxOf(g) < 0 {
					continue
				}
				gf, gok := refused(g, errIdxOf(g))
				if !gf {
					continue
				}
				found = true
				es := core.EdgeSet{}
				idx := errIdxOf(g)
				if g.Signature.Results().Len() == 1 {
					idx = -1
				}
				for bb, m := range core.SuccessEdges(ns, []core.GuardSite{{Call: cl, Conv: core.ConvErrNil, Idx: idx}}) {
					for i := range m {
						es.Add(bb, i)
					}
				}
				rs := core.Reach([]core.Point{core.EntryOf(ns)}, nil, core.CutOf(es))
				ok = gok && es.Len() > 0
				for _, ret := range core.Returns(ns) {
					if rs.Has(ret) && core.MayBeSuccess(ns, ret, errIdxOf(ns), core.ConvErrNil) {
						ok = false
					}
				}
			}
		}
		if !found {
			r.Bad("R11.3", key, c.P.Pos(ns.Pos()), "the journal of the recorded height is not checked when the state ledger is opened")
		} else {
			r.Check(ok, "R11.3", key, c.P.Pos(ns.Pos()), "nil journal -> error return", "the state ledger opens although the journal of its recorded height is missing")
		}
	}

	// R11.4
	durableNames := map[string]bool{"PersistExecutionResult": true, "AppendBlock": true, "TruncateBlocks": true, "persistChainMeta": true,
		"removeJournalsBeforeBlock": true, "RollbackState": true, "RollbackBlockChain": true, "Rollback": true}
	n4 := 0
	var keys []string
	seen := map[string]int{}
	for _, fn := range c.P.ModuleFuncs(true) {
		pk := core.PkgOf(fn)
		if pk != "internal/ledger" && pk != "internal/executor" && pk != "internal/ledger/genesis" && pk != "internal/app" {
			continue
		}
		for _, call := range core.Calls(fn) {
			o := core.CalleeObj(call)
			if o == nil {
				continue
			}
			name := o.Name()
			isDur := durableNames[name] && (strings.Contains(core.CalleeName(call), "ledger") || strings.Contains(core.CalleeName(call), "blockfile"))
			if name == "Commit" && strings.Contains(core.CalleeName(call), "eth-kit/ledger.") {
				isDur = true
			}
			if !isDur {
				continue
			}
			cl, ok := call.(*ssa.Call)
			if !ok {
				r.Bad("R11.4", shortFn(fn)+": "+name+" error handled", c.P.Pos(call.Pos()), "a persistence operation is started with go/defer: its error result is discarded")
				continue
			}
			if cl.Call.Signature().Results().Len() == 0 {
				continue
			}
			n4++
			key := shortFn(fn) + ": " + name + " error handled"
			seen[key]++
			if seen[key] > 1 {
				key = fmt.Sprintf("%s #%d", key, seen[key])
			}
			keys = append(keys, key)
			ok2, why := c.errNotDropped(fn, cl)
			r.Check(ok2, "R11.4", key, c.P.Pos(call.Pos()), why, "the error of a persistence operation is dropped ("+why+"): the node continues as if the block were durable")
		}
	}
	sort.Strings(keys)
	r.Floor("R11.4", "persistence calls with an error result", n4, 10)

	// information: rollback order
	if rbk := c.fn("R11.1", chainPrefix+"RollbackBlockChain"); rbk != nil {
		r.Note("R11.1", "RollbackBlockChain: blockfile truncated before the index batch commits", c.P.Pos(rbk.Pos()), "a crash during a rollback can leave the chain meta above the blockfile; not part of a block commit, see DESIGN.md")
	}
	c.markerFieldAgreement()
	c.revertJournalWhole("R11.6")
}

// chainBatchDiscipline: nothing on the chain-store persist / rollback path writes around the block's batch.
func (c *Ctx) chainBatchDiscipline(rule string) {
	r := c.R
	isDirectWrite := func(in ssa.Instruction) bool {
		call, ok := in.(ssa.CallInstruction)
		if !ok || core.CalleeObj(call) == nil {
			return false
		}
		n := core.CalleeObj(call).Name()
		rv := core.Receiver(call)
		return (n == "Put" || n == "Delete") && rv != nil && strings.HasSuffix(rv.Type().String(), "storage.Storage")
	}
	nBatchFns := 0
	for _, fn := range c.P.ModuleFuncs(true) {
		if core.PkgOf(fn) != ledgerPkg || fn.Parent() != nil {
			continue
		}
		// functions of the chain ledger that receive the write batch of a block (prepareBlock,
		// prepareTransactions, persistChainMeta, removeChainDataOnBlock ..) and the two functions that own it
		takesBatch := false
		for _, p := range fn.Params {
			if strings.HasSuffix(p.Type().String(), "storage.Batch") {
				takesBatch = true
			}
		}
		name := fn.Name()
		if !takesBatch && name != "PersistExecutionResult" && name != "RollbackBlockChain" {
			continue
		}
		if fn.Signature.Recv() == nil || !strings.HasSuffix(core.RecvTypeName(fn.Signature.Recv().Type()), "ledger.ChainLedgerImpl") {
			continue
		}
		nBatchFns++
		ds := sites(fn, isDirectWrite)
		key := "ChainLedgerImpl." + name + ": writes only through the batch"
		if len(ds) == 0 {
			r.OK(rule, key, c.P.Pos(fn.Pos()), "no direct Put / Delete on the chain store")
		} else {
			r.Bad(rule, key, c.P.Pos(ds[0].Pos()), "a function on the chain store's persist / rollback path writes to the store directly ("+shortCallee(ds[0].(ssa.CallInstruction))+") instead of into the block's batch: the entry becomes durable before (or without) the batch that carries the chain meta, so a crash in between leaves index entries or a chain meta of a block that was never committed")
		}
	}
	r.Floor(rule, "chain-ledger functions on the batch path", nBatchFns, 4)
}

// blockfileReconciled: fn compares bf.Blocks() with the chain meta height (isH recognises it) and, on the
// surplus edge, passes TruncateBlocks(height) before every success return; no success return avoids the
// comparison. found = the comparison exists in fn.
func (c *Ctx) blockfileReconciled(fn *ssa.Function, isH func(ssa.Value) bool, errIdx int) (found, ok bool) {
	isBlocks := callToMethod("Blocks")
	isTrunc := callToMethod("TruncateBlocks")
	surplus := condEdges(fn, func(f core.Fact, ifi *ssa.If) (bool, int) {
		bo, ok := ifi.Cond.(*ssa.BinOp)
		if !ok {
			return false, 0
		}
		isB := func(v ssa.Value) bool {
			return core.Mentions(v, func(w ssa.Value) bool {
				cc, ok := w.(*ssa.Call)
				return ok && core.CalleeObj(cc) != nil && core.CalleeObj(cc).Name() == "Blocks"
			})
		}
		switch {
		case (bo.Op == token.GTR || bo.Op == token.NEQ) && isB(bo.X) && isH(bo.Y):
			return true, 0
		case (bo.Op == token.LSS || bo.Op == token.NEQ) && isH(bo.X) && isB(bo.Y):
			return true, 0
		case (bo.Op == token.LEQ || bo.Op == token.EQL) && isB(bo.X) && isH(bo.Y):
			return true, 1
		case (bo.Op == token.GEQ || bo.Op == token.EQL) && isH(bo.X) && isB(bo.Y):
			return true, 1
		}
		return false, 0
	})
	if surplus.Len() == 0 || len(sites(fn, isBlocks)) == 0 {
		return false, false
	}
	success := func(ret *ssa.Return) bool {
		return errIdx < 0 || core.MayBeSuccess(fn, ret, errIdx, core.ConvErrNil)
	}
	// from the surplus edge every success return passes TruncateBlocks
	var starts []core.Point
	for b, m := range surplus {
		for i := range m {
			starts = append(starts, core.Point{B: b.Succs[i], Idx: 0})
		}
	}
	rs := core.Reach(starts, isTrunc, nil)
	ok = true
	for _, ret := range core.Returns(fn) {
		if rs.Has(ret) && success(ret) {
			ok = false
		}
	}
	// and no success return is reachable without passing the comparison
	// (the comparison itself, not just the Blocks() call: a short-circuit in front of it skips the reconciliation)
	isCmp := func(in ssa.Instruction) bool {
		ifi, ok := in.(*ssa.If)
		return ok && surplus[ifi.Block()] != nil
	}
	rs2 := core.Reach([]core.Point{core.EntryOf(fn)}, isCmp, nil)
	for _, ret := range core.Returns(fn) {
		if rs2.Has(ret) && success(ret) {
			ok = false
		}
	}
	argOK := false
	for _, in := range sites(fn, isTrunc) {
		if isH(core.Arg(in.(ssa.CallInstruction), 0)) {
			argOK = true
		}
	}
	return true, ok && argOK
}

// markerFieldAgreement: R11.5 - the persisted journal markers mirror the in-memory fields.
func (c *Ctx) markerFieldAgreement() {
	r := c.R
	pairs := map[string]string{"minHeight": "minJnlHeight", "maxHeight": "maxJnlHeight"}
	n := 0
	for _, fn := range c.P.ModuleFuncs(true) {
		if core.PkgOf(fn) != ledgerPkg || len(fn.Blocks) == 0 {
			continue
		}
		for _, call := range core.Calls(fn) {
			o := core.CalleeObj(call)
			if o == nil || o.Name() != "Put" || len(call.Common().Args) < 2 {
				continue
			}

			args := call.Common().Args
			key, val := args[len(args)-2], args[len(args)-1]
			marker := ""
			core.Mentions(key, func(v ssa.Value) bool {
				if s, ok := core.ConstString(v); ok && pairs[s] != "" {
					marker = s
				}
				// the marker names are package-level variables (minHeightStr = "minHeight")
				if g, ok := v.(*ssa.Global); ok && pairs[strings.TrimSuffix(g.Name(), "Str")] != "" {
					marker = strings.TrimSuffix(g.Name(), "Str")
				}
				return false
			})
			if marker == "" {
				continue
			}
			// the height that is marshalled
			var h ssa.Value
			if cc, _ := core.CallOf(val); cc != nil && strings.HasSuffix(core.CalleeName(cc), "marshalHeight") && len(cc.Call.Args) == 1 {
				h = cc.Call.Args[0]
			}
			if h == nil || core.InLoop(call) {
				continue // written per iteration (RollbackState lowers the marker step by step): decided by R12.3
			}
			field := pairs[marker]
			for _, in := range sites(fn, storesToField("SimpleLedger", field)) {
				st := in.(*ssa.Store)
				// only stores that belong to this marker write: same branch (one reaches the other)
				if !core.Reach([]core.Point{core.After(call)}, nil, nil).Has(in) && !core.Reach([]core.Point{core.After(in)}, nil, nil).Has(call) {
					continue
				}
				n++
				r.Check(sameValue(st.Val, h), "R11.5", fmt.Sprintf("%s: marker %s = field %s #%d", shortLedger(fn), marker, field, n), c.P.Pos(call.Pos()), "the height marshalled into the marker is the height stored into the field",
					"the persisted journal marker "+marker+" is written with a different height than the in-memory field "+field+" receives: after a restart the ledger loads a window that does not match the journals on disk (a crash between the state commit and the chain commit then cannot be rolled back: ErrorRollbackTooMuch / missing journal)")
			}
		}
	}
	r.Floor("R11.5", "journal marker writes paired with their field", n, 2)
}
