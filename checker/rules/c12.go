package rules

import (
	"fmt"
	"go/token"
	"go/types"
	"sort"
	"strings"

	"bxhlint/core"

	"golang.org/x/tools/go/ssa"
)

func init() { Props["C12"] = C12 }

// isErrGlobalReturn: ret returns (a load of) a package-level error variable whose name starts with Error.
func errGlobalReturned(ret *ssa.Return) string {
	for _, res := range ret.Results {
		for _, o := range core.RetOrigins(res) {
			if u, ok := o.V.(*ssa.UnOp); ok {
				if g, ok := u.X.(*ssa.Global); ok && strings.HasPrefix(g.Name(), "Error") {
					return g.Name()
				}
			}
		}
	}
	return ""
}

// ledgerMutation: an instruction of a rollback function that changes caches,
// storage or ledger fields.
func ledgerMutation(in ssa.Instruction) bool {
	switch x := in.(type) {
	case *ssa.Store:
		if o, _, _, ok := core.FieldOf(x.Addr); ok && (strings.HasSuffix(o, "ledger.SimpleLedger") || strings.HasSuffix(o, "ledger.ChainLedgerImpl")) {
			return true
		}
	case ssa.CallInstruction:
		o := core.CalleeObj(x)
		if o == nil {
			return false
		}
		switch o.Name() {
		case "Clear", "clear", "Commit", "Put", "Delete", "TruncateBlocks", "NewBatch", "UpdateChainMeta":
			n := core.CalleeName(x)
			return strings.Contains(n, "ledger.") || strings.Contains(n, "storage.") || strings.Contains(n, "blockfile.")
		}
	}
	return false
}

// storageKind: classifies the key of a batch Put/Delete in internal/ledger:
// "account", "code", "state", "journal", "journal-max", "journal-min" or "".
func storageKind(key ssa.Value) string {
	key = core.Strip(key)
	c, ok := key.(*ssa.Call)
	if !ok {
		return ""
	}
	n := core.CalleeName(c)
	switch {
	case strings.HasSuffix(n, "ledger.composeStateKey"):
		return "state"
	case strings.HasSuffix(n, "ledger.compositeKey"):
		p, _ := core.ConstString(c.Call.Args[0])
		switch p {
		case "account-":
			return "account"
		case "code-":
			return "code"
		case "journal-":
			suffix := c.Call.Args[1]
			if u, ok := core.Strip(suffix).(*ssa.UnOp); ok {
				if g, ok := u.X.(*ssa.Global); ok {
					if g.Name() == "maxHeightStr" {
						return "journal-max"
					}
					if g.Name() == "minHeightStr" {
						return "journal-min"
					}
				}
			}
			return "journal"
		}
		return "prefix:" + p
	}
	// a key-building helper of the ledger package (accountDBKey(addr) = compositeKey(accountKey, addr)): the kind of
	// the key every return of the helper builds; a suffix that is the helper's parameter is looked up at the call
	if g := core.StaticCallee(c); g != nil && len(g.Blocks) > 0 && strings.HasSuffix(core.PkgOf(g), "internal/ledger") && g != c.Parent() {
		kind := ""
		for _, ret := range core.Returns(g) {
			if len(ret.Results) != 1 {
				return ""
			}
			k := storageKind(ret.Results[0])
			if k == "journal" {
				// compositeKey(journalKey, which) with which handed in by the caller
				if ic, ok := core.Strip(ret.Results[0]).(*ssa.Call); ok && len(ic.Call.Args) > 1 {
					if pi := paramIndex(g, core.Strip(ic.Call.Args[1])); pi >= 0 && pi < len(c.Call.Args) {
						if u, ok := core.Strip(c.Call.Args[pi]).(*ssa.UnOp); ok {
							if gl, ok := u.X.(*ssa.Global); ok {
								if gl.Name() == "maxHeightStr" {
									k = "journal-max"
								}
								if gl.Name() == "minHeightStr" {
									k = "journal-min"
								}
							}
						}
					}
				}
			}
			if k == "" || (kind != "" && kind != k) {
				return ""
			}
			kind = k
		}
		return kind
	}
	return ""
}

// batchOfSite: for a batch operation performed inside a helper that received the batch as an argument, the
// operation's site is the helper call in the analysed function and this table gives the batch value there.
var batchOfSite = map[ssa.Instruction]ssa.Value{}

func batchValueOf(in ssa.Instruction) ssa.Value {
	if v, ok := batchOfSite[in]; ok {
		return v
	}
	return core.Receiver(in.(ssa.CallInstruction))
}

func isStorageWrite(call ssa.CallInstruction) bool {
	o := core.CalleeObj(call)
	return o != nil && (o.Name() == "Put" || o.Name() == "Delete") && strings.Contains(core.CalleeName(call), "storage.")
}

func batchOps(fn *ssa.Function) map[string]map[string][]ssa.Instruction {
	out := map[string]map[string][]ssa.Instruction{} // kind -> op -> sites
	add := func(k, op string, site ssa.Instruction) {
		if out[k] == nil {
			out[k] = map[string][]ssa.Instruction{}
		}
		out[k][op] = append(out[k][op], site)
	}
	for _, f := range core.WithClosures(fn) {
		for _, call := range core.Calls(f) {
			if isStorageWrite(call) {
				if k := storageKind(core.Arg(call, 0)); k != "" {
					add(k, core.CalleeObj(call).Name(), call)
				}
				continue
			}
			// a method value of a context struct that carries the batch (`w := &writer{batch: b}; m.Range(w.write)`)
			for _, a := range call.Common().Args {
				mc, isMC := a.(*ssa.MakeClosure)
				if !isMC || len(mc.Bindings) != 1 {
					continue
				}
				m := core.FuncValueTarget(mc)
				wr, _ := mc.Fn.(*ssa.Function)
				if m == nil || wr == nil || m == wr || len(m.Params) == 0 || core.PkgOf(m) != ledgerPkg {
					continue
				}
				al, isAlloc := core.Strip(mc.Bindings[0]).(*ssa.Alloc)
				if !isAlloc {
					continue
				}
				for _, rf := range *al.Referrers() {
					fa, isFA := rf.(*ssa.FieldAddr)
					if !isFA || fa.X != ssa.Value(al) || !strings.HasSuffix(fa.Type().String(), "storage.Batch") {
						continue
					}
					var stored ssa.Value
					for _, rr := range *fa.Referrers() {
						if st, isSt := rr.(*ssa.Store); isSt && st.Addr == ssa.Value(fa) {
							stored = st.Val
						}
					}
					if stored == nil {
						continue
					}
					for _, ko := range helperBatchWritesPred(m, nil, &ctxBatch{m.Params[0], fa.Field}, 0, map[*ssa.Function]bool{fn: true}, nil) {
						batchOfSite[call] = stored
						add(ko[0], ko[1], call)
					}
				}
			}
			// a method (or helper) called on a context struct that carries the batch: flusher := &accountFlusher{batch: b};
			// flusher.flushCode()
			if g := core.StaticCallee(call); g != nil && len(g.Blocks) > 0 && core.PkgOf(g) == ledgerPkg && g != fn {
				for ai, a := range call.Common().Args {
					al, isAlloc := core.Strip(a).(*ssa.Alloc)
					if !isAlloc || ai >= len(g.Params) {
						continue
					}
					for _, rf := range *al.Referrers() {
						fa, isFA := rf.(*ssa.FieldAddr)
						if !isFA || fa.X != ssa.Value(al) || !strings.HasSuffix(fa.Type().String(), "storage.Batch") {
							continue
						}
						var stored ssa.Value
						for _, rr := range *fa.Referrers() {
							if st, isSt := rr.(*ssa.Store); isSt && st.Addr == ssa.Value(fa) {
								stored = st.Val
							}
						}
						if stored == nil {
							continue
						}
						for _, ko := range helperBatchWritesPred(g, nil, &ctxBatch{g.Params[ai], fa.Field}, 0, map[*ssa.Function]bool{fn: true}, nil) {
							batchOfSite[call] = stored
							add(ko[0], ko[1], call)
						}
					}
				}
			}
			// a helper of the ledger package that receives the batch and writes through it (also through helpers of its own)
			g := core.StaticCallee(call)
			if g == nil || len(g.Blocks) == 0 || core.PkgOf(g) != ledgerPkg || g == fn {
				continue
			}
			for ai, a := range call.Common().Args {
				if !strings.HasSuffix(a.Type().String(), "storage.Batch") || ai >= len(g.Params) {
					continue
				}
				var env map[int]string
				for bi, b := range call.Common().Args {
					if k := storageKind(b); k != "" && bi != ai {
						if env == nil {
							env = map[int]string{}
						}
						env[bi] = k
					}
				}
				for _, ko := range helperBatchWritesEnv(g, g.Params[ai], 0, map[*ssa.Function]bool{fn: true}, env) {
					batchOfSite[call] = a
					add(ko[0], ko[1], call)
				}
			}
		}
	}
	return out
}

// helperBatchWrites lists the (kind, operation) pairs that function g performs on the storage batch it receives as
// parameter p - in its own body, in its closures (which capture p), and in further ledger helpers it hands p to.
func helperBatchWrites(g *ssa.Function, p *ssa.Parameter, depth int, seen map[*ssa.Function]bool) [][2]string {
	return helperBatchWritesEnv(g, p, depth, seen, nil)
}

// helperBatchWritesEnv: kinds maps parameter indices of g to the storage kind of the key the caller passes there
// (a helper such as restorePrevValue(batch, key, prev) writes under a key it receives).
func helperBatchWritesEnv(g *ssa.Function, p *ssa.Parameter, depth int, seen map[*ssa.Function]bool, kinds map[int]string) [][2]string {
	return helperBatchWritesPred(g, p, nil, depth, seen, kinds)
}

// helperBatchWritesPred: the batch is identified by parameter p or, when p is nil, by isBatch (a field of a context
// struct the function receives, see batchOps).
// ctxBatch: the batch is field fld of the context struct that the function receives as parameter par.
type ctxBatch struct {
	par *ssa.Parameter
	fld int
}

func (cb *ctxBatch) isCtx(v ssa.Value) bool {
	v = core.Strip(v)
	if v == ssa.Value(cb.par) {
		return true
	}
	if u, ok := v.(*ssa.UnOp); ok {
		v = u.X
	}
	fv, ok := v.(*ssa.FreeVar)
	return ok && fv.Name() == cb.par.Name()
}

func (cb *ctxBatch) is(rv ssa.Value) bool {
	u, isU := rv.(*ssa.UnOp)
	if !isU {
		return false
	}
	f2, isF2 := u.X.(*ssa.FieldAddr)
	return isF2 && f2.Field == cb.fld && cb.isCtx(f2.X)
}

func helperBatchWritesPred(g *ssa.Function, p *ssa.Parameter, ctx *ctxBatch, depth int, seen map[*ssa.Function]bool, kinds map[int]string) [][2]string {
	if depth > 3 {
		return nil
	}
	if kinds == nil {
		if seen[g] {
			return nil
		}
		seen[g] = true
	}
	var out [][2]string
	isP := func(rv ssa.Value) bool {
		if rv == nil {
			return false
		}
		if p == nil {
			return ctx != nil && ctx.is(rv)
		}
		if core.Strip(rv) == ssa.Value(p) || core.VarIdentity(rv) == ssa.Value(p) || core.Mentions(rv, func(v ssa.Value) bool { return v == ssa.Value(p) }) {
			return true
		}
		// closures capture the parameter: accept (a load of) a free variable of the same name
		inner := core.Strip(rv)
		if u, ok := inner.(*ssa.UnOp); ok {
			inner = u.X
		}
		fv, ok := inner.(*ssa.FreeVar)
		return ok && fv.Name() == p.Name()
	}
	kindOf := func(key ssa.Value) string {
		if k := storageKind(key); k != "" {
			return k
		}
		if pi := paramIndex(g, key); pi >= 0 {
			return kinds[pi]
		}
		return ""
	}
	for _, gf := range core.WithClosures(g) {
		for _, gc := range core.Calls(gf) {
			if isStorageWrite(gc) {
				if isP(core.Receiver(gc)) {
					if k := kindOf(core.Arg(gc, 0)); k != "" {
						out = append(out, [2]string{k, core.CalleeObj(gc).Name()})
					}
				}
				continue
			}
			h := core.StaticCallee(gc)
			if h == nil || len(h.Blocks) == 0 || core.PkgOf(h) != ledgerPkg {
				continue
			}
			// the context struct handed on (st.addRecord(account) inside st.add)
			if ctx != nil && h != g {
				for ai, a := range gc.Common().Args {
					if ai < len(h.Params) && ctx.isCtx(a) {
						out = append(out, helperBatchWritesPred(h, nil, &ctxBatch{h.Params[ai], ctx.fld}, depth+1, seen, nil)...)
					}
				}
			}
			for ai, a := range gc.Common().Args {
				if ai < len(h.Params) && strings.HasSuffix(a.Type().String(), "storage.Batch") && isP(a) {
					// storage kinds of the other arguments, for helpers that write under a key they are given
					var env map[int]string
					for bi, b := range gc.Common().Args {
						if k := kindOf(b); k != "" && bi != ai {
							if env == nil {
								env = map[int]string{}
							}
							env[bi] = k
						}
					}
					out = append(out, helperBatchWritesEnv(h, h.Params[ai], depth+1, seen, env)...)
				}
			}
		}
	}
	return out
}

// sameBatchOps: all Put/Delete operations of the given kinds go to one storage batch value.
func sameBatchOps(ops map[string]map[string][]ssa.Instruction, needKinds []string) (bool, string) {
	var batch, batchRaw ssa.Value
	for _, k := range needKinds {
		found := false
		for _, op := range []string{"Put", "Delete"} {
			for _, in := range ops[k][op] {
				found = true
				recv := batchValueOf(in)
				if batch == nil {
					batch = core.Strip(recv)
					batchRaw = recv
				} else if core.Strip(recv) != batch && !sameValue(recv, batch) && !(core.VarIdentity(recv) != nil && core.VarIdentity(recv) == core.VarIdentity(batchRaw)) {
					return false, k + " goes to a different batch"
				}
			}
		}
		if !found {
			return false, "no " + k + " operation"
		}
	}
	return true, ""
}

// C12: rolling back to a retained height restores exactly that height's state.
func C12(c *Ctx) {
	r := c.R
	r.Rule("R12.1", "refusal before mutation: in RollbackState and RollbackBlockChain no path reaches the return of ErrorRollbackToHigherNumber / ErrorRollbackTooMuch after a cache clear, batch operation or ledger field store; Ledger.Rollback attempts the chain rollback only across the no-error edge of the state rollback.")
	r.Rule("R12.2", "caches purged: every path of RollbackState that reverts a journal first clears the in-block account map and the account cache; AccountCache.clear purges every lru layer of the cache struct.")
	r.Rule("R12.3", "journal completeness: the storage kinds written by Commit (account record, code, state key) are exactly the kinds revertJournal restores, each with put and delete; the journal record of a height is put into the same batch as that height's data and the max-height marker; each reverted height deletes its journal record and lowers the max-height marker in the batch that carries the reverted data.")
	r.Rule("R12.5", "restore only what changed: in revertJournal every Put / Delete of an account record lies behind the entry's AccountChanged flag and every Put / Delete of code behind CodeChanged; an entry that records only storage changes must leave the stored account record (balance, nonce, code hash) untouched.")
	r.Rule("R12.6", "one journal entry is undone as a whole: every path through revertJournal reaches the loop over PrevStates and the test of CodeChanged - an early return after the account record was handled would leave the storage keys and the code that the block wrote in the database.")
	r.Rule("R12.8", "the journal keeps the keys it records: the block journal is stored as JSON and PrevStates is keyed by the raw state key (EVM storage slots are 32 arbitrary bytes); encoding/json replaces invalid UTF-8 in map keys, so the journal entry type owns its JSON form: it has MarshalJSON and UnmarshalJSON, MarshalJSON puts a key into a string-keyed map unencoded only behind utf8.ValidString(key) and hex-encodes the others, UnmarshalJSON hex-decodes them back. Otherwise a rollback (also the start-up rollback after a crash, C11) restores the previous value under a different key and the slot keeps the rolled-back block's value.")
	c.c12JournalKeys("R12.8")
	c.c12ReadUnderBatch()
	c.c12HeadAndRefusal()
	r.Rule("R12.4", "root chain continues: after reverting, every successful path stores prevJnlHash (re-read from the target height's journal) and maxJnlHeight; a value other than that journal's root is stored only behind height == 0 or is overwritten before every return; the rollback is refused exactly when minJnlHeight > height (any spelling of that comparison), so the target's journal record exists whenever it is read.")
	r.Rule("R12.7", "the journal records the real previous balance (shared with C10 R10.4): "+balanceInPlaceText)
	c.balanceInPlace("R12.7")
	r.NotDecided = append(r.NotDecided, "value-level equality of restored state; the pairing of what the journal records about contract code with what the account loader reads unconditionally (seed C12-r9: both halves silent); re-execution equivalence")

	rs := c.fn("R12.1", "internal/ledger.(*SimpleLedger).RollbackState")
	rb := c.fn("R12.1", chainPrefix+"RollbackBlockChain")
	nRef := 0
	for _, fn := range []*ssa.Function{rs, rb} {
		if fn == nil {
			continue
		}
		muts := sites(fn, ledgerMutation)
		var starts []core.Point
		for _, m := range muts {
			starts = append(starts, core.After(m))
		}
		afterMut := core.Reach(starts, nil, nil)
		for _, ret := range core.Returns(fn) {
			g := errGlobalReturned(ret)
			if g == "" {
				// `return err` where err is the verdict of a helper of the ledger that refuses with these errors
				for _, res := range ret.Results {
					for _, o := range core.RetOrigins(res) {
						call, _ := core.CallOf(o.V)
						if call == nil {
							continue
						}
						h := core.StaticCallee(call)
						if h == nil || len(h.Blocks) == 0 || core.PkgOf(h) != ledgerPkg {
							continue
						}
						hm := sites(h, ledgerMutation)
						for _, hret := range core.Returns(h) {
							if hg := errGlobalReturned(hret); hg == "ErrorRollbackToHigherNumber" || hg == "ErrorRollbackTooMuch" {
								nRef++
								r.Check(len(hm) == 0, "R12.1", shortFn(fn)+": "+hg+" before any mutation", c.P.Pos(hret.Pos()), "refused in "+shortFn(h)+", which mutates nothing", "the helper that refuses the rollback also modifies the ledger")
								g = "helper"
							}
						}
					}
				}
				if g == "helper" {
					r.Check(!afterMut.Has(ret), "R12.1", shortFn(fn)+": helper refusal returned before any mutation", c.P.Pos(ret.Pos()), fmt.Sprintf("not reachable after any of %d mutation sites", len(muts)),
						"the rollback is refused after the ledger was already modified (cache cleared / batch written / field stored)")
				}
				continue
			}
			if g != "ErrorRollbackToHigherNumber" && g != "ErrorRollbackTooMuch" {
				continue
			}
			nRef++
			r.Check(!afterMut.Has(ret), "R12.1", shortFn(fn)+": "+g+" before any mutation", c.P.Pos(ret.Pos()), fmt.Sprintf("not reachable after any of %d mutation sites", len(muts)),
				"the rollback is refused after the ledger was already modified (cache cleared / batch written / field stored)")
		}
	}
	r.Floor("R12.1", "refusal returns", nRef, 3)
	if lr := c.fn("R12.1", "internal/ledger.(*Ledger).Rollback"); lr != nil {
		var gs []core.GuardSite
		for _, call := range core.Calls(lr) {
			if cl, ok := call.(*ssa.Call); ok && core.CalleeObj(call) != nil && core.CalleeObj(call).Name() == "RollbackState" {
				gs = append(gs, core.GuardSite{Call: cl, Conv: core.ConvErrNil, Idx: -1})
			}
		}
		es := core.EdgeSet{}
		for b, m := range core.SuccessEdges(lr, gs) {
			for i := range m {
				es.Add(b, i)
			}
		}
		n := c.behindEdges("R12.1", "Ledger.Rollback", lr, es, callToMethod("RollbackBlockChain"), "RollbackState returned no error", "chain rollback")
		r.Floor("R12.1", "chain rollback calls", n, 1)
	}

	// R12.2
	if rs != nil {
		isRevert := c.throughHelpers(func(in ssa.Instruction) bool {
			call, ok := in.(ssa.CallInstruction)
			return ok && strings.HasSuffix(core.CalleeName(call), "ledger.revertJournal")
		})
		n := c.mustPrecede("R12.2", "RollbackState", rs, c.throughHelpers(func(in ssa.Instruction) bool {
			call, ok := in.(ssa.CallInstruction)
			return ok && strings.HasSuffix(core.CalleeName(call), "SimpleLedger).Clear")
		}), isRevert, "l.Clear()", "revertJournal")
		c.mustPrecede("R12.2", "RollbackState", rs, c.throughHelpers(func(in ssa.Instruction) bool {
			call, ok := in.(ssa.CallInstruction)
			return ok && strings.HasSuffix(core.CalleeName(call), "AccountCache).clear")
		}), isRevert, "accountCache.clear()", "revertJournal")
		r.Floor("R12.2", "journal revert sites", n, 1)
	}

	// purge completeness of AccountCache.clear
	if cl := c.fn("R12.2", "internal/ledger.(*AccountCache).clear"); cl != nil {
		purged := map[string]bool{}
		for _, call := range core.Calls(cl) {
			o := core.CalleeObj(call)
			if o == nil || (o.Name() != "Purge") {
				continue
			}
			if _, f, _, ok := core.FieldOf(core.Receiver(call)); ok {
				purged[f] = true
			}
		}
		var missing []string
		nf := 0
		if pk := c.P.Package(ledgerPkg); pk != nil {
			if tn, ok := pk.Types.Scope().Lookup("AccountCache").(*types.TypeName); ok {
				if st, ok := tn.Type().Underlying().(*types.Struct); ok {
					for i := 0; i < st.NumFields(); i++ {
						f := st.Field(i)
						if strings.HasSuffix(f.Type().String(), "lru.Cache") {
							nf++
							if !purged[f.Name()] {
								missing = append(missing, f.Name())
							}
						}
					}
				}
			}
		}
		r.Floor("R12.2", "cache layers of AccountCache", nf, 3)
		r.Check(len(missing) == 0, "R12.2", "AccountCache.clear purges every cache layer", c.P.Pos(cl.Pos()), fmt.Sprintf("%d lru layers, all purged", nf),
			"a rollback leaves the cache layer "+strings.Join(missing, ",")+" populated with entries of the discarded blocks: later reads return data of a height above the rollback target")
	}

	// R12.3
	commit := c.fn("R12.3", "internal/ledger.(*SimpleLedger).Commit")
	rj := c.fn("R12.3", "internal/ledger.revertJournal")
	if commit != nil && rj != nil && rs != nil {
		cw := batchOps(commit)
		rw := batchOps(rj)
		var kinds []string
		for k := range cw {
			if k == "account" || k == "code" || k == "state" || strings.HasPrefix(k, "prefix:") {
				kinds = append(kinds, k)
			}
		}
		sort.Strings(kinds)
		r.Floor("R12.3", "data kinds written by Commit", len(kinds), 3)
		for _, k := range kinds {
			ok := rw[k] != nil && len(rw[k]["Put"]) > 0 && len(rw[k]["Delete"]) > 0
			r.Check(ok, "R12.3", "kind "+k+": written by Commit, restored by revertJournal", c.P.Pos(commit.Pos()), "revertJournal has put and delete for "+k,
				"Commit writes "+k+" data but revertJournal does not restore it with both put (previous value) and delete (no previous value): a rollback leaves "+k+" data of later blocks behind")
		}
		for k := range rw {
			if cw[k] == nil {
				r.Note("R12.3", "kind "+k+" restored but not written by Commit", c.P.Pos(rj.Pos()), "")
			}
		}
		// journal record in the same batch as the data and max marker, before Commit()
		ok, why := sameBatchOps(cw, []string{"journal", "journal-max", "account", "state"})
		r.Check(ok, "R12.3", "Commit: journal record, max marker and data in one batch", c.P.Pos(commit.Pos()), "all put into the same storage batch", "the journal of a height is not committed atomically with that height's data: "+why)
		// rollback loop: per-iteration batch
		// the per-height work may sit in helpers of the ledger (revertBlockJournal(height) with its own batch)
		rops := map[string]map[string][]ssa.Instruction{}
		var rsFns []*ssa.Function
		for _, rf := range c.regionOf(rs, 2) {
			if rf.fn.Parent() != nil {
				continue
			}
			rsFns = append(rsFns, rf.fn)
			for k, m := range batchOps(rf.fn) {
				for op, ins := range m {
					if rops[k] == nil {
						rops[k] = map[string][]ssa.Instruction{}
					}
					rops[k][op] = append(rops[k][op], ins...)
				}
			}
		}
		okDel := len(rops["journal"]["Delete"]) > 0 && len(rops["journal-max"]["Put"]) > 0
		r.Check(okDel, "R12.3", "RollbackState: journal record deleted and max marker lowered per reverted height", c.P.Pos(rs.Pos()), "Delete(journal-<i>) and Put(journal-maxHeight, i-1) in the loop", "a reverted height keeps its journal record or the persistent max-height marker is not lowered")
		// the revert uses the same batch that is committed in the iteration
		okBatch := false
		reachesRevert := c.throughHelpers(func(in ssa.Instruction) bool {
			call, ok := in.(ssa.CallInstruction)
			return ok && strings.HasSuffix(core.CalleeName(call), "ledger.revertJournal")
		})
		for _, f := range rsFns {
			for _, call := range core.Calls(f) {
				if !reachesRevert(call) {
					continue
				}
				for _, b := range call.Common().Args {
					if !strings.HasSuffix(b.Type().String(), "storage.Batch") {
						continue
					}
					for _, in := range rops["journal"]["Delete"] {
						if in.Parent() == f && sameValue(core.Receiver(in.(ssa.CallInstruction)), b) {
							okBatch = true
						}
					}
				}
			}
		}
		r.Check(okBatch, "R12.3", "RollbackState: reverted data and marker share the iteration's batch", c.P.Pos(rs.Pos()), "revertJournal(journal, batch) and batch.Delete(journal-<i>) use one batch", "the reverted data and the journal bookkeeping of a height are written by different batches")
	}
	// R12.6
	c.revertJournalWhole("R12.6")
	// R12.5
	if rj != nil {
		n5 := 0
		for kind, flag := range map[string]string{"account": "AccountChanged", "code": "CodeChanged"} {
			fl, kd := flag, kind
			// a restore operation of that kind: a batch Put / Delete under a key of the kind, or a call of a ledger
			// helper that writes under the key it is handed (restorePrevValue(batch, key, prev))
			isOp := func(in ssa.Instruction) bool {
				call, ok := in.(ssa.CallInstruction)
				if !ok {
					return false
				}
				if isStorageWrite(call) {
					return storageKind(core.Arg(call, 0)) == kd
				}
				h := core.StaticCallee(call)
				if h == nil || len(h.Blocks) == 0 || core.PkgOf(h) != ledgerPkg {
					return false
				}
				for ai, a := range call.Common().Args {
					if ai >= len(h.Params) || !strings.HasSuffix(a.Type().String(), "storage.Batch") {
						continue
					}
					env := map[int]string{}
					for bi, b := range call.Common().Args {
						if storageKind(b) == kd && bi != ai {
							env[bi] = kd
						}
					}
					if len(env) > 0 && len(helperBatchWritesEnv(h, h.Params[ai], 0, map[*ssa.Function]bool{}, env)) > 0 {
						return true
					}
				}
				return false
			}
			n5 += c.behindEdgesDeep("R12.5", "revertJournal: "+kind, rj, func(f core.Fact, ifi *ssa.If) (bool, int) {
				if f.Kind == core.FBool && f.Field == fl {
					return true, holdsEdge(f)
				}
				return false, 0
			}, isOp, "journal."+fl, "restore of the "+kind+" record")
		}
		r.Floor("R12.5", "account / code restore operations in revertJournal", n5, 2)
	}
	// captured = restored: getJournalIfModified sets PrevAccount/PrevCode/PrevStates; revertJournal reads them
	if gj := c.fn("R12.3", "internal/ledger.(*SimpleAccount).getJournalIfModified"); gj != nil && rj != nil {
		captured := map[string]bool{}
		for _, b := range gj.Blocks {
			for _, in := range b.Instrs {
				if st, ok := in.(*ssa.Store); ok {
					if o, f, _, ok2 := core.FieldOf(st.Addr); ok2 && strings.HasSuffix(o, "blockJournalEntry") {
						captured[f] = true
					}
				}
			}
		}
		read := map[string]bool{}
		var rjBlocks []*ssa.BasicBlock
		for _, rf := range c.regionOf(rj, 2) {
			rjBlocks = append(rjBlocks, rf.fn.Blocks...)
		}
		for _, b := range rjBlocks {
			for _, in := range b.Instrs {
				if v, ok := in.(ssa.Value); ok {
					if o, f, _, ok2 := core.FieldOf(v); ok2 && strings.HasSuffix(o, "blockJournalEntry") {
						read[f] = true
					}
				}
			}
		}
		var miss []string
		for _, f := range []string{"PrevAccount", "AccountChanged", "PrevStates", "PrevCode", "CodeChanged"} {
			if !captured[f] || !read[f] {
				miss = append(miss, f)
			}
		}
		r.Check(len(miss) == 0, "R12.3", "journal entry: captured fields = restored fields", c.P.Pos(gj.Pos()), "PrevAccount/AccountChanged/PrevStates/PrevCode/CodeChanged are set at flush and read at revert", "journal fields not both captured and restored: "+strings.Join(miss, ","))
	}

	// R12.4
	if rs != nil {
		isRevert := func(in ssa.Instruction) bool {
			call, ok := in.(ssa.CallInstruction)
			return ok && strings.HasSuffix(core.CalleeName(call), "ledger.revertJournal")
		}
		ok1 := followsAll(rs, isRevert, storesToField("SimpleLedger", "prevJnlHash"), true)
		ok2 := followsAll(rs, isRevert, storesToField("SimpleLedger", "maxJnlHeight"), true)
		r.Check(ok1, "R12.4", "RollbackState: prevJnlHash re-established", c.P.Pos(rs.Pos()), "every successful path after a revert stores prevJnlHash", "after a rollback the running state root (prevJnlHash) is not reset to the target height's root: later roots diverge")
		r.Check(ok2, "R12.4", "RollbackState: maxJnlHeight updated", c.P.Pos(rs.Pos()), "every successful path after a revert stores maxJnlHeight", "after a rollback the in-memory version (maxJnlHeight) is stale")
		// the re-read uses the target height
		okRead := false
		var hp *ssa.Parameter
		for _, p := range rs.Params {
			if p.Name() == "height" {
				hp = p
			}
		}
		// in RollbackState itself, or in a ledger helper that receives the target height (resetJournalHead(height))
		type hfn struct {
			f *ssa.Function
			h *ssa.Parameter
		}
		cands := []hfn{{rs, hp}}
		for _, call := range core.Calls(rs) {
			g := core.StaticCallee(call)
			if g == nil || len(g.Blocks) == 0 || core.PkgOf(g) != ledgerPkg || hp == nil {
				continue
			}
			for ai, a := range call.Common().Args {
				if ai < len(g.Params) && core.Strip(a) == ssa.Value(hp) {
					cands = append(cands, hfn{g, g.Params[ai]})
				}
			}
		}
		for _, cd := range cands {
			for _, in := range sites(cd.f, storesToField("SimpleLedger", "prevJnlHash")) {
				st := in.(*ssa.Store)
				if core.Mentions(st.Val, func(v ssa.Value) bool {
					cc, ok := v.(*ssa.Call)
					return ok && strings.HasSuffix(core.CalleeName(cc), "ledger.getBlockJournal") && cd.h != nil && core.Strip(cc.Call.Args[0]) == ssa.Value(cd.h)
				}) {
					okRead = true
				}
			}
		}
		r.Check(okRead, "R12.4", "RollbackState: root taken from the target height's journal", c.P.Pos(rs.Pos()), "prevJnlHash = getBlockJournal(height).ChangedHash", "the root restored after a rollback is not the one recorded for the target height")
		// any other value (the zero hash) only for height 0, unless overwritten before returning
		fromTarget := func(v ssa.Value) bool {
			return core.Mentions(v, func(v ssa.Value) bool {
				cc, ok := v.(*ssa.Call)
				return ok && strings.HasSuffix(core.CalleeName(cc), "ledger.getBlockJournal") && hp != nil && core.Strip(cc.Call.Args[0]) == ssa.Value(hp)
			})
		}
		zeroH := condEdges(rs, func(f core.Fact, ifi *ssa.If) (bool, int) {
			if hp == nil {
				return false, 0
			}
			if f.Kind == core.FEqConst && f.Const == "0" && f.Field == "" && core.Strip(f.Subject) == ssa.Value(hp) {
				return true, holdsEdge(f)
			}
			if f.Kind == core.FCmp && (f.Op == token.EQL || f.Op == token.NEQ) {
				var other ssa.Value
				if f.Subject == ssa.Value(hp) {
					other = f.Other
				} else if f.Other == ssa.Value(hp) {
					other = f.Subject
				}
				if k, ok := core.ConstInt(other); ok && k == 0 {
					e := holdsEdge(f)
					if f.Op == token.NEQ {
						e = 1 - e
					}
					return true, e
				}
			}
			return false, 0
		})
		notZero := core.Reach([]core.Point{core.EntryOf(rs)}, nil, core.CutOf(zeroH))
		isPJ := storesToField("SimpleLedger", "prevJnlHash")
		for i, in := range sites(rs, isPJ) {
			st := in.(*ssa.Store)
			if fromTarget(st.Val) {
				continue
			}
			key := fmt.Sprintf("RollbackState: root not read from the target journal #%d only for height 0", i)
			if zeroH.Len() > 0 && !notZero.Has(in) {
				r.OK("R12.4", key, c.P.Pos(in.Pos()), "the empty root is stored only behind height == 0")
				continue
			}
			after := core.Reach([]core.Point{core.After(in)}, func(x ssa.Instruction) bool { return x != in && isPJ(x) }, nil)
			escapes := false
			for _, ret := range core.Returns(rs) {
				if after.Has(ret) {
					escapes = true
				}
			}
			r.Check(!escapes, "R12.4", key, c.P.Pos(in.Pos()), "overwritten with the target journal's root on every path before the return",
				"for a target height other than 0 a path returns with prevJnlHash set to something other than the root recorded for that height (a default in place of a missing journal): the next block's state root chains from the wrong value and diverges from the replicas that did not roll back")
		}
		// the refusal window: refuse exactly when minJnlHeight > height
		nWin := 0
		// the comparison may live in RollbackState or in a helper of the ledger that receives the height
		type hsite struct {
			fn *ssa.Function
			h  ssa.Value
		}
		var hs []hsite
		if hp != nil {
			hs = append(hs, hsite{rs, hp})
			for i := 0; i < len(hs) && i < 8; i++ {
				for _, call := range core.Calls(hs[i].fn) {
					g := core.StaticCallee(call)
					if g == nil || len(g.Blocks) == 0 || core.PkgOf(g) != ledgerPkg || g == rs {
						continue
					}
					args := call.Common().Args
					for ai, a := range args {
						if core.Strip(a) == hs[i].h && ai < len(g.Params) {
							hs = append(hs, hsite{g, g.Params[ai]})
						}
					}
				}
			}
		}
		var winBlocks []*ssa.BasicBlock
		hOf := map[*ssa.BasicBlock]ssa.Value{}
		for _, x := range hs {
			for _, b := range x.fn.Blocks {
				winBlocks = append(winBlocks, b)
				hOf[b] = x.h
			}
		}
		for _, b := range winBlocks {
			ifi := core.IfOf(b)
			if ifi == nil || hp == nil {
				continue
			}
			hv := hOf[b]
			f := core.CondFact(ifi.Cond)
			if f.Kind != core.FCmp {
				continue
			}
			off := func(v ssa.Value, isBase func(ssa.Value) bool) (int64, bool) {
				v = core.Strip(v)
				if isBase(v) {
					return 0, true
				}
				if bo, ok := v.(*ssa.BinOp); ok && (bo.Op == token.ADD || bo.Op == token.SUB) {
					if k, okk := core.ConstInt(bo.Y); okk && isBase(core.Strip(bo.X)) {
						if bo.Op == token.SUB {
							k = -k
						}
						return k, true
					}
					if k, okk := core.ConstInt(bo.X); okk && bo.Op == token.ADD && isBase(core.Strip(bo.Y)) {
						return k, true
					}
				}
				return 0, false
			}
			isMin := func(v ssa.Value) bool { _, fld, _, ok := core.FieldOf(v); return ok && fld == "minJnlHeight" }
			isH := func(v ssa.Value) bool { return v == hv }
			op := f.Op
			var a, bb int64 // (min + a) op (height + bb)
			a, okA := off(f.Subject, isMin)
			bb, okB := off(f.Other, isH)
			if !okA || !okB {
				// swapped operands: (height + bb) op (min + a)
				bb, okB = off(f.Subject, isH)
				a, okA = off(f.Other, isMin)
				if !okA || !okB {
					continue
				}
				switch op {
				case token.LSS:
					op = token.GTR
				case token.LEQ:
					op = token.GEQ
				case token.GTR:
					op = token.LSS
				case token.GEQ:
					op = token.LEQ
				}
			}
			// refusal holds when min - height > d (for GTR/GEQ), acceptance when min - height <= / < .. (LSS/LEQ are the complement)
			var d int64
			switch op {
			case token.GTR:
				d = bb - a
			case token.GEQ:
				d = bb - a - 1
			case token.LEQ: // min + a <= height + bb  <=> not (min - height > bb - a)
				d = bb - a
			case token.LSS: // min + a < height + bb <=> not (min - height > bb - a - 1)
				d = bb - a - 1
			default:
				continue
			}
			nWin++
			r.Check(d == 0, "R12.4", fmt.Sprintf("RollbackState: refusal window #%d is minJnlHeight > height", nWin), c.P.Pos(ifi.Cond.Pos()), "the target height's own journal is retained whenever the rollback is accepted",
				fmt.Sprintf("the comparison of the oldest retained journal height with the target is off by %d: a target whose journal record is no longer (or still) stored is accepted (or refused); the root of the target height cannot be re-read", d))
		}
		r.Floor("R12.4", "refusal comparisons minJnlHeight vs height", nWin, 1)
	}
}

// revertJournalWhole (R12.6 / R11.6): every path through revertJournal reaches the PrevStates loop and the CodeChanged test.
func (c *Ctx) revertJournalWhole(rule string) {
	r := c.R
	rj := c.fn(rule, "internal/ledger.revertJournal")
	if rj == nil {
		return
	}
	isStatesLoop := func(in ssa.Instruction) bool {
		rg, ok := in.(*ssa.Range)
		return ok && core.Mentions(rg.X, fieldNamed("PrevStates"))
	}
	isCodeTest := func(in ssa.Instruction) bool {
		ifi, ok := in.(*ssa.If)
		if !ok {
			return false
		}
		f := core.CondFact(ifi.Cond)
		return f.Kind == core.FBool && f.Field == "CodeChanged"
	}
	for _, step := range []struct {
		name string
		p    InstrPred
	}{{"the loop over PrevStates", isStatesLoop}, {"the test of CodeChanged", isCodeTest}} {
		rs := core.Reach([]core.Point{core.EntryOf(rj)}, step.p, nil)
		skipped := false
		for _, ret := range core.Returns(rj) {
			if rs.Has(ret) {
				skipped = true
			}
		}
		r.Check(len(sites(rj, step.p)) > 0 && !skipped, rule, "revertJournal: every path reaches "+step.name, c.P.Pos(rj.Pos()), "no return before it",
			"a path through revertJournal returns before "+step.name+": for such a journal entry (e.g. an account created in the block) the storage keys / code written by the block are not removed, and the rolled-back state differs from the state of that height")
	}
}

// c12JournalKeys: R12.8 (shared with C11 as R11.7).
func (c *Ctx) c12JournalKeys(rule string) {
	r := c.R
	mj := c.P.Fn("internal/ledger.(*blockJournalEntry).MarshalJSON")
	uj := c.P.Fn("internal/ledger.(*blockJournalEntry).UnmarshalJSON")
	key := "blockJournalEntry: state keys survive the stored form"
	// the premise: the journal is written with encoding/json and PrevStates is a string-keyed map
	viaJSON := false
	if commit := c.P.Fn("internal/ledger.(*SimpleLedger).Commit"); commit != nil {
		for _, rf := range c.regionOf(commit, 1) {
			for _, call := range core.Calls(rf.fn) {
				if core.CalleeName(call) == "encoding/json.Marshal" {
					viaJSON = true
				}
			}
		}
	} else {
		r.Anchor(rule, "internal/ledger.(*SimpleLedger).Commit")
		return
	}
	if !viaJSON {
		r.Note(rule, key, "", "the block journal is no longer stored through encoding/json: the key codec obligation does not apply")
		return
	}
	if mj == nil || uj == nil {
		r.Bad(rule, key, c.P.Pos(c.P.Fn("internal/ledger.(*SimpleLedger).Commit").Pos()), "the block journal is stored with json.Marshal and its entries record previous values in a map keyed by the raw state key, but the entry type has no MarshalJSON / UnmarshalJSON of its own: encoding/json replaces every invalid UTF-8 byte of a map key by U+FFFD, so the previous value of an EVM storage slot is journaled under another key and a rollback neither restores nor deletes the slot")
		return
	}
	valid := condEdges(mj, func(f core.Fact, ifi *ssa.If) (bool, int) {
		if f.Kind != core.FBool {
			return false, 0
		}
		cc, ok := core.Strip(f.Subject).(*ssa.Call)
		if !ok || core.CalleeName(cc) != "unicode/utf8.ValidString" {
			return false, 0
		}
		return true, holdsEdge(f)
	})
	isRawKeyStore := func(in ssa.Instruction) bool {
		mu, ok := in.(*ssa.MapUpdate)
		if !ok || !strings.HasPrefix(mu.Map.Type().String(), "map[string]") {
			return false
		}
		return !core.Mentions(mu.Key, func(w ssa.Value) bool {
			cc, ok := w.(*ssa.Call)
			return ok && core.CalleeName(cc) == "encoding/hex.EncodeToString"
		})
	}
	n := c.behindEdges(rule, "blockJournalEntry.MarshalJSON", mj, valid, isRawKeyStore, "utf8.ValidString(key)", "unencoded key put into the stored map")
	r.Floor(rule, "unencoded key stores in MarshalJSON", n, 1)
	hasDecode := false
	for _, call := range core.Calls(uj) {
		if core.CalleeName(call) == "encoding/hex.DecodeString" {
			hasDecode = true
		}
	}
	hasEncode := false
	for _, call := range core.Calls(mj) {
		if core.CalleeName(call) == "encoding/hex.EncodeToString" {
			hasEncode = true
		}
	}
	r.Check(hasDecode && hasEncode, rule, key, c.P.Pos(mj.Pos()), "keys that are not valid UTF-8 are hex-encoded on write and hex-decoded on read", "the writer and the reader of the journal's stored form do not use inverse encodings for keys that are not valid UTF-8")
}
