package rules

import (
	"fmt"
	"go/token"
	"go/types"
	"sort"
	"strings"

	"bxhlint/core"

	"golang.org/x/tools/go/ssa"
)

// removalCallees: the index-removal calls found in fn and its closures, as
// "<callee> on <index field>".
func removalCallees(fn *ssa.Function) []string {
	set := map[string]bool{}
	seen := map[*ssa.Function]bool{}
	var walk func(fn *ssa.Function, d int)
	walk = func(fn *ssa.Function, d int) {
		if seen[fn] || d > 2 {
			return
		}
		seen[fn] = true
		for _, f := range core.WithClosures(fn) {
			for _, call := range core.Calls(f) {
				o := core.CalleeObj(call)
				if o == nil {
					continue
				}
				if !strings.HasPrefix(o.Name(), "removeBy") {
					// the removals may sit in a helper of the pool (extracted per-account clean-up)
					if g := core.StaticCallee(call); g != nil && len(g.Blocks) > 0 && core.PkgOf(g) == core.PkgOf(fn) {
						walk(g, d+1)
					}
					continue
				}
				field := "?"
				if rv := core.Receiver(call); rv != nil {
					if _, fld, _, ok := core.FieldOf(rv); ok {
						field = fld
					}
				}
				set[o.Name()+" on "+field] = true
			}
		}
	}
	walk(fn, 0)
	var out []string
	for k := range set {
		out = append(out, k)
	}
	sort.Strings(out)
	return out
}

// C19: the pool neither loses accepted transactions nor misreports its content.
func C19(c *Ctx) {
	r := c.R
	r.Rule("R19.1", "eviction guard: in RemoveAliveTimeoutTxs a transaction is recorded for removal (and its hash dropped) only across: older than the tolerance, not in batchedTxs, not in the priority (ready) index, present in the parking-lot index.")
	r.Rule("R19.2", "per-account scoping: inside a loop over a per-account map (account -> txs), a removal applied to a structure that belongs to one account (obtained by looking the loop's account up) receives only that account's transactions: the map handed to it is made in the same iteration, not the ranged map itself and not a map defined before the loop that collects the entries of several accounts.")
	r.Rule("R19.3", "index pairing: the commit path and the eviction path remove a transaction from the same set of indices (per-account nonce index, priority, parking lot, ttl, arrival-time) and both drop its hash from txHashMap.")
	r.Rule("R19.4", "ready counter: priorityNonBatchSize is written only in processDirtyAccount (+ number of newly ready), generateBlock (- batch length, reset) and processCommitTransactions (clamped to exactly priorityIndex.size(), no arithmetic on the bound), and HasPendingRequest reports exactly counter > 0.")
	r.Rule("R19.5", "index key agreement: every probe / removal on one of the pool's ordered indices builds its key the way the insertions into that index do (same key type; for timestamped keys the same timestamp source: the transaction's own timestamp vs. a recorded local time); an index wrapper that records the time of its keys in a side map (items) deletes an entry under the time it looked up there, never under a new one.")
	c.c19KeyAgreement()
	c.c19RecordedKey()
	r.Rule("R19.6", "one index entry per slot: an index wrapper keyed by (account, nonce, time) that records the time in a side map (items) replaces nothing when the same slot is inserted with a new time (the btree key differs). Its raw insertion (ReplaceOrInsert + items[slot] = time without looking the slot up) is therefore called only where the old entry of the slot has been taken out: on every path to the call an index.Delete was executed, or the items lookup of the slot answered 'absent'. Otherwise a superseded transaction leaves its entry behind, the eviction sweep resolves it to the replacement and evicts the young replacement with the old one's age.")
	c.c19RawInsert()
	r.Rule("R19.7", "the per-account store follows its nonce index: wherever transactions are taken out of an account's nonce index (index.removeBySortedNonceKey) they also leave that account's items map - the set handed to the removal is the result of forward() (which deletes from items as it collects), also through parameters of helpers / closures, or the same function deletes them from items. An entry left in items is found again when the same transaction is re-admitted and is taken for a superseded one.")
	c.c19ItemsFollowIndex()
	c.c19HandedOver()
	r.NotDecided = append(r.NotDecided, "liveness ('included in one of the next batches'); side maps that are not indices (allTxs[account].items after an eviction, seed C19-r9); drift of the counter over histories; goroutine confinement of the pool (see C20 R20.5)")

	ra := c.fn("R19.1", mpPrefix+"RemoveAliveTimeoutTxs")
	if ra != nil {
		n := 0
		for _, f := range core.WithClosures(ra) {
			isRemoval := or(func(in ssa.Instruction) bool {
				// a get-or-create helper that appends to the per-account map it receives (appendAccountTx(m, account, tx))
				if call, isCall := in.(ssa.CallInstruction); isCall {
					h := core.StaticCallee(call)
					if h == nil || len(h.Blocks) == 0 || core.PkgOf(h) != core.PkgOf(ra) {
						return false
					}
					for _, b := range h.Blocks {
						for _, x := range b.Instrs {
							if mu, ok := x.(*ssa.MapUpdate); ok && strings.Contains(mu.Map.Type().String(), "map[string][]") && strings.Contains(mu.Map.Type().String(), "pb.Transaction") {
								if _, isPar := core.Strip(mu.Map).(*ssa.Parameter); isPar {
									return true
								}
							}
						}
					}
					return false
				}
				mu, ok := in.(*ssa.MapUpdate)
				if !ok || !strings.Contains(mu.Map.Type().String(), "map[string][]") || !strings.Contains(mu.Map.Type().String(), "pb.Transaction") {
					return false
				}
				// the accumulation of transactions to remove: m[k] = make(..) / m[k] = append(m[k], tx)
				switch x := core.Strip(mu.Value).(type) {
				case *ssa.MakeSlice:
					return true
				case *ssa.Call:
					b, isB := x.Call.Value.(*ssa.Builtin)
					return isB && b.Name() == "append"
				}
				return false
			}, func(in ssa.Instruction) bool {
				call, ok := in.(ssa.CallInstruction)
				if !ok {
					return false
				}
				b, ok := call.Common().Value.(*ssa.Builtin)
				return ok && b.Name() == "delete" && core.Mentions(call.Common().Args[0], fieldNamed("txHashMap"))
			})
			if len(sites(f, isRemoval)) == 0 {
				continue
			}
			age := condEdges(f, func(fc core.Fact, ifi *ssa.If) (bool, int) {
				bo, ok := ifi.Cond.(*ssa.BinOp)
				if !ok {
					return false, 0
				}
				isAge := func(v ssa.Value) bool { return core.Mentions(v, fieldNamed("timestamp")) }
				isTol := func(v ssa.Value) bool {
					return core.Mentions(v, func(w ssa.Value) bool {
						cc, ok := w.(*ssa.Call)
						return ok && core.CalleeName(cc) == "(time.Duration).Nanoseconds"
					})
				}
				// the edge on which age > tolerance (or >=) holds, in any of the four spellings
				switch {
				case (bo.Op == token.GTR || bo.Op == token.GEQ) && isAge(bo.X) && isTol(bo.Y):
					return true, 0
				case (bo.Op == token.LEQ || bo.Op == token.LSS) && isAge(bo.X) && isTol(bo.Y):
					return true, 1
				case (bo.Op == token.LSS || bo.Op == token.LEQ) && isTol(bo.X) && isAge(bo.Y):
					return true, 0
				case (bo.Op == token.GEQ || bo.Op == token.GTR) && isTol(bo.X) && isAge(bo.Y):
					return true, 1
				}
				return false, 0
			})
			n += c.behindEdges("R19.1", "RemoveAliveTimeoutTxs", f, age, isRemoval, "age > tolerance", "eviction")
			c.behindEdges("R19.1", "RemoveAliveTimeoutTxs", f, lookupEdges(f, mentionsField("batchedTxs"), false), isRemoval, "not in batchedTxs", "eviction")
			// btree Get on priorityIndex == nil ; parkingLotIndex != nil
			getEdges := func(field string, wantNil bool) core.EdgeSet {
				return condEdges(f, func(fc core.Fact, ifi *ssa.If) (bool, int) {
					if fc.Kind != core.FNil {
						return false, 0
					}
					cc, ok := core.Strip(fc.Subject).(*ssa.Call)
					if !ok || core.CalleeName(cc) != "(*github.com/google/btree.BTree).Get" || !core.Mentions(cc.Call.Args[0], fieldNamed(field)) {
						return false, 0
					}
					if wantNil {
						return true, holdsEdge(fc)
					}
					return true, 1 - holdsEdge(fc)
				})
			}
			c.behindEdges("R19.1", "RemoveAliveTimeoutTxs", f, getEdges("priorityIndex", true), isRemoval, "not in the ready (priority) index", "eviction")
			c.behindEdges("R19.1", "RemoveAliveTimeoutTxs", f, getEdges("parkingLotIndex", false), isRemoval, "present in the parking-lot index", "eviction")
		}
		r.Floor("R19.1", "eviction sites", n, 2) // the record for removal and the hash drop (3 on the pinned tree: make, append, delete)
	}

	// R19.2
	nScoped := 0
	for _, spec := range []string{mpPrefix + "RemoveAliveTimeoutTxs", mpPrefix + "processCommitTransactions"} {
		fn := c.fn("R19.2", spec)
		if fn == nil {
			continue
		}
		// range loops over a map in fn
		for _, b := range fn.Blocks {
			for _, in := range b.Instrs {
				rg, ok := in.(*ssa.Range)
				if !ok {
					continue
				}
				if _, isMap := rg.X.Type().Underlying().(interface{ Key() interface{} }); isMap {
					_ = isMap
				}
				ranged := rg.X
				// go statements / calls in the loop body passing `ranged` itself
				for _, bb := range fn.Blocks {
					for _, x := range bb.Instrs {
						g, ok := x.(*ssa.Go)
						if !ok {
							continue
						}
						mc, ok := g.Call.Value.(*ssa.MakeClosure)
						if !ok {
							continue
						}
						cl := mc.Fn.(*ssa.Function)
						// the goroutine is launched inside this loop
						var header *ssa.BasicBlock
						if rg.Referrers() != nil {
							for _, ref := range *rg.Referrers() {
								if nx, ok := ref.(*ssa.Next); ok {
									header = nx.Block()
								}
							}
						}
						if header == nil || !blockReach(header, g.Block()) || !blockReach(g.Block(), header) {
							continue
						}
						for ai, a := range g.Call.Args {
							// an account -> txs map that is not made in this iteration: the ranged map itself, or a map defined
							// before the loop (possibly filled across iterations)
							if _, isMap := a.Type().Underlying().(*types.Map); !isMap {
								continue
							}
							outside := false
							for _, val := range varValues(fn, a) {
								for _, o := range core.RetOrigins(val) {
									switch d := core.Strip(o.V).(type) {
									case ssa.Instruction:
										if !blockReach(header, d.Block()) {
											outside = true
										}
									default:
										outside = true
									}
								}
							}
							if !outside && !sameValue(a, ranged) {
								continue
							}
							if ai >= len(cl.Params) {
								continue
							}
							param := cl.Params[ai]
							// inside the closure: calls receiving param whose receiver is rooted at a captured per-account object
							for _, call := range core.Calls(cl) {
								uses := false
								for _, ca := range call.Common().Args {
									if core.Strip(ca) == ssa.Value(param) {
										uses = true
									}
								}
								if !uses {
									continue
								}
								rv := core.Receiver(call)
								perAccount := false
								if rv != nil {
									root := rootObject(rv)
									if fv, ok := root.(*ssa.FreeVar); ok {
										// binding derives from a lookup keyed by the range key
										for i, f2 := range cl.FreeVars {
											if f2 == fv && i < len(mc.Bindings) {
												for _, val := range varValues(fn, mc.Bindings[i]) {
													if core.Mentions(val, func(v ssa.Value) bool {
														lk, ok := v.(*ssa.Lookup)
														if !ok {
															return false
														}
														over, idx, ok2 := rangeOver(lk.Index)
														return ok2 && idx == 1 && (sameValue(over, ranged) || core.VarIdentity(over) != nil && core.VarIdentity(over) == core.VarIdentity(ranged))
													}) {
														perAccount = true
													}
												}
											}
										}
									}
								}
								if perAccount {
									nScoped++
									r.Bad("R19.2", shortFnName(spec)+": "+shortCallee(call)+" on a per-account structure", c.P.Pos(call.Pos()),
										"inside the loop over all accounts a structure that belongs to the loop's account receives the whole account->txs map: entries of other accounts (same nonces) are removed from this account's index, so a held transaction with that nonce is never promoted")
								}
							}
						}
					}
				}
				_ = rg
			}
		}
	}
	if nScoped == 0 {
		r.OK("R19.2", "per-account structures receive per-account data", "", "no per-account removal is fed the whole account map")
	}

	// R19.3
	pc := c.fn("R19.3", mpPrefix+"processCommitTransactions")
	if ra != nil && pc != nil {
		a, b := removalCallees(pc), removalCallees(ra)
		r.Check(strings.Join(a, ";") == strings.Join(b, ";") && len(a) >= 5, "R19.3", "commit and eviction remove from the same indices", c.P.Pos(pc.Pos()), strings.Join(a, "; "),
			"commit path removes {"+strings.Join(a, "; ")+"}, eviction path removes {"+strings.Join(b, "; ")+"}: an index keeps entries of transactions that are gone (or the reverse)")
		for _, fn := range []*ssa.Function{pc, ra} {
			has := false
			for _, f := range core.WithClosures(fn) {
				for _, call := range core.Calls(f) {
					if bn, ok := call.Common().Value.(*ssa.Builtin); ok && bn.Name() == "delete" && core.Mentions(call.Common().Args[0], fieldNamed("txHashMap")) {
						has = true
					}
				}
			}
			r.Check(has, "R19.3", shortFn(fn)+": hash dropped with the transaction", c.P.Pos(fn.Pos()), "delete(txHashMap, hash)", "the hash index keeps transactions that were removed from the pool (GetTransaction / IsPoolFull misreport)")
		}
	}

	// R19.4
	allowed := map[string]bool{"processDirtyAccount": true, "generateBlock": true, "processCommitTransactions": true}
	nw := 0
	for _, fn := range c.P.ModuleFuncs(true) {
		if core.PkgOf(fn) != "pkg/order/mempool" {
			continue
		}
		for _, in := range sites(fn, storesToField("transactionStore", "priorityNonBatchSize")) {
			nw++
			top := fn
			for top.Parent() != nil {
				top = top.Parent()
			}
			r.Check(allowed[top.Name()] || c.onlyCalledFrom(top, func(f *ssa.Function) bool { return allowed[f.Name()] }), "R19.4", shortFn(fn)+": ready-counter writer", c.P.Pos(in.Pos()), "one of the three bookkeeping functions", "the ready counter is written outside promote / batch / commit bookkeeping")
			st := in.(*ssa.Store)
			switch top.Name() {
			case "processDirtyAccount":
				ok := false
				if bo, isBo := st.Val.(*ssa.BinOp); isBo && bo.Op == token.ADD && mentionsField("priorityNonBatchSize")(bo.X) {
					ok = core.Mentions(bo.Y, func(v ssa.Value) bool {
						cc, isC := v.(*ssa.Call)
						if !isC {
							return false
						}
						bn, isB := cc.Call.Value.(*ssa.Builtin)
						return isB && bn.Name() == "len" && core.Mentions(cc.Call.Args[0], func(x ssa.Value) bool {
							ex, isE := x.(*ssa.Extract)
							if !isE || ex.Index != 0 {
								return false
							}
							fc, isF := ex.Tuple.(*ssa.Call)
							return isF && strings.HasSuffix(core.CalleeName(fc), "txSortedMap).filterReady")
						})
					})
				}
				r.Check(ok, "R19.4", "processDirtyAccount: counter += len(newly ready)", c.P.Pos(in.Pos()), "adds the number of transactions filterReady promoted", "the ready counter is not advanced by the number of promoted transactions")
			case "processCommitTransactions":
				ok := core.Mentions(st.Val, func(v ssa.Value) bool {
					cc, isC := v.(*ssa.Call)
					return isC && strings.HasSuffix(core.CalleeName(cc), "btreeIndex).size") && core.Mentions(cc.Call.Args[0], fieldNamed("priorityIndex"))
				})
				// the bound is the size itself, not an expression over it
				isSize := func(v ssa.Value) bool {
					for i := 0; i < 4; i++ {
						if cv, isCv := v.(*ssa.Convert); isCv {
							v = cv.X
							continue
						}
						break
					}
					cc, isC := core.Strip(v).(*ssa.Call)
					return isC && strings.HasSuffix(core.CalleeName(cc), "btreeIndex).size") && core.Mentions(cc.Call.Args[0], fieldNamed("priorityIndex"))
				}
				exact := isSize(st.Val)
				if cc, isC := core.Strip(st.Val).(*ssa.Call); isC && !exact {
					if bn, isB := cc.Call.Value.(*ssa.Builtin); isB && bn.Name() == "min" {
						exact = true
						for _, a := range cc.Call.Args {
							if !isSize(a) && !mentionsField("priorityNonBatchSize")(a) {
								exact = false
							}
						}
					}
				}
				r.Check(ok && exact, "R19.4", "processCommitTransactions: counter clamped to the ready index size", c.P.Pos(in.Pos()), "counter = priorityIndex.size() when larger", "after a commit the ready counter is not bounded by exactly the number of ready transactions (priorityIndex.size()): a smaller bound hides ready transactions from HasPendingRequest - no batch is cut for them -, a larger one reports transactions that do not exist")
			}
		}
	}
	r.Floor("R19.4", "ready-counter writers", nw, 4)
	if hp := c.fn("R19.4", mpPrefix+"HasPendingRequest"); hp != nil {
		ok := false
		for _, ret := range core.Returns(hp) {
			if bo, isBo := ret.Results[0].(*ssa.BinOp); isBo && bo.Op == token.GTR && mentionsField("priorityNonBatchSize")(bo.X) {
				if z, isZ := core.ConstInt(bo.Y); isZ && z == 0 {
					ok = true
				}
			}
		}
		r.Check(ok, "R19.4", "HasPendingRequest = counter > 0", c.P.Pos(hp.Pos()), "reports the ready counter", "HasPendingRequest does not report the ready counter")
	}
	_ = fmt.Sprintf
}

// blockReach: to is reachable from from through CFG successors (from itself included).
func blockReach(from, to *ssa.BasicBlock) bool {
	seen := map[*ssa.BasicBlock]bool{}
	var walk func(b *ssa.BasicBlock) bool
	walk = func(b *ssa.BasicBlock) bool {
		if b == to {
			return true
		}
		if seen[b] {
			return false
		}
		seen[b] = true
		for _, s := range b.Succs {
			if walk(s) {
				return true
			}
		}
		return false
	}
	return walk(from)
}

// c19ItemsFollowIndex: R19.7.
func (c *Ctx) c19ItemsFollowIndex() {
	r := c.R
	n := 0
	isForward := func(v ssa.Value) bool {
		cc, ok := core.Strip(v).(*ssa.Call)
		return ok && strings.HasSuffix(core.CalleeName(cc), "txSortedMap).forward")
	}
	var fromForward func(v ssa.Value, d int) bool
	fromForward = func(v ssa.Value, d int) bool {
		if d > 3 {
			return false
		}
		if isForward(v) {
			return true
		}
		if id := core.VarIdentity(v); id != nil {
			if al, ok := id.(*ssa.Alloc); ok {
				st := core.StoresInto(al)
				if len(st) == 0 {
					return false
				}
				for _, sv := range st {
					if !fromForward(sv, d+1) {
						return false
					}
				}
				return true
			}
		}
		if p, ok := core.Strip(v).(*ssa.Parameter); ok {
			fn := p.Parent()
			idx := -1
			for i, q := range fn.Params {
				if q == p {
					idx = i
				}
			}
			ss := core.StaticSitesOf(fn)
			if idx < 0 || len(ss) == 0 {
				return false
			}
			for _, site := range ss {
				args := site.Common().Args
				if idx >= len(args) || !fromForward(args[idx], d+1) {
					return false
				}
			}
			return true
		}
		return false
	}
	deletesItems := func(f *ssa.Function) bool {
		for g := f; g != nil; g = g.Parent() {
			for _, call := range core.Calls(g) {
				b, ok := call.Common().Value.(*ssa.Builtin)
				if !ok || b.Name() != "delete" || len(call.Common().Args) == 0 {
					continue
				}
				if o, fld, _, ok := core.FieldOf(call.Common().Args[0]); ok && fld == "items" && strings.HasSuffix(o, "txSortedMap") {
					return true
				}
			}
		}
		return false
	}
	for _, fn := range c.P.ModuleFuncs(true) {
		if core.PkgOf(fn) != "pkg/order/mempool" {
			continue
		}
		for _, call := range core.Calls(fn) {
			if !strings.HasSuffix(core.CalleeName(call), "btreeIndex).removeBySortedNonceKey") {
				continue
			}
			// only the per-account nonce index (a field `index` of txSortedMap)
			if o, fld, _, ok := core.FieldOf(core.Receiver(call)); !ok || fld != "index" || !strings.HasSuffix(o, "txSortedMap") {
				continue
			}
			args := call.Common().Args
			if len(args) == 0 {
				continue
			}
			n++
			okA := fromForward(args[len(args)-1], 0)
			okB := deletesItems(fn)
			if !okA && !okB {
				// the removed set travels in a context struct (cleanup.own): decided per way the function is reached
				okA = c.c19SetOK(fn, args[len(args)-1], fromForward, deletesItems, 0)
			}
			top := fn
			for top.Parent() != nil {
				top = top.Parent()
			}
			r.Check(okA || okB, "R19.7", fmt.Sprintf("%s: removal from the nonce index #%d also empties items", shortFn(top), n), c.P.Pos(call.Pos()),
				"the removed set comes from forward() or the function deletes the entries from items",
				"transactions are taken out of an account's nonce index but stay in its items map: when the same transaction is delivered again (rebroadcast, client retry) insertTxs finds the stale entry under its nonce, treats the new arrival as superseding it and drops bookkeeping of the live transaction (its hash), which then can neither be looked up nor committed")
		}
	}
	r.Floor("R19.7", "removals from per-account nonce indices", n, 1)
}

// c19SetOK: the set v handed to the nonce-index removal in fn is, on every way fn is reached, either the result of
// forward() or removed from items by the function that built it. v may be a field of a context struct that fn
// receives (parameter / receiver, also as receiver of a method value).
func (c *Ctx) c19SetOK(fn *ssa.Function, v ssa.Value, fromForward func(ssa.Value, int) bool, deletesItems func(*ssa.Function) bool, depth int) bool {
	if depth > 3 {
		return false
	}
	if fromForward(v, 0) || deletesItems(fn) {
		return true
	}
	u, ok := v.(*ssa.UnOp)
	if !ok {
		return false
	}
	fa, ok := u.X.(*ssa.FieldAddr)
	if !ok {
		return false
	}
	par, ok := fa.X.(*ssa.Parameter)
	if !ok || par.Parent() != fn {
		return false
	}
	pi := -1
	for i, q := range fn.Params {
		if q == par {
			pi = i
		}
	}
	if pi < 0 {
		return false
	}
	// the value of that field in the struct a context hands over
	fieldOf := func(holder ssa.Value, in *ssa.Function) (ssa.Value, bool) {
		switch a := core.Strip(holder).(type) {
		case *ssa.Alloc:
			for _, rf := range *a.Referrers() {
				f2, ok := rf.(*ssa.FieldAddr)
				if !ok || f2.X != ssa.Value(a) || f2.Field != fa.Field {
					continue
				}
				for _, rr := range *f2.Referrers() {
					if st, ok := rr.(*ssa.Store); ok && st.Addr == ssa.Value(f2) {
						return st.Val, true
					}
				}
			}
		case *ssa.Parameter:
			// handed on: the same field of the caller's own context parameter
			nf := &ssa.FieldAddr{X: a, Field: fa.Field}
			return &ssa.UnOp{Op: token.MUL, X: nf}, true
		}
		return nil, false
	}
	contexts := 0
	for _, site := range core.StaticSitesOf(fn) {
		contexts++
		g := site.Parent()
		if deletesItems(g) {
			continue
		}
		if pi >= len(site.Common().Args) {
			return false
		}
		val, ok := fieldOf(site.Common().Args[pi], g)
		if !ok || !c.c19SetOK(g, val, fromForward, deletesItems, depth+1) {
			return false
		}
	}
	if pi == 0 {
		for _, recv := range core.BoundReceiversOf(fn) {
			contexts++
			var h *ssa.Function
			if in, ok := recv.(ssa.Instruction); ok {
				h = in.Parent()
			}
			if h == nil {
				return false
			}
			if deletesItems(h) {
				continue
			}
			val, ok := fieldOf(recv, h)
			if !ok || !c.c19SetOK(h, val, fromForward, deletesItems, depth+1) {
				return false
			}
		}
	}
	return contexts > 0
}
