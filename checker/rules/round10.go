package rules

import (
	"go/token"
	"go/types"
	"os"
	"strconv"
	"strings"

	"bxhlint/core"

	"golang.org/x/tools/go/ssa"
)

// Rules added after seeding round 10. Each is called from the property function that owns it.

// ---------------------------------------------------------------------------------------------------------------------
// R08.11: the count announced to a WaitGroup is the number of joins. For every (*sync.WaitGroup).Add of the module:
//   - Add ahead of a loop that starts the workers: every iteration of that loop passes through a spawn (a go statement
//     whose body signals Done) or a direct Done, and the loop's bound is the announced count;
//   - Add inside the loop / Add(1): every path from the Add to the end of the iteration or to the Wait passes a spawn.
// An iteration that skips its spawn after the count has been announced leaves Wait blocked for ever.

func isWGCall(in ssa.Instruction, name string) bool {
	call, ok := in.(ssa.CallInstruction)
	return ok && core.CalleeName(call) == "(*sync.WaitGroup)."+name
}

// signalsDone: the goroutine / deferred / called function (closures included, helpers to depth 2) calls WaitGroup.Done.
func signalsDone(fn *ssa.Function, depth int) bool {
	if fn == nil || depth > 2 {
		return false
	}
	for _, f := range core.WithClosures(fn) {
		for _, call := range core.Calls(f) {
			if core.CalleeName(call) == "(*sync.WaitGroup).Done" {
				return true
			}
			if g := core.StaticCallee(call); g != nil && g != f && core.TheProg != nil && core.TheProg.InModule(g) && signalsDone(g, depth+1) {
				return true
			}
		}
	}
	return false
}

func isJoinSource(in ssa.Instruction) bool {
	if isWGCall(in, "Done") {
		return true
	}
	if g, ok := in.(*ssa.Go); ok {
		cl, _ := goBody(g)
		return signalsDone(cl, 0)
	}
	return false
}

// loopAround: the innermost natural loop (header, blocks) around block sb; nil when sb lies on no cycle.
func loopAround(sb *ssa.BasicBlock) (*ssa.BasicBlock, map[*ssa.BasicBlock]bool) {
	fn := sb.Parent()
	var h *ssa.BasicBlock
	for _, d := range fn.Blocks {
		if !d.Dominates(sb) {
			continue
		}
		back := false
		for _, s := range sb.Succs {
			if blockReachWithin(s, d, d) {
				back = true
			}
		}
		if !back {
			continue
		}
		if h == nil || h.Dominates(d) {
			h = d
		}
	}
	if h == nil {
		return nil, nil
	}
	L := map[*ssa.BasicBlock]bool{h: true}
	for _, b := range fn.Blocks {
		if b == h || !h.Dominates(b) {
			continue
		}
		for _, s := range b.Succs {
			if s == h || blockReachWithin(s, h, h) {
				L[b] = true
			}
		}
	}
	return h, L
}

// blockReachWithin: to is reachable from from along blocks dominated by dom (to itself need not be left).
func blockReachWithin(from, to, dom *ssa.BasicBlock) bool {
	seen := map[*ssa.BasicBlock]bool{}
	var walk func(b *ssa.BasicBlock) bool
	walk = func(b *ssa.BasicBlock) bool {
		if b == to {
			return true
		}
		if seen[b] || !dom.Dominates(b) {
			return false
		}
		seen[b] = true
		for _, s := range b.Succs {
			if walk(s) {
				return true
			}
		}
		return false
	}
	return walk(from)
}

// sameCount: two SSA values denote the same count (the same value, len of the same value, loads of the same variable).
func sameCount(a, b ssa.Value, depth int) bool {
	if a == b {
		return true
	}
	if depth > 4 {
		return false
	}
	if ca, ok := a.(*ssa.Convert); ok {
		return sameCount(ca.X, b, depth+1)
	}
	if cb, ok := b.(*ssa.Convert); ok {
		return sameCount(a, cb.X, depth+1)
	}
	if ka, ok := a.(*ssa.Const); ok {
		kb, ok2 := b.(*ssa.Const)
		return ok2 && ka.Value != nil && kb.Value != nil && ka.Value.ExactString() == kb.Value.ExactString()
	}
	if ca, ok := a.(*ssa.Call); ok {
		cb, ok2 := b.(*ssa.Call)
		if !ok2 {
			return false
		}
		ba, ok3 := ca.Call.Value.(*ssa.Builtin)
		bb, ok4 := cb.Call.Value.(*ssa.Builtin)
		if ok3 || ok4 {
			return ok3 && ok4 && ba.Name() == "len" && bb.Name() == "len" && sameCount(ca.Call.Args[0], cb.Call.Args[0], depth+1)
		}
		// the same expression written twice (len(p.OtherPeers()) ... range p.OtherPeers()): same callee, same operands
		if core.CalleeName(ca) != core.CalleeName(cb) || len(ca.Call.Args) != len(cb.Call.Args) || (ca.Call.IsInvoke() != cb.Call.IsInvoke()) {
			return false
		}
		if ca.Call.IsInvoke() && !sameCount(ca.Call.Value, cb.Call.Value, depth+1) {
			return false
		}
		for i := range ca.Call.Args {
			if !sameCount(ca.Call.Args[i], cb.Call.Args[i], depth+1) {
				return false
			}
		}
		return true
	}
	if ua, ok := a.(*ssa.UnOp); ok && ua.Op == token.MUL {
		ub, ok2 := b.(*ssa.UnOp)
		if !ok2 || ub.Op != token.MUL {
			return false
		}
		if ua.X == ub.X {
			return true
		}
		if fa, ok := ua.X.(*ssa.FieldAddr); ok {
			if fb, ok := ub.X.(*ssa.FieldAddr); ok && fa.Field == fb.Field && sameCount(fa.X, fb.X, depth+1) {
				return true
			}
		}
		oa, fa, ba, oka := core.FieldOf(ua.X)
		ob, fb, bb, okb := core.FieldOf(ub.X)
		return oka && okb && oa == ob && fa == fb && core.Strip(ba) == core.Strip(bb)
	}
	if pa, ok := a.(*ssa.Phi); ok {
		// if n < k { g = n } else { g = k }: both sides see the same phi only when identical (handled above)
		_ = pa
	}
	return false
}

func (c *Ctx) c08WaitBalance() {
	r := c.R
	r.Rule("R08.11", "the count announced to a WaitGroup is the number of joins: a (*sync.WaitGroup).Add ahead of the loop that starts the workers is followed, in every iteration of that loop, by a spawn whose body signals Done (or by a direct Done), (where the loop's bound is structurally the announced count this is recorded, otherwise the equality of the two is noted as not decided); an Add inside the loop reaches its spawn on every path of the iteration. An iteration that skips the spawn after the count was announced (an empty group, a filtered element) leaves Wait - and with it block execution - blocked for ever.")
	n := 0
	for _, fn := range c.P.ModuleFuncs(true) {
		k := 0
		for _, call := range core.Calls(fn) {
			if !isWGCall(call, "Add") || len(call.Common().Args) < 2 {
				continue
			}
			cnt := call.Common().Args[1]
			n++
			k++
			key := shortFn(fn) + ": WaitGroup.Add #" + strconv.Itoa(k)
			// spawns of this function
			var spawns []ssa.Instruction
			for _, b := range fn.Blocks {
				for _, in := range b.Instrs {
					if isJoinSource(in) {
						spawns = append(spawns, in)
					}
				}
			}
			if len(spawns) == 0 {
				// a wrapper type around the WaitGroup (utils.Pool.Add): the count is announced on behalf of the caller
				n--
				continue
			}
			// the workers this count is announced for: the spawns reached before the next Add / Wait
			upTo := core.Reach([]core.Point{core.After(call)}, func(in ssa.Instruction) bool {
				return isWGCall(in, "Wait") || (isWGCall(in, "Add") && in != ssa.Instruction(call))
			}, nil)
			var mine []ssa.Instruction
			for _, s := range spawns {
				if upTo.Has(s) {
					mine = append(mine, s)
				}
			}
			spawns = mine
			barrier := func(in ssa.Instruction) bool { return isJoinSource(in) }
			bad := ""
			for _, s := range spawns {
				h, L := loopAround(s.Block())
				if h == nil {
					continue
				}
				inLoop := L[call.Block()]
				cut := func(b *ssa.BasicBlock, si int) bool { return !L[b.Succs[si]] }
				var starts []core.Point
				if inLoop {
					starts = []core.Point{core.After(call)}
				} else {
					for _, sc := range h.Succs {
						if L[sc] {
							starts = append(starts, core.Point{B: sc, Idx: 0})
						}
					}
				}
				rs := core.Reach(starts, barrier, cut)
				if len(h.Instrs) > 0 && rs.Has(h.Instrs[0]) {
					bad = "an iteration of the loop at " + c.P.Pos(h.Instrs[0].Pos()) + " can end without starting its worker (" + rs.Witness(c.P, h.Instrs[0]) + ")"
					break
				}
				if !inLoop {
					// the loop runs the announced number of times
					okBound := false
					for _, hin := range h.Instrs {
						// range over a map: the iterated value is the one whose length was announced
						if nx, ok := hin.(*ssa.Next); ok {
							if rg, ok := nx.Iter.(*ssa.Range); ok {
								if lc, ok := cnt.(*ssa.Call); ok {
									if bi, ok := lc.Call.Value.(*ssa.Builtin); ok && bi.Name() == "len" && sameCount(lc.Call.Args[0], rg.X, 0) {
										okBound = true
									}
								}
							}
						}
					}
					if ifi := core.IfOf(h); ifi != nil && !okBound {
						if bo, ok := ifi.Cond.(*ssa.BinOp); ok && (bo.Op == token.LSS || bo.Op == token.GTR || bo.Op == token.NEQ) {
							x, y := bo.X, bo.Y
							if bo.Op == token.GTR {
								x, y = y, x
							}
							okBound = sameCount(y, cnt, 0) || sameCount(x, cnt, 0)
						}
					}
					if !okBound {
						// not an alarm: the count and the iterated collection may be the same without being the same expression
						r.Note("R08.11", key+": loop bound", c.P.Pos(call.Pos()), "the bound of the spawning loop is not structurally the announced count (two snapshots of the same collection, a copied id list): equality of the two is not decided")
					}
				}
			}
			r.Check(bad == "", "R08.11", key, c.P.Pos(call.Pos()), "every iteration of the spawning loop starts its worker",
				bad+": wg.Wait() never returns, the block executor (and every later block) hangs on one input")
		}
	}
	r.Floor("R08.11", "WaitGroup.Add sites", n, 2)
}

var _ = types.Typ
var _ = strings.HasPrefix

// ---------------------------------------------------------------------------------------------------------------------
// R02.11: the delivery sets of a block are assembled per destination in phases (timeout notices, multi-tx notices,
// accepted IBTPs). A phase that stores a freshly built wrapper under a key while an earlier phase may already have stored
// one for the same key replaces what that phase collected, unless the store sits on the "key not present" side of a
// lookup of the same map and key.
type wrapStore struct {
	at      ssa.Instruction
	m, k, v ssa.Value
}

// wrapperMapType: a map (possibly a named one) from destination to *pb.InterchainTxWrapper.
func wrapperMapType(t types.Type) bool {
	mt, ok := t.Underlying().(*types.Map)
	return ok && strings.HasSuffix(mt.Elem().String(), "pb.InterchainTxWrapper")
}

// wrapperStores: the map updates of fn on wrapper maps, including calls of a module helper that stores its
// parameters (func (s wrapperSet) put(dest, w) { s[dest] = w }).
func (c *Ctx) wrapperStores(fn *ssa.Function) []wrapStore {
	var out []wrapStore
	for _, b := range fn.Blocks {
		for _, in := range b.Instrs {
			switch x := in.(type) {
			case *ssa.MapUpdate:
				if wrapperMapType(x.Map.Type()) {
					out = append(out, wrapStore{in, x.Map, x.Key, x.Value})
				}
			case *ssa.Call:
				g := core.StaticCallee(x)
				if g == nil || g == fn || len(g.Blocks) == 0 || !c.P.InModule(g) {
					continue
				}
				for _, gb := range g.Blocks {
					for _, gin := range gb.Instrs {
						mu, ok := gin.(*ssa.MapUpdate)
						if !ok || !wrapperMapType(mu.Map.Type()) {
							continue
						}
						mi, ki, vi := paramIndex(g, core.Strip(mu.Map)), paramIndex(g, core.Strip(mu.Key)), paramIndex(g, core.Strip(mu.Value))
						if mi < 0 || ki < 0 || vi < 0 || mi >= len(x.Call.Args) || ki >= len(x.Call.Args) || vi >= len(x.Call.Args) {
							continue
						}
						out = append(out, wrapStore{in, x.Call.Args[mi], x.Call.Args[ki], x.Call.Args[vi]})
					}
				}
			}
		}
	}
	return out
}

// wrapperLookup: v is the "found" result of a comma-ok lookup of a wrapper map, directly or through a module helper
// that returns the two results of such a lookup on its parameters; returns map and key as seen by the caller.
func (c *Ctx) wrapperLookup(v ssa.Value) (m, k ssa.Value, ok bool) {
	ex, isEx := v.(*ssa.Extract)
	if !isEx || ex.Index != 1 {
		return nil, nil, false
	}
	switch t := ex.Tuple.(type) {
	case *ssa.Lookup:
		if t.CommaOk && wrapperMapType(t.X.Type()) {
			return t.X, t.Index, true
		}
	case *ssa.Call:
		g := core.StaticCallee(t)
		if g == nil || len(g.Blocks) == 0 || !c.P.InModule(g) {
			return nil, nil, false
		}
		for _, ret := range core.Returns(g) {
			if len(ret.Results) != 2 {
				return nil, nil, false
			}
			gm, gk, gok := c.wrapperLookup(ret.Results[1])
			if !gok {
				return nil, nil, false
			}
			mi, ki := paramIndex(g, core.Strip(gm)), paramIndex(g, core.Strip(gk))
			if mi < 0 || ki < 0 || mi >= len(t.Call.Args) || ki >= len(t.Call.Args) {
				return nil, nil, false
			}
			m, k, ok = t.Call.Args[mi], t.Call.Args[ki], true
		}
		return m, k, ok
	}
	return nil, nil, false
}

func (c *Ctx) c02WrapperMerge() {
	r := c.R
	r.Rule("R02.11", "the router assembles the per-destination wrapper of a block in phases; a phase never replaces the wrapper an earlier phase stored: every store of a freshly built InterchainTxWrapper into a wrapper map that an earlier store (of another phase) may precede lies on the not-present side of a lookup of that map and key (stores and lookups also through one-line helpers of a map type). Otherwise a destination with a timeout notice and an accepted IBTP in one block receives only one of them.")
	n := 0
	for _, fn := range c.P.ModuleFuncs(true) {
		if !strings.HasSuffix(fn.Package().Pkg.Path(), "internal/router") {
			continue
		}
		ups := c.wrapperStores(fn)
		for i, u := range ups {
			if _, fresh := core.Strip(u.v).(*ssa.Alloc); !fresh {
				continue
			}
			n++
			key := shortFn(fn) + ": store of a new wrapper #" + strconv.Itoa(i+1)
			preceded := false
			for _, v := range ups {
				if v.at == u.at || core.Strip(v.m) != core.Strip(u.m) {
					continue
				}
				if core.Reach([]core.Point{core.After(v.at)}, nil, nil).Has(u.at) {
					preceded = true
				}
			}
			if !preceded {
				r.Check(true, "R02.11", key, c.P.Pos(u.at.Pos()), "first phase: no other store into the map can precede it", "")
				continue
			}
			// the store is reached only over the not-present edge of a lookup of (map, key)
			cut := core.EdgeSet{}
			for _, b := range fn.Blocks {
				ifi := core.IfOf(b)
				if ifi == nil {
					continue
				}
				cond, edge := ifi.Cond, 1
				if un, ok := cond.(*ssa.UnOp); ok && un.Op == token.NOT {
					cond, edge = un.X, 0
				}
				lm, lk, ok := c.wrapperLookup(cond)
				if !ok || core.Strip(lm) != core.Strip(u.m) || core.Strip(lk) != core.Strip(u.k) {
					continue
				}
				cut.Add(b, edge)
			}
			ok := cut.Len() > 0 && !core.Reach([]core.Point{core.EntryOf(fn)}, nil, core.CutOf(cut)).Has(u.at)
			r.Check(ok, "R02.11", key, c.P.Pos(u.at.Pos()), "stored only when the lookup of the same map and key found nothing",
				"a freshly built wrapper is stored under a key for which an earlier phase may already have stored one (no lookup guards the store): the destination's wrapper of that phase - its accepted IBTPs or its notices - is dropped from the block's delivery set, in the live feed and in the catch-up query")
		}
	}
	r.Floor("R02.11", "stores of new wrappers in the router", n, 1)
}

// ---------------------------------------------------------------------------------------------------------------------
// R07.11: the in-block account objects (SimpleLedger.accounts) carry every write of the block that is not flushed yet. An
// entry is removed before the flush only by the undo of the account's creation (createObjectChange.revert): any other
// removal reachable while a block executes discards the writes earlier, successful transactions made to that account.
func (c *Ctx) c07AccountRelease() {
	r := c.R
	r.Rule("R07.11", "the account objects loaded for a block hold its unflushed writes: an entry of SimpleLedger.accounts is deleted only by the undo of that account's creation (createObjectChange.revert, or a helper called from nowhere else); Clear replaces the whole map after the flush. A revert that releases an account because 'nothing of this transaction is pending on it' throws away what earlier transactions of the block wrote to it.")
	n := 0
	allowed := func(f *ssa.Function) bool {
		for f.Parent() != nil {
			f = f.Parent()
		}
		return f.Name() == "revert" && f.Signature.Recv() != nil && strings.HasSuffix(f.Signature.Recv().Type().String(), "createObjectChange")
	}
	for _, fn := range c.P.ModuleFuncs(true) {
		if !strings.HasSuffix(fn.Package().Pkg.Path(), "internal/ledger") {
			continue
		}
		for _, call := range core.Calls(fn) {
			var m ssa.Value
			if bi, ok := call.Common().Value.(*ssa.Builtin); ok && bi.Name() == "delete" && len(call.Common().Args) >= 1 {
				m = call.Common().Args[0]
			} else if g := core.StaticCallee(call); g != nil && len(g.Blocks) > 0 && c.P.InModule(g) {
				// a one-line helper of a named map type: func (as accountSet) remove(addr) { delete(as, addr) }
				for _, c2 := range core.Calls(g) {
					if bi, ok := c2.Common().Value.(*ssa.Builtin); ok && bi.Name() == "delete" && len(c2.Common().Args) >= 1 {
						if pi := paramIndex(g, core.Strip(c2.Common().Args[0])); pi >= 0 && pi < len(call.Common().Args) {
							m = call.Common().Args[pi]
						}
					}
				}
			}
			if m == nil {
				continue
			}
			o, f, _, ok := core.FieldOf(m)
			if !ok || !strings.HasSuffix(o, "SimpleLedger") || f != "accounts" {
				continue
			}
			n++
			top := fn
			for top.Parent() != nil {
				top = top.Parent()
			}
			okSite := allowed(fn) || c.onlyCalledFrom(top, allowed)
			r.Check(okSite, "R07.11", shortFn(fn)+": delete from SimpleLedger.accounts", c.P.Pos(call.Pos()), "the undo of the account's creation",
				"an account object is dropped from the in-block account map outside the undo of its creation: the writes of earlier (successful) transactions of the block that live only in that object never reach the flush - a FAILED transaction erases what SUCCESSFUL ones stored")
		}
	}
	r.Floor("R07.11", "deletions from SimpleLedger.accounts", n, 1)
}

// ---------------------------------------------------------------------------------------------------------------------
// R19.8: a transaction set handed to another goroutine over a channel is no longer the sender's. When the value sent
// carries the sender's own buffer (a slice-typed field, sent without a copy), the field is afterwards replaced by a new
// slice; a store that reslices the field onto its old backing array (buf = buf[:0]) lets the next transactions overwrite
// the ones the receiver is still reading.
func sliceFieldOf(v ssa.Value, depth int) (string, bool) {
	if depth > 4 {
		return "", false
	}
	switch x := v.(type) {
	case *ssa.Slice:
		return sliceFieldOf(x.X, depth+1)
	case *ssa.ChangeType:
		return sliceFieldOf(x.X, depth+1)
	case *ssa.UnOp:
		if x.Op != token.MUL {
			return "", false
		}
		if _, isSlice := x.Type().Underlying().(*types.Slice); !isSlice {
			return "", false
		}
		if fa, ok := x.X.(*ssa.FieldAddr); ok {
			o, f, _, ok := core.FieldOf(fa)
			if ok {
				return o + "." + f, true
			}
		}
	}
	return "", false
}

// sentValues: the value and, for a struct built in place (or by a module helper that returns it), the values stored
// into its fields; a call result is followed into the helper's returns (two levels).
func sentValues(c *Ctx, root ssa.Value, depth int) []ssa.Value {
	vals := []ssa.Value{root}
	switch x := root.(type) {
	case *ssa.Alloc:
		for _, ref := range *x.Referrers() {
			if fa, ok := ref.(*ssa.FieldAddr); ok && fa.X == ssa.Value(x) {
				for _, r2 := range *fa.Referrers() {
					if st, ok := r2.(*ssa.Store); ok && st.Addr == ssa.Value(fa) {
						vals = append(vals, st.Val)
						if depth < 2 {
							if cl, ok := st.Val.(*ssa.Call); ok {
								vals = append(vals, sentValues(c, cl, depth+1)...)
							}
						}
					}
				}
			}
		}
	case *ssa.Call:
		if g := core.StaticCallee(x); g != nil && len(g.Blocks) > 0 && c.P.InModule(g) && depth < 2 {
			for _, ret := range core.Returns(g) {
				for _, res := range ret.Results {
					vals = append(vals, sentValues(c, core.Strip(res), depth+1)...)
				}
			}
		}
	}
	return vals
}

func (c *Ctx) c19HandedOver() {
	r := c.R
	r.Rule("R19.8", "a transaction set sent over a channel is not reused by the sender: when the value sent carries a slice-typed field of the sender itself (no copy), no store anywhere in the package reslices that field onto its own backing array (f = f[:k]); the field is replaced by a new slice instead. Reusing the array lets the transactions appended next overwrite the set the receiver is still reading: the batch the leader orders then holds duplicates and misses the transactions the client was told were accepted.")
	var fns []*ssa.Function
	for _, fn := range c.P.ModuleFuncs(true) {
		if strings.HasSuffix(fn.Package().Pkg.Path(), "pkg/order/mempool") {
			fns = append(fns, fn)
		}
	}
	// stores that reslice a slice field onto its own backing array
	resliced := map[string]string{}
	for _, fn := range fns {
		for _, b := range fn.Blocks {
			for _, in := range b.Instrs {
				st, ok := in.(*ssa.Store)
				if !ok {
					continue
				}
				fa, ok := st.Addr.(*ssa.FieldAddr)
				if !ok {
					continue
				}
				o, f, _, ok := core.FieldOf(fa)
				if !ok {
					continue
				}
				sl, isReslice := st.Val.(*ssa.Slice)
				if !isReslice {
					continue
				}
				if src, ok := sliceFieldOf(sl.X, 0); ok && src == o+"."+f {
					resliced[src] = c.P.Pos(st.Pos())
				}
			}
		}
	}
	nSend := 0
	for _, fn := range fns {
		k := 0
		for _, b := range fn.Blocks {
			for _, in := range b.Instrs {
				sd, ok := in.(*ssa.Send)
				if !ok {
					continue
				}
				vals := sentValues(c, core.Strip(sd.X), 0)
				carries, bad := false, ""
				for _, v := range vals {
					if _, isSlice := v.Type().Underlying().(*types.Slice); isSlice {
						carries = true
					}
					if f, ok := sliceFieldOf(v, 0); ok {
						if at, ok := resliced[f]; ok {
							bad = "the buffer " + f + " is sent as it is and resliced onto the same backing array at " + at
						}
					}
				}
				if !carries {
					continue
				}
				nSend++
				k++
				r.Check(bad == "", "R19.8", shortFn(fn)+": send #"+strconv.Itoa(k)+" of a transaction slice", c.P.Pos(sd.Pos()), "a copy is sent, or the sender's field is never resliced in place",
					bad+": the transactions appended next overwrite the set the receiver holds - the ordered batch carries duplicates and loses accepted transactions")
			}
		}
	}
	r.Floor("R19.8", "channel sends carrying a transaction slice in the mempool package", nSend, 1)
}

// ---------------------------------------------------------------------------------------------------------------------
// R20.11: the number a raft node gives the pool as its batch sequence base is a height the node has executed: the
// lastExec field itself, or the very value handed to setLastExec / stored into lastExec in the same function. Arithmetic
// on it (lastExec + entries in flight) numbers the next batch past lastExec+1, and a batch whose height is not
// lastExec+1 is discarded by every replica.
func (c *Ctx) c20SeqBase() {
	r := c.R
	r.Rule("R20.11", "the batch sequence base handed to the pool (SetBatchSeqNo) by the raft node is an executed height: the lastExec field itself or the value the same function records as lastExec (setLastExec / store); never a number computed from it. In-flight entries are re-proposed by nobody: a new leader that numbers behind them proposes heights no replica will accept.")
	n := 0
	for _, fn := range c.P.ModuleFuncs(true) {
		if !strings.HasSuffix(fn.Package().Pkg.Path(), "pkg/order/etcdraft") {
			continue
		}
		k := 0
		for _, call := range core.Calls(fn) {
			if core.CalleeObj(call) == nil || core.CalleeObj(call).Name() != "SetBatchSeqNo" {
				continue
			}
			n++
			k++
			var okArg func(in *ssa.Function, raw ssa.Value, depth int) bool
			okArg = func(in *ssa.Function, raw ssa.Value, depth int) bool {
				a := core.Strip(raw)
				if _, f, _, isF := core.FieldOf(a); isF && f == "lastExec" {
					return true
				}
				top := in
				for top.Parent() != nil {
					top = top.Parent()
				}
				for _, f2 := range core.WithClosures(top) {
					for _, c2 := range core.Calls(f2) {
						if g := core.StaticCallee(c2); g != nil && g.Name() == "setLastExec" && len(c2.Common().Args) > 0 {
							if v := c2.Common().Args[len(c2.Common().Args)-1]; core.Strip(v) == a || sameCount(v, raw, 0) {
								return true
							}
						}
					}
					for _, b := range f2.Blocks {
						for _, x := range b.Instrs {
							if st, isSt := x.(*ssa.Store); isSt {
								if _, f, _, isF := core.FieldOf(st.Addr); isF && f == "lastExec" && (core.Strip(st.Val) == a || sameCount(st.Val, raw, 0)) {
									return true
								}
							}
						}
					}
				}
				// the call sits in a local closure that receives the number: judged at the closure's call sites
				if p, isP := a.(*ssa.Parameter); isP && in.Parent() != nil && depth < 2 {
					pi := paramIndex(in, p)
					nSites, all := 0, true
					for _, f2 := range core.WithClosures(top) {
						for _, c2 := range core.Calls(f2) {
							if core.StaticCallee(c2) == in && pi >= 0 && pi < len(c2.Common().Args) {
								nSites++
								if !okArg(f2, c2.Common().Args[pi], depth+1) {
									all = false
								}
							}
						}
					}
					return nSites > 0 && all
				}
				return false
			}
			ok := okArg(fn, core.Arg(call, 0), 0)
			r.Check(ok, "R20.11", shortFn(fn)+": SetBatchSeqNo #"+strconv.Itoa(k), c.P.Pos(call.Pos()), "the argument is lastExec / the height recorded as lastExec",
				"the batch sequence base is computed ("+describe(core.Arg(call, 0))+") instead of being the executed height: the node's next batch gets a height other than lastExec+1 and is ignored by every replica (\"expects to execute seq=..\"): after a leader change with entries in flight the cluster stops producing blocks")
		}
	}
	r.Floor("R20.11", "SetBatchSeqNo calls of the raft node", n, 1)
}

// ---------------------------------------------------------------------------------------------------------------------
// R04.13: a record decoded in a loop is decoded into a new variable each time. The generated protobuf Unmarshal and
// encoding/json both merge into their target: a field the encoding omits (proto3 zero values: status BEGIN, height 0) keeps
// what the previous iteration left there. A status guard that reads such a record decides on the previous id's status.
func decodeTarget(call ssa.CallInstruction) ssa.Value { return decodeTargetD(call, 0) }

func decodeTargetD(call ssa.CallInstruction, depth int) ssa.Value {
	// a helper of the module that decodes into one of its parameters
	if g := core.StaticCallee(call); g != nil && depth < 2 && len(g.Blocks) > 0 && core.TheProg != nil && core.TheProg.InModule(g) {
		for _, c2 := range core.Calls(g) {
			t := decodeTargetD(c2, depth+1)
			if t == nil {
				continue
			}
			if mi, ok := t.(*ssa.MakeInterface); ok {
				t = mi.X
			}
			if i := paramIndex(g, core.Strip(t)); i >= 0 && i < len(call.Common().Args) {
				if _, isPtr := g.Params[i].Type().Underlying().(*types.Pointer); isPtr {
					return call.Common().Args[i]
				}
			}
		}
	}
	name := core.CalleeName(call)
	args := call.Common().Args
	switch {
	case strings.HasSuffix(name, ").Unmarshal") && !call.Common().IsInvoke() && len(args) >= 1:
		return args[0]
	case call.Common().IsInvoke() && call.Common().Method.Name() == "Unmarshal":
		return call.Common().Value
	case name == "encoding/json.Unmarshal" && len(args) == 2:
		return args[1]
	case (strings.HasSuffix(name, ").GetObject") || (call.Common().IsInvoke() && call.Common().Method.Name() == "GetObject")) && len(args) >= 2:
		return args[len(args)-1]
	}
	return nil
}

func (c *Ctx) staleDecodes(scope func(string) bool, each func(fn *ssa.Function, call ssa.CallInstruction, a *ssa.Alloc, stale bool, k int)) {
	for _, fn := range c.P.ModuleFuncs(true) {
		if !scope(fn.Package().Pkg.Path()) {
			continue
		}
		k := 0
		for _, call := range core.Calls(fn) {
			t := decodeTarget(call)
			if t == nil {
				continue
			}
			if mi, ok := t.(*ssa.MakeInterface); ok {
				t = mi.X
			}
			a, ok := t.(*ssa.Alloc)
			if !ok || a.Parent() != fn {
				continue
			}
			if _, isStruct := a.Type().Underlying().(*types.Pointer).Elem().Underlying().(*types.Struct); !isStruct {
				continue
			}
			k++
			// the variable is new (or wholly reassigned) before the decode runs again
			fresh := func(in ssa.Instruction) bool {
				if in == ssa.Instruction(a) {
					return true
				}
				if st, ok := in.(*ssa.Store); ok && st.Addr == ssa.Value(a) {
					return true
				}
				if rc, ok := in.(ssa.CallInstruction); ok && strings.HasSuffix(core.CalleeName(rc), ").Reset") && len(rc.Common().Args) > 0 && rc.Common().Args[0] == ssa.Value(a) {
					return true
				}
				return false
			}
			rs := core.Reach([]core.Point{core.After(call)}, fresh, nil)
			each(fn, call, a, rs.Has(call), k)
		}
	}
}

func (c *Ctx) c04FreshDecode() {
	r := c.R
	r.Rule("R04.13", "a transaction record read in a loop is decoded into a variable of that iteration: every decode (generated Unmarshal, json.Unmarshal, GetObject) into a local struct in the block executor's timeout handling and in the transaction manager is separated from its next execution by a new declaration, a whole assignment or a Reset of the target. Both decoders merge: a field the encoding omits (proto3 omits zero values - status BEGIN, height 0) keeps the previous iteration's value, so a status guard on the record judges the id by the status of the one handled before it.")
	n := 0
	c.staleDecodes(func(p string) bool {
		return os.Getenv("BXH_R0413_ALL") != "" || strings.HasSuffix(p, "internal/executor") || strings.HasSuffix(p, "internal/executor/contracts")
	}, func(fn *ssa.Function, call ssa.CallInstruction, a *ssa.Alloc, stale bool, k int) {
		n++
		r.Check(!stale, "R04.13", shortFn(fn)+": decode #"+strconv.Itoa(k)+" into "+a.Comment, c.P.Pos(call.Pos()), "the target is new for every decode",
			"the decode target "+a.Comment+" is declared outside the loop that decodes into it and never reset: fields the encoding omits (zero values such as status BEGIN) keep the previous iteration's content - a guard on the decoded status then skips or applies the transition for the wrong transaction (e.g. a BEGIN transaction behind a finished one is never rolled back at its timeout height)")
	})
	r.Floor("R04.13", "decodes into local structs (executor, contracts)", n, 40)
}

// ---------------------------------------------------------------------------------------------------------------------
// R12.9: the undo of a journal height does not look at a store that lags behind its own pending writes. Either every
// height is undone in a batch created and committed inside the loop over the heights (what the store returns is then the
// state of the height above), or nothing on the undo path reads the store to decide a write (only the journal records are
// read). A batch spanning several heights combined with "skip the key if the store already holds the previous value"
// compares with values that the pending batch is about to replace.
func (c *Ctx) c12ReadUnderBatch() {
	r := c.R
	r.Rule("R12.9", "the undo path never decides a write by reading a store that lags behind its own pending batch: in RollbackState either the batch is created and committed inside the loop over the journal heights, or the functions that undo a journal entry (revertJournal and its helpers) read nothing from the store (only getBlockJournal reads, and only journal records). With one batch over several heights a 'skip when the store already holds the previous value' test sees the value of the newest height while the batch already holds an older one: the key keeps an intermediate value.")
	rs := c.fn("R12.9", "internal/ledger.(*SimpleLedger).RollbackState")
	if rs == nil {
		return
	}
	perHeight := true
	nb := 0
	for _, call := range core.Calls(rs) {
		if call.Common().IsInvoke() && (call.Common().Method.Name() == "NewBatch" || call.Common().Method.Name() == "Commit") {
			nb++
			if !core.InLoop(call) {
				perHeight = false
			}
		}
	}
	var reads []string
	for _, rf := range c.regionOf(rs, 3) {
		if rf.fn == rs || rf.via == nil || strings.HasPrefix(rf.fn.Name(), "getBlockJournal") || strings.HasPrefix(rf.fn.Name(), "getJournalRange") {
			continue
		}
		// only helpers entered from inside the loop over the heights
		if rf.via.Parent() == rs && !core.InLoop(rf.via) {
			continue
		}
		for _, call := range core.Calls(rf.fn) {
			if !call.Common().IsInvoke() {
				continue
			}
			m := call.Common().Method.Name()
			if (m == "Get" || m == "Has") && strings.HasSuffix(call.Common().Value.Type().String(), "storage.Storage") {
				reads = append(reads, shortFn(rf.fn)+" at "+c.P.Pos(call.Pos()))
			}
		}
	}
	// (the batch may be created and committed by helpers: without a store read on the undo path nothing is to be shown)
	ok := len(reads) == 0 || (perHeight && nb >= 2)
	r.Check(ok, "R12.9", "RollbackState: undo writes do not depend on a store behind the pending batch", c.P.Pos(rs.Pos()),
		"batch per height: "+strconv.FormatBool(perHeight)+"; store reads on the undo path: "+strconv.Itoa(len(reads)),
		"the batch of RollbackState spans several journal heights (created or committed outside the loop) and the undo path reads the store ("+strings.Join(reads, "; ")+"): the read returns the value of the newest height, not the one the pending batch already restored - a key written in two of the rolled-back blocks keeps the intermediate value when that happens to equal what the store still holds")
}

// ---------------------------------------------------------------------------------------------------------------------
// R03.12: whose rule (or whose validators) judge a proof is decided by the kind of the IBTP alone. In verifyProof every
// branch that separates "verify as coming from the source side" (ParseFrom) from "verify as coming from the destination
// side" (ParseTo) is computed from ibtp.Category() / ibtp.Type and constants. A selector that also reads what the sender
// may write freely (Extra, Payload, the addresses themselves) lets the sender pick the chain whose rule it can satisfy.
func (c *Ctx) c03SideSelector() {
	r := c.R
	r.Rule("R03.12", "the side that vouches for an IBTP is chosen by its kind alone: in verifyProof (and the helpers it delegates to) every branch condition that separates the ParseFrom side from the ParseTo side is built from ibtp.Category(), ibtp.Type and constants only. A selector that reads sender-controlled content (Extra, payload, addresses) lets a request be verified against the destination's rule or validators - the chain it claims to come from no longer vouches for it.")
	vp := c.fn("R03.12", "pkg/proof.(*VerifyPool).verifyProof")
	if vp == nil {
		return
	}
	n := 0
	for _, rf := range c.regionOf(vp, 2) {
		fn := rf.fn
		var from, to []ssa.Instruction
		for _, call := range core.Calls(fn) {
			switch {
			case strings.HasSuffix(core.CalleeName(call), "pb.IBTP).ParseFrom"):
				from = append(from, call)
			case strings.HasSuffix(core.CalleeName(call), "pb.IBTP).ParseTo"):
				to = append(to, call)
			}
		}
		if len(from) == 0 || len(to) == 0 {
			continue
		}
		// the ids actually used for the verification: the calls whose results are not dead
		for _, b := range fn.Blocks {
			ifi := core.IfOf(b)
			if ifi == nil {
				continue
			}
			reach := func(si int) (bool, bool) {
				rs := core.Reach([]core.Point{{B: b.Succs[si], Idx: 0}}, nil, nil)
				f, t := false, false
				for _, x := range from {
					f = f || rs.Has(x)
				}
				for _, x := range to {
					t = t || rs.Has(x)
				}
				return f, t
			}
			f0, t0 := reach(0)
			f1, t1 := reach(1)
			// separating: one edge leads to one side only and the other edge to the other side
			if !((f0 && !t0 && t1) || (t0 && !f0 && f1) || (f1 && !t1 && t0) || (t1 && !f1 && f0)) {
				continue
			}
			n++
			bad := ""
			seen := map[ssa.Value]bool{}
			var leaf func(v ssa.Value, d int)
			leaf = func(v ssa.Value, d int) {
				if bad != "" || seen[v] || d > 12 {
					return
				}
				seen[v] = true
				switch x := v.(type) {
				case *ssa.Const:
				case *ssa.BinOp:
					leaf(x.X, d+1)
					leaf(x.Y, d+1)
				case *ssa.UnOp:
					if x.Op == token.MUL {
						if _, f, _, ok := core.FieldOf(x.X); ok && f == "Type" && strings.Contains(x.X.Type().String(), "pb.IBTP_Type") {
							return
						}
						if a, ok := x.X.(*ssa.Alloc); ok {
							for _, ref := range *a.Referrers() {
								if st, ok := ref.(*ssa.Store); ok && st.Addr == ssa.Value(a) {
									leaf(st.Val, d+1)
								}
							}
							return
						}
						bad = "a load of " + describe(x.X)
						return
					}
					leaf(x.X, d+1)
				case *ssa.Phi:
					for _, e := range x.Edges {
						leaf(e, d+1)
					}
				case *ssa.Convert:
					leaf(x.X, d+1)
				case *ssa.ChangeType:
					leaf(x.X, d+1)
				case *ssa.Call:
					if strings.HasSuffix(core.CalleeName(x), "pb.IBTP).Category") || strings.HasSuffix(core.CalleeName(x), "pb.IBTP).GetType") {
						return
					}
					bad = "the result of " + core.CalleeName(x)
				case *ssa.Extract:
					leaf(x.Tuple, d+1)
				default:
					bad = describe(v)
				}
			}
			leaf(ifi.Cond, 0)
			r.Check(bad == "", "R03.12", shortFn(fn)+": branch choosing the vouching side #"+strconv.Itoa(n), c.P.Pos(ifi.Cond.Pos()), "computed from Category() / Type and constants",
				"the choice between the source side (ParseFrom) and the destination side (ParseTo) depends on "+bad+": content the sender sets freely decides which chain's rule or validator set judges the proof - a request can be accepted on the signature of its own destination instead of the chain it claims to come from")
		}
	}
	r.Floor("R03.12", "branches separating the ParseFrom side from the ParseTo side in verifyProof", n, 1)
}

// ---------------------------------------------------------------------------------------------------------------------
// R18.10: the pool recognises a committed transaction by its hash. A hash is dropped from txHashMap only where its
// transaction leaves the pool for good - the commit path and the eviction of timed-out transactions (or helpers called
// from nowhere else). The insertion path in particular forgets nothing: the hash of a displaced version is what lets the
// pool understand the commit of that version ordered by another leader.
func (c *Ctx) c18HashLifetime() {
	r := c.R
	r.Rule("R18.10", "a hash leaves txHashMap only where its transaction leaves the pool for good: every delete on txHashMap lies in processCommitTransactions, in RemoveAliveTimeoutTxs or in a helper called from nowhere else. If the insertion path forgets the hash of a version it displaces, the commit notification naming that version is skipped, the account's committed nonce stays behind and the surviving version is batched although its (account, nonce) is committed.")
	allowed := func(f *ssa.Function) bool {
		for f.Parent() != nil {
			f = f.Parent()
		}
		return f.Name() == "processCommitTransactions" || f.Name() == "RemoveAliveTimeoutTxs"
	}
	n := 0
	for _, fn := range c.P.ModuleFuncs(true) {
		if !strings.HasSuffix(fn.Package().Pkg.Path(), "pkg/order/mempool") {
			continue
		}
		for _, call := range core.Calls(fn) {
			bi, ok := call.Common().Value.(*ssa.Builtin)
			if !ok || bi.Name() != "delete" || len(call.Common().Args) < 1 {
				continue
			}
			_, f, _, ok := core.FieldOf(call.Common().Args[0])
			if !ok || f != "txHashMap" {
				continue
			}
			n++
			top := fn
			for top.Parent() != nil {
				top = top.Parent()
			}
			r.Check(allowed(fn) || c.onlyCalledFrom(top, allowed), "R18.10", shortFn(fn)+": delete from txHashMap", c.P.Pos(call.Pos()), "commit or eviction path",
				"a hash is dropped from txHashMap outside the commit and eviction paths: the pool no longer recognises the commit of that transaction (\"Can't find it from txHashMap\"), the account's committed nonce is not advanced and the pool hands an (account, nonce) to consensus that is already committed")
		}
	}
	r.Floor("R18.10", "deletions from txHashMap", n, 1)
}

// ---------------------------------------------------------------------------------------------------------------------
// R17.14: who somebody is, is decided by exact comparison. In the contracts package a case-insensitive or partial string
// match (EqualFold, ToLower/ToUpper, Contains, HasPrefix, HasSuffix, Index) never takes the caller's address, a field of a
// role record (ID, AppchainID) or a parameter of a role-contract entry / permission check as operand, except at the sites
// frozen below. Chain ids are case-sensitive keys: folding case makes the admin of "APPCHAIN1" an admin of "appchain1".
var fuzzyIdentityAllowed = map[string]string{
	"RegisterAppchain|strings.Contains": "the caller's own full address has to occur in the admin list it submits for the new chain (fixed-length hex addresses, the list is split and validated afterwards)",
	"checkInfo|strings.Contains":        "same test for UpdateAppchain: the submitting admin stays in the new admin list",
}

func (c *Ctx) c17ExactIdentity() {
	r := c.R
	r.Rule("R17.14", "identity is compared exactly: in the contracts package no case-insensitive or partial string match (strings.EqualFold / ToLower / ToUpper / Contains / HasPrefix / HasSuffix / Index) has as operand the caller's address, the ID or AppchainID of a role record, or a parameter of an exported RoleManager method or of a checkPermission function - except the two frozen sites where an appchain admin's own address must occur in the admin list it submits. Appchain ids are case-sensitive keys of the appchain manager: matching them loosely makes the admin of one chain an admin of another.")
	fuzzy := map[string]bool{"strings.EqualFold": true, "strings.ToLower": true, "strings.ToUpper": true, "strings.Contains": true, "strings.HasPrefix": true, "strings.HasSuffix": true, "strings.Index": true, "strings.ContainsAny": true}
	n, nAll := 0, 0
	for _, fn := range c.P.ModuleFuncs(true) {
		if !strings.HasSuffix(fn.Package().Pkg.Path(), "internal/executor/contracts") {
			continue
		}
		top := fn
		for top.Parent() != nil {
			top = top.Parent()
		}
		roleEntry := top.Signature.Recv() != nil && strings.HasSuffix(top.Signature.Recv().Type().String(), "contracts.RoleManager") && token.IsExported(top.Name())
		permFn := strings.Contains(strings.ToLower(top.Name()), "permission")
		subject := func(v ssa.Value) bool {
			return core.Mentions(v, func(w ssa.Value) bool {
				switch x := w.(type) {
				case *ssa.Parameter:
					return (roleEntry || permFn) && x.Parent() == top && x != top.Params[0]
				case *ssa.Call:
					nm := core.CalleeName(x)
					if x.Call.IsInvoke() {
						nm = x.Call.Method.Name()
					}
					return strings.HasSuffix(nm, "Caller") || strings.HasSuffix(nm, "CurrentCaller")
				}
				if o, f, _, ok := core.FieldOf(w); ok && strings.HasSuffix(o, "contracts.Role") && (f == "ID" || f == "AppchainID") {
					return true
				}
				return false
			})
		}
		for _, call := range core.Calls(fn) {
			nm := core.CalleeName(call)
			if !fuzzy[nm] {
				continue
			}
			nAll++
			hit := false
			for _, a := range call.Common().Args {
				if subject(a) {
					hit = true
				}
			}
			if !hit {
				continue
			}
			n++
			_, okSite := fuzzyIdentityAllowed[top.Name()+"|"+nm]
			// the frozen shape wherever it lives (also in an extracted helper): the caller's own address looked for in
			// a submitted list - strings.Contains(<string parameter>, Caller())
			if !okSite && nm == "strings.Contains" && len(call.Common().Args) == 2 {
				_, hayIsParam := core.Strip(call.Common().Args[0]).(*ssa.Parameter)
				needleIsCaller := false
				if nc, ok := core.Strip(call.Common().Args[1]).(*ssa.Call); ok {
					mn := core.CalleeName(nc)
					if nc.Call.IsInvoke() {
						mn = nc.Call.Method.Name()
					}
					needleIsCaller = strings.HasSuffix(mn, "Caller")
				}
				okSite = hayIsParam && needleIsCaller
			}
			r.Check(okSite, "R17.14", shortFn(top)+": "+nm+" on an identity", c.P.Pos(call.Pos()), "frozen site: "+fuzzyIdentityAllowed[top.Name()+"|"+nm],
				"an identity (caller address, role id, appchain id of a role, argument of a role / permission check) is matched with "+nm+": two ids that differ only by case or by a prefix are different keys everywhere else in the contracts, so the admin of one chain (or a non-admin) passes the check for another chain's admin-only operations")
		}
	}
	r.Note("R17.14", "loose string matches in the contracts package", "", strconv.Itoa(nAll)+" calls, "+strconv.Itoa(n)+" on identities")
	r.Floor("R17.14", "loose matches on identities (the frozen sites)", n, 1)
}

// ---------------------------------------------------------------------------------------------------------------------
// R07.12: "the whole remaining balance" is taken only from a sender whose balance was found too small for the fee - the
// balance that is taken is the one that was judged. In applyTransaction (and helpers) no path leads from a revert of the
// transaction's writes to payLeftAsGasFee without a payGasFee in between: the revert gives the sender back what the failed
// run spent, so the fee has to be tried again on the restored balance before everything is taken.
func (c *Ctx) c07FeeOnRestoredBalance() {
	r := c.R
	r.Rule("R07.12", "the balance taken as 'whole remaining balance' is the balance that failed to cover the fee: in applyTransaction (and its helpers) every path from a revert of the transaction's writes to payLeftAsGasFee passes a payGasFee call (whose failure edge leads there). A transaction that spent most of the sender's balance and then cannot pay its fee is reverted - the sender holds the pre-transaction balance again, which may cover the fee many times - and must be charged the fee, not everything.")
	at := c.fn("R07.12", "internal/executor.(*BlockExecutor).applyTransaction")
	if at == nil {
		return
	}
	isPay := c.throughHelpers(func(in ssa.Instruction) bool {
		call, ok := in.(ssa.CallInstruction)
		return ok && core.CalleeObj(call) != nil && core.CalleeObj(call).Name() == "payGasFee"
	})
	isLeft := func(in ssa.Instruction) bool {
		call, ok := in.(ssa.CallInstruction)
		return ok && core.CalleeObj(call) != nil && core.CalleeObj(call).Name() == "payLeftAsGasFee"
	}
	n := 0
	for _, rf := range c.regionOf(at, 2) {
		for _, b := range rf.fn.Blocks {
			for _, in := range b.Instrs {
				if !isLeft(in) {
					continue
				}
				n++
				bad := ""
				for _, b2 := range rf.fn.Blocks {
					for _, rv := range b2.Instrs {
						if !isRevert(rv) {
							continue
						}
						if core.Reach([]core.Point{core.After(rv)}, isPay, nil).Has(in) {
							bad = "the revert at " + c.P.Pos(rv.Pos()) + " is followed by payLeftAsGasFee without a new payGasFee"
						}
					}
				}
				r.Check(bad == "", "R07.12", shortFn(rf.fn)+": payLeftAsGasFee #"+strconv.Itoa(n), c.P.Pos(in.Pos()), "no revert between the failed fee payment and the confiscation",
					bad+": the sender gets back what the failed run spent and then loses all of it although it covers the fee - e.g. balance 3*fee, transfer of 2*fee+1: FAILED receipt, balance 0, 3*fee paid to the admins")
			}
		}
	}
	r.Floor("R07.12", "payLeftAsGasFee sites under applyTransaction", n, 2)
}

// ---------------------------------------------------------------------------------------------------------------------
// R07.13: a receipt marked FAILED after its run was undone reports none of the run's results; the bloom is computed from
// the finished receipt.
func (c *Ctx) c07FailedReceiptClean() {
	r := c.R
	r.Rule("R07.13", "a receipt that is marked FAILED after results of the run were written into it reports none of them: in applyTransaction every path from a store of EvmLogs (or of a TxStatus) through a later store Status = FAILED to a return passes a new store of that field (the reset); and no store of Status, EvmLogs or TxStatus is reachable after the receipt's Bloom was computed. Otherwise the persisted receipt, the block bloom and the published log stream carry logs of a run the ledger has undone.")
	at := c.fn("R07.13", "internal/executor.(*BlockExecutor).applyTransaction")
	if at == nil {
		return
	}
	storeOf := func(in ssa.Instruction, field string) (*ssa.Store, bool) {
		st, ok := in.(*ssa.Store)
		if !ok {
			return nil, false
		}
		o, f, _, ok := core.FieldOf(st.Addr)
		return st, ok && strings.HasSuffix(o, "pb.Receipt") && f == field
	}
	isNilOrZero := func(v ssa.Value) bool {
		k, ok := v.(*ssa.Const)
		return ok && (k.Value == nil || k.Value.ExactString() == "0")
	}
	n := 0
	for _, rf := range c.regionOf(at, 1) {
		fn := rf.fn
		var failed []*ssa.Store
		for _, b := range fn.Blocks {
			for _, in := range b.Instrs {
				if st, ok := storeOf(in, "Status"); ok {
					if k, isK := st.Val.(*ssa.Const); isK && k.Value != nil && k.Value.ExactString() == "1" {
						failed = append(failed, st)
					}
				}
			}
		}
		for _, field := range []string{"EvmLogs", "TxStatus"} {
			for _, b := range fn.Blocks {
				for _, in := range b.Instrs {
					s1, ok := storeOf(in, field)
					if !ok || isNilOrZero(s1.Val) {
						continue
					}
					n++
					bad := ""
					after := core.Reach([]core.Point{core.After(s1)}, nil, nil)
					for _, s2 := range failed {
						if !after.Has(s2) {
							continue
						}
						rs := core.Reach([]core.Point{core.After(s2)}, func(x ssa.Instruction) bool { _, ok := storeOf(x, field); return ok }, nil)
						for _, ret := range core.Returns(fn) {
							if rs.Has(ret) {
								bad = "Status = FAILED at " + c.P.Pos(s2.Pos()) + " reaches the return at " + c.P.Pos(ret.Pos()) + " with " + field + " of the undone run still in the receipt"
							}
						}
					}
					r.Check(bad == "", "R07.13", shortFn(fn)+": "+field+" written into the receipt", c.P.Pos(s1.Pos()), "reset on every path that marks the receipt FAILED afterwards",
						bad+": a transaction reverted for an unpayable fee is persisted as FAILED with the EVM logs / BEGIN_FAILURE status of the undone run; the logs enter the block bloom and are published, the status lists the transaction for a record that does not exist")
				}
			}
		}
		for _, b := range fn.Blocks {
			for _, in := range b.Instrs {
				bs, ok := storeOf(in, "Bloom")
				if !ok {
					continue
				}
				n++
				bad := ""
				rs := core.Reach([]core.Point{core.After(bs)}, nil, nil)
				for _, b2 := range fn.Blocks {
					for _, x := range b2.Instrs {
						for _, f := range []string{"Status", "EvmLogs", "TxStatus"} {
							if st, ok := storeOf(x, f); ok && rs.Has(st) {
								bad = f + " is still assigned at " + c.P.Pos(st.Pos()) + " after the bloom was computed"
							}
						}
					}
				}
				r.Check(bad == "", "R07.13", shortFn(fn)+": Bloom computed from the finished receipt", c.P.Pos(bs.Pos()), "no later store of Status / EvmLogs / TxStatus",
					bad+": the bloom of a receipt that ends FAILED still carries the logs of the reverted run")
			}
		}
	}
	r.Floor("R07.13", "result fields written into a BxhTransaction receipt", n, 3)
}

// receiptOkPick: edges on which the receipt is known not to be FAILED (shared by R07.3 and R07.14).
func receiptOkPick(f core.Fact, ifi *ssa.If) (bool, int) {
	if f.Kind == core.FEqConst && f.Field == "Status" {
		switch f.Const {
		case "0":
			return true, holdsEdge(f)
		case "1":
			return true, 1 - holdsEdge(f)
		}
	}
	if f.Kind == core.FBool {
		if call, ok := f.Subject.(*ssa.Call); ok {
			if o := core.CalleeObj(call); o != nil && o.Name() == "IsSuccess" {
				return true, holdsEdge(f)
			}
		}
	}
	return false, 0
}

// R07.14: what a transaction's events trigger outside the ledger is not triggered by a FAILED one.
func (c *Ctx) c07NodeEvents() {
	r := c.R
	r.Rule("R07.14", "a FAILED transaction's events change nothing outside the ledger either: in applyTx (and helpers that receive the receipt) the forwarding of a node-management event to the ordering layer (postNodeEvent) lies behind an edge on which the receipt is known not to be FAILED, like the interchain counter (R07.3) and the service cache. Events are not part of the undo journal: a governance vote that concludes a node logout and then cannot pay its fee is reverted in the ledger, but the ordering layer would still remove the node.")
	fn := c.fn("R07.14", execPrefix+"applyTx")
	if fn == nil {
		return
	}
	isPost := callToMethod("postNodeEvent")
	n := c.behindEdges("R07.14", "applyTx", fn, condEdges(fn, receiptOkPick), isPost, "receipt known not FAILED", "postNodeEvent")
	for _, call := range core.Calls(fn) {
		g := core.StaticCallee(call)
		if g == nil || g == fn || len(g.Blocks) == 0 || core.PkgOf(g) != core.PkgOf(fn) || len(sites(g, isPost)) == 0 || g.Name() == "postNodeEvent" {
			continue
		}
		rs := core.Reach([]core.Point{core.EntryOf(fn)}, nil, core.CutOf(condEdges(fn, receiptOkPick)))
		if !rs.Has(call) {
			n += len(sites(g, isPost))
			r.OK("R07.14", "applyTx: "+g.Name()+" behind receipt known not FAILED", c.P.Pos(call.Pos()), "the helper that forwards node events is only called across a success edge")
			continue
		}
		n += c.behindEdges("R07.14", g.Name(), g, condEdges(g, receiptOkPick), isPost, "receipt known not FAILED", "postNodeEvent")
	}
	r.Floor("R07.14", "node event forwards", n, 1)
}

// variadicElems: the values stored into the implicit array behind a variadic argument (f(a, b, xs...) built as
// new [n]T; &t[i] = v; slice t[:]).
func variadicElems(arg ssa.Value) []ssa.Value {
	sl, ok := arg.(*ssa.Slice)
	if !ok {
		return nil
	}
	a, ok := sl.X.(*ssa.Alloc)
	if !ok {
		return nil
	}
	var out []ssa.Value
	for _, ref := range *a.Referrers() {
		ia, ok := ref.(*ssa.IndexAddr)
		if !ok {
			continue
		}
		for _, r2 := range *ia.Referrers() {
			if st, ok := r2.(*ssa.Store); ok && st.Addr == ssa.Value(ia) {
				out = append(out, st.Val)
			}
		}
	}
	return out
}

// ---------------------------------------------------------------------------------------------------------------------
// R17.15: an account stays occupied while it holds a role. Where an update of an appchain's admin list is concluded,
// the list handed to Role.FreeAccount is computed (the difference of old and new list), never the complete old or new
// list of the proposal: the submitting admin is in both.
func (c *Ctx) c17FreeOnlyLeaving() {
	r := c.R
	r.Rule("R17.15", "an account stays occupied while it holds a role: in the appchain manager's conclusion of an admin update (manageUpdateApprove / manageUpdateReject and helpers) the argument of the cross-invoke Role.FreeAccount is never the proposal's complete old or new admin list (UpdateInfo.AdminAddrs.OldInfo / NewInfo as they are) - the submitting admin is in both. A freed address that still is a chain admin passes CheckOccupiedAccount in anybody's RegisterAppchain; the approval of that registration rewrites its role record and the admin loses the operations reserved to him on his own chain.")
	n := 0
	for _, fn := range c.P.ModuleFuncs(true) {
		if !strings.HasSuffix(fn.Package().Pkg.Path(), "internal/executor/contracts") {
			continue
		}
		for _, call := range core.Calls(fn) {
			args := call.Common().Args
			if len(args) < 3 {
				continue
			}
			isFree := false
			for _, a := range args {
				if s, ok := core.ConstString(a); ok && s == "FreeAccount" {
					isFree = true
				}
			}
			if !isFree {
				continue
			}
			n++
			bad := ""
			for _, el := range variadicElems(args[len(args)-1]) {
				pc, ok := el.(*ssa.Call)
				if !ok || len(pc.Call.Args) != 1 {
					continue
				}
				v := pc.Call.Args[0]
				if ta, ok := v.(*ssa.TypeAssert); ok {
					v = ta.X
				}
				if _, f, base, ok := core.FieldOf(v); ok && (f == "OldInfo" || f == "NewInfo") {
					if _, bf, _, ok2 := core.FieldOf(base); ok2 && bf == "AdminAddrs" {
						bad = "the complete " + f + " admin list of the proposal"
					}
				}
			}
			r.Check(bad == "", "R17.15", shortFn(fn)+": FreeAccount #"+strconv.Itoa(n), c.P.Pos(call.Pos()), "the freed list is not the proposal's complete old / new admin list",
				"Role.FreeAccount receives "+bad+": admins that remain admins (the submitter at least) are released, can be listed as admins of another account's new appchain, and lose their role record - and with it PermissionSelf on their own chain - when that registration is approved")
		}
	}
	r.Floor("R17.15", "cross-invokes of Role.FreeAccount", n, 3)
}

// ---------------------------------------------------------------------------------------------------------------------
// R17.16: the object a governance decision is applied to is the one recorded under the proposal's object id. A Manage
// callback does not take that id apart (strings.Split on ':'): chain ids are free-form and may contain the separator, so
// the parts name another chain's object - one the submitter had no permission for.
func (c *Ctx) c17ManageTarget() {
	r := c.R
	r.Rule("R17.16", "a governance decision is applied to the object recorded under the proposal's object id: no Manage callback of a contract builds the identity fields (ChainID, ServiceID, ..) of a record it writes from the parts of the split object id (parts used for audit events only are not objects of a decision). Chain ids are free-form (only the empty id is rejected) and may contain ':'; the parts of 'bank:transfer:s' name service 'transfer' of chain 'bank', for which the submitter's permission was never checked.")
	n, nm := 0, 0
	for _, fn := range c.P.ModuleFuncs(true) {
		if !strings.HasSuffix(fn.Package().Pkg.Path(), "internal/executor/contracts") || fn.Name() != "Manage" || fn.Signature.Recv() == nil || len(fn.Params) < 5 {
			continue
		}
		nm++
		objID := fn.Params[4]
		if objID.Name() != "objId" && objID.Name() != "objID" {
			for _, p := range fn.Params {
				if strings.EqualFold(p.Name(), "objid") {
					objID = p
				}
			}
		}
		bad := ""
		for _, cf := range core.WithClosures(fn) {
			for _, call := range core.Calls(cf) {
				if core.CalleeName(call) != "strings.Split" && core.CalleeName(call) != "strings.SplitN" {
					continue
				}
				cv, isVal := call.(*ssa.Call)
				if !isVal || !core.Mentions(call.Common().Args[0], func(w ssa.Value) bool { return w == ssa.Value(objID) }) {
					continue
				}
				n++
				// a part of the id becomes an identity field (..ID) of a record built here
				for _, ref := range *cv.Referrers() {
					ia, ok := ref.(*ssa.IndexAddr)
					if !ok {
						continue
					}
					for _, r2 := range *ia.Referrers() {
						ld, ok := r2.(*ssa.UnOp)
						if !ok {
							continue
						}
						for _, r3 := range *ld.Referrers() {
							if st, ok := r3.(*ssa.Store); ok && st.Val == ssa.Value(ld) {
								if o, f, _, ok := core.FieldOf(st.Addr); ok && strings.HasSuffix(f, "ID") {
									bad = "a part of strings.Split(" + objID.Name() + ", ..) becomes " + o + "." + f + " at " + c.P.Pos(st.Pos())
								}
							}
						}
					}
				}
			}
		}
		r.Check(bad == "", "R17.16", shortFn(fn)+": object id used as a whole", c.P.Pos(fn.Pos()), "the id is only used as the key it is",
			bad+": the decision is applied to the object the parts of the id name, not the one the proposal was submitted (and the permission checked) for - the approved update of a service of chain 'bank:transfer' overwrites name, details and blacklist of service 'transfer' of chain 'bank'")
	}
	r.Floor("R17.16", "Manage callbacks of the contracts", nm, 5)
}

// ---------------------------------------------------------------------------------------------------------------------
// R17.17: the occupancy test sees every holder of a role. Role records are written by more sites than occupy markers
// (genesis writes the admins' records only), so the test that guards the admin lists of RegisterAppchain / UpdateAppchain
// and the registration of roles and nodes - checkOccupiedAccount - reads the role record of the address, not just the
// marker.
func (c *Ctx) c17OccupancySeesRoles() {
	r := c.R
	r.Rule("R17.17", "an address that holds a role is not free: RoleManager.checkOccupiedAccount (the test behind CheckOccupiedAccount, which guards the admin lists of RegisterAppchain / UpdateAppchain) reads the role record of the address (GetObject under RoleKey) besides the occupy marker, and a 'free' answer is reachable only past that read. Genesis writes the governance admins' role records without a marker; with the marker alone anybody lists a genesis admin in a new chain's admin list and the approval of the registration overwrites that admin's role record.")
	fn := c.fn("R17.17", "internal/executor/contracts.(*RoleManager).checkOccupiedAccount")
	if fn == nil {
		return
	}
	keyed := func(name string) InstrPred {
		return func(in ssa.Instruction) bool {
			call, ok := in.(ssa.CallInstruction)
			if !ok || core.CalleeObj(call) == nil || core.CalleeObj(call).Name() != "GetObject" {
				return false
			}
			for _, a := range call.Common().Args {
				if kc, ok := core.Strip(a).(*ssa.Call); ok && strings.HasSuffix(core.CalleeName(kc), "contracts."+name) {
					return true
				}
			}
			return false
		}
	}
	isRole := c.throughHelpers(keyed("RoleKey"))
	n := len(sites(fn, c.throughHelpers(keyed("OccupyAccountKey"))))
	// a return that answers "free" (constant false) must lie behind the read of the role record
	rs := core.Reach([]core.Point{core.EntryOf(fn)}, isRole, nil)
	bad := ""
	for _, ret := range core.Returns(fn) {
		if len(ret.Results) < 2 || !rs.Has(ret) {
			continue
		}
		for _, o := range core.RetOrigins(ret.Results[1]) {
			if k, ok := o.V.(*ssa.Const); !ok || k.Value == nil || k.Value.ExactString() != "true" {
				bad = "the return at " + c.P.Pos(ret.Pos()) + " can answer 'not occupied' without having looked at the role record"
			}
		}
	}
	r.Check(bad == "" && len(sites(fn, isRole)) > 0, "R17.17", "checkOccupiedAccount: a free answer has seen the role record", c.P.Pos(fn.Pos()), "every return that may answer 'free' lies behind GetObject(RoleKey(addr), ..)",
		bad+" (role-record reads: "+strconv.Itoa(len(sites(fn, isRole)))+"): an address that holds a role without an occupy marker - every genesis governance admin - passes as free, is accepted in a stranger's RegisterAppchain admin list and loses its governance role when that registration is approved")
	r.Floor("R17.17", "occupy-marker reads in checkOccupiedAccount", n, 1)
}

// ---------------------------------------------------------------------------------------------------------------------
// R12.10 / R12.11: a rollback to any height of the window - the head included - ends with the caches purged and the root
// re-anchored; a rollback that cannot be completed is refused before anything is modified.
func (c *Ctx) c12HeadAndRefusal() {
	r := c.R
	r.Rule("R12.10", "a rollback to any height of the window, the head included, ends with the uncommitted state gone: every return of RollbackState that reports success lies behind the purge of the in-block account map and the account cache and behind a store of prevJnlHash. A rollback to the head has nothing to revert in the store, but a block that was executed (and flushed) without being committed must not stay readable, and the next block must chain on the committed root.")
	r.Rule("R12.11", "a rollback that cannot be completed is refused before anything is modified: in RollbackState a loop that tests the presence of the journals of the range (ldb.Has on a journal key) precedes the cache purge and every batch operation on every path. Noticing the missing journal only when the loop reaches it leaves the store and the persisted max marker at an intermediate height while maxJnlHeight and prevJnlHash stay at the head.")
	rs := c.fn("R12.10", "internal/ledger.(*SimpleLedger).RollbackState")
	if rs == nil {
		return
	}
	isPurge := c.throughHelpers(func(in ssa.Instruction) bool {
		call, ok := in.(ssa.CallInstruction)
		if !ok {
			return false
		}
		n := core.CalleeName(call)
		return strings.HasSuffix(n, "AccountCache).clear") || strings.HasSuffix(n, "SimpleLedger).Clear")
	})
	isAnchor := c.throughHelpers(storesToField("SimpleLedger", "prevJnlHash"))
	n := 0
	for _, ret := range core.Returns(rs) {
		if len(ret.Results) != 1 {
			continue
		}
		success := false
		for _, o := range core.RetOrigins(ret.Results[0]) {
			if core.IsNilConst(o.V) {
				success = true
			}
		}
		if !success {
			continue
		}
		n++
		noPurge := core.Reach([]core.Point{core.EntryOf(rs)}, isPurge, nil).Has(ret)
		noAnchor := core.Reach([]core.Point{core.EntryOf(rs)}, isAnchor, nil).Has(ret)
		r.Check(!noPurge && !noAnchor, "R12.10", "RollbackState: success #"+strconv.Itoa(n)+" behind purge and re-anchoring", c.P.Pos(ret.Pos()), "every path to the successful return purges the caches and stores prevJnlHash",
			"RollbackState can report success without having purged the caches / re-anchored the root (purge skipped: "+strconv.FormatBool(noPurge)+", root not stored: "+strconv.FormatBool(noAnchor)+"): after Rollback(head) a block that was executed and flushed but never committed is still read back (balance, nonce, code, keys) and the next block chains on the aborted root - re-executing the real block gives another block hash")
	}
	r.Floor("R12.10", "successful returns of RollbackState", n, 1)
	// R12.11
	isPresence := func(in ssa.Instruction) bool {
		call, ok := in.(ssa.CallInstruction)
		if !ok || !call.Common().IsInvoke() || call.Common().Method.Name() != "Has" || !core.InLoop(call) {
			return false
		}
		return len(call.Common().Args) > 0 && strings.HasPrefix(storageKind(call.Common().Args[0]), "journal")
	}
	isPresenceDeep := isPresence
	isBatchOp := c.throughHelpers(func(in ssa.Instruction) bool {
		call, ok := in.(ssa.CallInstruction)
		return ok && call.Common().IsInvoke() && (call.Common().Method.Name() == "NewBatch" || call.Common().Method.Name() == "Commit")
	})
	isMutation := func(in ssa.Instruction) bool { return isPurge(in) || isBatchOp(in) }
	nm := 0
	bad := ""
	// the presence loop (it may run zero times: an empty range needs no journal): its header dominates every mutation
	var headers []*ssa.BasicBlock
	for _, b := range rs.Blocks {
		for _, in := range b.Instrs {
			if isPresenceDeep(in) {
				if h, _ := loopAround(in.Block()); h != nil {
					headers = append(headers, h)
				}
			}
		}
	}
	for _, b := range rs.Blocks {
		for _, in := range b.Instrs {
			if isMutation(in) {
				nm++
				dominated := false
				for _, h := range headers {
					if h != in.Block() && h.Dominates(in.Block()) {
						// and the mutation is not inside the presence loop itself
						if _, L := loopAround(h); L == nil || !L[in.Block()] {
							dominated = true
						}
					}
				}
				if !dominated {
					bad = "the mutation at " + c.P.Pos(in.Pos()) + " is not preceded by a loop that tests the presence of the journals"
				}
			}
		}
	}
	r.Check(bad == "", "R12.11", "RollbackState: journals of the range checked before the first mutation", c.P.Pos(rs.Pos()), "a loop of ldb.Has(journal key) precedes the purge and every batch",
		bad+": a journal missing inside the range is noticed only after the heights above it were reverted and committed - the error is returned with the store at an intermediate height (journals above deleted, max marker lowered) while maxJnlHeight and prevJnlHash still describe the head")
	r.Floor("R12.11", "mutations in RollbackState (purge, batches)", nm, 1)
}

// ---------------------------------------------------------------------------------------------------------------------
// R06.16 / R06.17: the expiry of a height is complete.
func (c *Ctx) c06ExpiryComplete() {
	r := c.R
	r.Rule("R06.16", "a transaction id is not taken apart at '-': appchain and service ids are free text and may contain the character, so in the executor's expiry functions (getTimeoutIBTPsMap, addTxIdToSrcTimeoutIBTPsMap and helpers) no strings.Split / SplitN with the separator \"-\" is applied to an id. With 'chain-0' the parts are malformed, the map cannot be built and the block announces no timeout at all.")
	r.Rule("R06.17", "one unreadable element does not stop the expiry of the height: the loops of setTimeoutRollback and getTimeoutIBTPsMap over the timeout list of the height contain no return - an element that cannot be handled is skipped and reported after the loop. No later block looks at the list of that height again: whatever is listed behind the element would stay BEGIN past its deadline, unannounced, with a late success receipt still accepted.")
	n16, n17 := 0, 0
	for _, spec := range []string{"setTimeoutRollback", "getTimeoutIBTPsMap"} {
		fn := c.fn("R06.17", execPrefix+spec)
		if fn == nil {
			continue
		}
		for _, rf := range c.regionOf(fn, 2) {
			for _, call := range core.Calls(rf.fn) {
				nm := core.CalleeName(call)
				if nm != "strings.Split" && nm != "strings.SplitN" {
					continue
				}
				sep, ok := core.ConstString(call.Common().Args[1])
				if !ok {
					continue
				}
				n16++
				r.Check(sep != "-", "R06.16", shortFn(rf.fn)+": split #"+strconv.Itoa(n16), c.P.Pos(call.Pos()), "separator "+strconv.Quote(sep),
					"a transaction id is split at '-': an appchain or service id containing '-' yields malformed parts, getTimeoutIBTPsMap fails and no timeout of the height is announced (empty TimeoutCounter, zero TimeoutRoot) although the records moved to BEGIN_ROLLBACK")
			}
		}
		// loops over the timeout list: no return inside
		var listVals []ssa.Value
		for _, call := range core.Calls(fn) {
			if cv, ok := call.(*ssa.Call); ok && core.CalleeObj(call) != nil && core.CalleeObj(call).Name() == "getTimeoutList" {
				listVals = append(listVals, cv)
			}
		}
		for _, ret := range core.Returns(fn) {
			if !core.InLoop(ret) {
				// a return is never on a cycle; test instead whether it is reachable from inside a loop body without leaving through the loop's exit
			}
		}
		// a return that is dominated by a loop header which ranges over the list and lies inside that loop's body
		for _, b := range fn.Blocks {
			for _, in := range b.Instrs {
				ia, ok := in.(*ssa.IndexAddr)
				if !ok {
					continue
				}
				fromList := false
				for _, lv := range listVals {
					if core.Strip(ia.X) == lv || ia.X == lv {
						fromList = true
					}
				}
				if !fromList {
					continue
				}
				h, L := loopAround(ia.Block())
				if h == nil {
					continue
				}
				n17++
				bad := ""
				for _, ret := range core.Returns(fn) {
					// inside the loop: the return's block is reachable from the body without passing the header again and
					// is dominated by the element access
					rb := ret.Block()
					if ia.Block().Dominates(rb) && rb != h {
						// leaves through the loop exit? the exit edge goes from the header; a block dominated by the body is inside
						_ = L
						bad = "return at " + c.P.Pos(ret.Pos()) + " inside the loop over the timeout list"
					}
				}
				r.Check(bad == "", "R06.17", shortFn(fn)+": loop over the timeout list runs to its end", c.P.Pos(ia.Pos()), "no return inside the loop",
					bad+": the ids listed behind an element that cannot be handled are never moved to BEGIN_ROLLBACK / never announced, and no later block revisits the list of this height")
			}
		}
	}
	r.Note("R06.16", "splits in the expiry functions", "", strconv.Itoa(n16)+" strings.Split / SplitN calls inspected")
	r.Floor("R06.17", "loops over the timeout list", n17, 2)
}

// ---------------------------------------------------------------------------------------------------------------------
// R15.10: the electorate update concludes a proposal under the conditions of the voting path.
// R15.11: the tally counts the electors whose ballots it counts (known finding).
func (c *Ctx) c15ElectorateUpdate() {
	r := c.R
	r.Rule("R15.10", "an electorate change concludes a proposal only under the conditions of the voting path: in Governance.UpdateAvailableElectorateNum the conclusion (handleResult, the APPROVED / REJECTED status change) is preceded by a condition that reads IsSuperAdminVoted (special proposals wait for the super admin) and one that compares the status with PAUSED (a paused proposal's object belongs to the proposal that paused it). Without them freezing one elector approves a special proposal the super admin never voted on, or concludes a paused proposal under the feet of the one that locked it.")
	fn := c.fn("R15.10", "internal/executor/contracts.(*Governance).UpdateAvailableElectorateNum")
	if fn != nil {
		isConclude := c.throughHelpers(func(in ssa.Instruction) bool {
			call, ok := in.(ssa.CallInstruction)
			return ok && core.CalleeObj(call) != nil && core.CalleeObj(call).Name() == "handleResult"
		})
		n := 0
		for _, in := range sites(fn, isConclude) {
			n++
			superSeen, pausedSeen := false, false
			for _, b := range fn.Blocks {
				ifi := core.IfOf(b)
				if ifi == nil || !blockReach(b, in.Block()) || b == in.Block() {
					continue
				}
				conds := []ssa.Value{ifi.Cond}
				if _, parts, ok := core.LogicalParts(ifi); ok {
					for _, p := range parts {
						conds = append(conds, p.V)
					}
				}
				for _, cv := range conds {
					if core.Mentions(cv, fieldNamed("IsSuperAdminVoted")) {
						superSeen = true
					}
					if core.Mentions(cv, func(v ssa.Value) bool {
						bo, ok := v.(*ssa.BinOp)
						if !ok || (bo.Op != token.EQL && bo.Op != token.NEQ) {
							return false
						}
						for _, side := range []ssa.Value{bo.X, bo.Y} {
							if s, ok := core.ConstString(side); ok && s == "pause" {
								return true
							}
						}
						return false
					}) {
						pausedSeen = true
					}
				}
			}
			r.Check(superSeen && pausedSeen, "R15.10", "UpdateAvailableElectorateNum: conclusion #"+strconv.Itoa(n)+" under the voting path's conditions", c.P.Pos(in.Pos()), "decided after tests of IsSuperAdminVoted and of the PAUSED status",
				"the electorate update concludes the proposal without the conditions of countVote (super admin voted: "+strconv.FormatBool(superSeen)+", not paused: "+strconv.FormatBool(pausedSeen)+"): freezing an elector approves a special proposal (e.g. a new governance admin) the super admin never voted on; an unrelated freeze concludes a paused proposal whose handler changes the object held by the proposal that paused it")
		}
		r.Floor("R15.10", "conclusions in UpdateAvailableElectorateNum", n, 1)
	}
	r.Rule("R15.11", "the tally counts the electors whose ballots it counts: the number of available electors handed to repo.MakeStrategyDecision by the governance contract's tally sites is not the stored AvailableElectorateNum as it is - that number is decremented for electors who voted and became unavailable, while their ballots stay in ApproveNum / AgainstNum, so 'approvals still possible' is under-counted and a proposal is rejected although approval is reachable (known finding).")
	n := 0
	for _, f := range c.P.ModuleFuncs(true) {
		if !strings.HasSuffix(f.Package().Pkg.Path(), "internal/executor/contracts") {
			continue
		}
		top := f
		for top.Parent() != nil {
			top = top.Parent()
		}
		if top.Signature.Recv() == nil || !strings.HasSuffix(top.Signature.Recv().Type().String(), "contracts.Governance") {
			continue
		}
		for _, call := range core.Calls(f) {
			if !strings.HasSuffix(core.CalleeName(call), "repo.MakeStrategyDecision") || len(call.Common().Args) < 5 {
				continue
			}
			a := call.Common().Args[4]
			_, fld, _, ok := core.FieldOf(core.Strip(a))
			if !ok || fld != "AvailableElectorateNum" {
				continue
			}
			n++
			r.Check(false, "R15.11", shortFn(top)+": tally on the stored AvailableElectorateNum", c.P.Pos(call.Pos()), "",
				"MakeStrategyDecision receives p.AvailableElectorateNum as it is: electors who voted and were then frozen / logged out are subtracted from it while their ballots stay counted, so availableNum - reject under-counts the approvals still possible - with 4 admins and a > 0.5*t, B rejects and is frozen: the proposal is rejected (\"not enough valid electorate\", approve=0 against=1 available=3) although three electors have not voted")
		}
	}
	r.Floor("R15.11", "tally sites fed with the stored AvailableElectorateNum", n, 0)
}

// ---------------------------------------------------------------------------------------------------------------------
// R16.12 (known finding): an approved update does not lift a freeze.
func (c *Ctx) c16UpdateKeepsFreeze() {
	r := c.R
	r.Rule("R16.12", "an approved update changes the information of an appchain, not its freeze: where AppchainManager concludes an approved update (manageUpdateApprove and helpers) the cross-invoke UnPauseChainService lies behind a test of the status the appchain had before the update (lastStatus against frozen). The FSM of bitxhub-core maps approve from updating to available whatever the last status was; resuming the services unconditionally lets the chain's own admin lift, with an ordinary update proposal, a freeze that only a special proposal may lift (known finding).")
	mu := c.fn("R16.12", "internal/executor/contracts.(*AppchainManager).manageUpdateApprove")
	if mu == nil {
		return
	}
	n := 0
	for _, call := range core.Calls(mu) {
		isUnpause := false
		for _, a := range call.Common().Args {
			if s, ok := core.ConstString(a); ok && s == "UnPauseChainService" {
				isUnpause = true
			}
		}
		if !isUnpause {
			continue
		}
		n++
		guarded := false
		for _, b := range mu.Blocks {
			ifi := core.IfOf(b)
			if ifi == nil || !b.Dominates(call.Block()) || b == call.Block() {
				continue
			}
			if core.Mentions(ifi.Cond, func(v ssa.Value) bool {
				p, ok := v.(*ssa.Parameter)
				return ok && p.Parent() == mu && p != mu.Params[0] && (p.Type().String() == "bool" || strings.Contains(strings.ToLower(p.Name()), "status"))
			}) {
				guarded = true
			}
		}
		r.Check(guarded, "R16.12", "manageUpdateApprove: services resumed only when the chain was not frozen before", c.P.Pos(call.Pos()), "UnPauseChainService behind a test of what the caller knows about the last status",
			"an approved UpdateAppchain resumes the chain's services and ends available whatever the status before the update was: FreezeAppchain(chainB) approved (services paused, requests begin-failed), the chain's own admin submits UpdateAppchain with a new name, approved by ordinary votes -> chainB available, services available, requests accepted; the same shape exists for UpdateService from frozen")
	}
	r.Floor("R16.12", "UnPauseChainService in manageUpdateApprove", n, 1)
}

// ---------------------------------------------------------------------------------------------------------------------
// R20.12: lastExec is what the ordering node itself handed to the executor; the executor's progress report never moves it.
func (c *Ctx) c20LastExecOwner() {
	r := c.R
	r.Rule("R20.12", "lastExec is advanced only by what the ordering node itself delivers: no store to Node.lastExec (solo and raft) takes its value from an executor report (a value reached through a *ChainState). The executor lags behind ordering (the commit channel is buffered); pulling lastExec back to a reported height makes every batch already numbered beyond it fail the height test, and their transactions stay marked as batched for ever.")
	n := 0
	for _, fn := range c.P.ModuleFuncs(true) {
		pk := fn.Package().Pkg.Path()
		if !strings.HasSuffix(pk, "pkg/order/solo") && !strings.HasSuffix(pk, "pkg/order/etcdraft") {
			continue
		}
		for _, b := range fn.Blocks {
			for _, in := range b.Instrs {
				st, ok := in.(*ssa.Store)
				if !ok {
					continue
				}
				o, f, _, ok := core.FieldOf(st.Addr)
				if !ok || f != "lastExec" || !strings.HasSuffix(o, ".Node") {
					continue
				}
				n++
				fromReport := core.Mentions(st.Val, func(v ssa.Value) bool {
					return strings.Contains(v.Type().String(), "ChainState")
				})
				r.Check(!fromReport, "R20.12", shortFn(fn)+": store to lastExec #"+strconv.Itoa(n), c.P.Pos(st.Pos()), "the value does not come from an executor report",
					"lastExec is set from the executor's report (ChainState): the executor may be blocks behind what ordering has already handed out - the batches numbered beyond the reported height fail the lastExec+1 test and are dropped for good, their transactions remain marked as batched and are never delivered")
			}
		}
	}
	r.Floor("R20.12", "stores to Node.lastExec in solo and raft", n, 3)
}

// ---------------------------------------------------------------------------------------------------------------------
// R16.13: a cascade that depends on the status an object had BEFORE its status change is decided on the record read before
// the change.
func (c *Ctx) c16PreEventStatus() {
	r := c.R
	r.Rule("R16.13", "a cascade decided by the status an object had before its status change reads the record loaded before the change: in a governance entry of the contracts, a test of <record>.Status that follows the entry's own ChangeStatus call (directly or in a helper) and guards a cross-invoke is made on a record produced before that call, not on one returned by a helper that performs the change. After the change the status is always the event's target (logouting, freezing ..), so the test can never be true and the cascade - e.g. pausing the audit-admin binding proposal of a node that is logged out while binding - is silently skipped.")
	isChange := c.throughHelpers(func(in ssa.Instruction) bool {
		call, ok := in.(ssa.CallInstruction)
		return ok && core.CalleeObj(call) != nil && core.CalleeObj(call).Name() == "ChangeStatus"
	})
	n := 0
	for _, fn := range c.P.ModuleFuncs(true) {
		if !strings.HasSuffix(fn.Package().Pkg.Path(), "internal/executor/contracts") || fn.Parent() != nil {
			continue
		}
		changes := sites(fn, isChange)
		if len(changes) == 0 {
			continue
		}
		for _, b := range fn.Blocks {
			ifi := core.IfOf(b)
			if ifi == nil {
				continue
			}
			bo, ok := ifi.Cond.(*ssa.BinOp)
			if !ok || (bo.Op != token.EQL && bo.Op != token.NEQ) {
				continue
			}
			var subj ssa.Value
			for _, side := range []ssa.Value{bo.X, bo.Y} {
				if _, f, base, ok := core.FieldOf(side); ok && f == "Status" {
					subj = base
				}
			}
			if subj == nil {
				continue
			}
			// follows a status change of this function
			after := false
			for _, ch := range changes {
				if core.Reach([]core.Point{core.After(ch)}, nil, nil).Has(ifi) {
					after = true
				}
			}
			if !after {
				continue
			}
			// guards a cross-invoke
			guards := false
			for si := range b.Succs {
				rs := core.Reach([]core.Point{{B: b.Succs[si], Idx: 0}}, nil, nil)
				other := core.Reach([]core.Point{{B: b.Succs[1-si], Idx: 0}}, nil, nil)
				for _, call := range core.Calls(fn) {
					if core.CalleeObj(call) != nil && core.CalleeObj(call).Name() == "CrossInvoke" && rs.Has(call) && !other.Has(call) {
						guards = true
					}
				}
			}
			if !guards {
				continue
			}
			n++
			// where the record comes from
			src := core.Strip(subj)
			if ta, ok := src.(*ssa.TypeAssert); ok {
				src = core.Strip(ta.X)
			}
			if ex, ok := src.(*ssa.Extract); ok {
				src = ex.Tuple
			}
			bad := ""
			if pc, ok := src.(*ssa.Call); ok {
				if isChange(pc) {
					bad = "the record is the result of " + core.CalleeName(pc) + ", which performs the status change"
				} else {
					for _, ch := range changes {
						if core.Reach([]core.Point{core.After(ch)}, nil, nil).Has(pc) && !core.InLoop(pc) {
							bad = "the record is read (" + core.CalleeName(pc) + ") after the status change"
						}
					}
				}
			}
			r.Check(bad == "", "R16.13", shortFn(fn)+": status test behind the status change #"+strconv.Itoa(n), c.P.Pos(ifi.Cond.Pos()), "the record tested was produced before the change",
				bad+": the status compared is the one the event just set, never the one the object had before - the cascade behind the test (pausing a dependent proposal, freezing services ..) is skipped, and the dependent object is later driven by a proposal that should have been paused")
		}
	}
	r.Note("R16.13", "status tests behind a status change that guard a cross-invoke", "", strconv.Itoa(n)+" instances (a rule without violations to expect: the count is information)")
}
